"""Oracle for GraphQL June 2018 6.3.2 CollectFields (C01), written from the specification text:
  for each selection in order: @skip/@include first; a field is appended under its response key (alias or name), keeping
  first-appearance order of keys; an inline fragment contributes its selections when its type condition applies; a fragment spread
  contributes the fragment's selections when its name has not been visited in this grouped set (the name is marked visited before the
  type-condition test) and the condition applies."""
import z3
from pyvc.values import *
from pyvc.values import UNFOLD
from pyvc.symexec import attr0
from pyvc.classtable import table

T = table()
Inc = z3.Function('ShouldInclude', V, V, BoolS)          # (execution context, selection node): outcome of the @skip/@include hooks
CondMatch = z3.Function('ConditionMatches', V, V, V, BoolS)   # (context, node carrying a type condition, runtime object type)


def cls_exact(v, name):
    return z3.And(V.is_Obj(v), V.ocls(v) == T.cid[name])


def entry_key(sel):
    al = attr0(sel, 'alias')
    return z3.If(al == V.None_, attr0(attr0(sel, 'name'), 'value'), attr0(al, 'value'))


def mm_add(f, k, x):
    """ordered multimap insertion: append x to the list under k, creating the entry at the end when k is new"""
    cur = lookup(f, k)
    return z3.If(cur == V.Missing, snoc(f, V.Pair(k, V.List(VL.cons(x, VL.nil)))), assoc_set(f, k, V.List(snoc(V.items(cur), x))))


def vs_add(v, x):
    return z3.If(mem(v, x), v, snoc(v, x))


def sels_of(selection_set):
    return V.items(attr0(selection_set, 'selections'))


CF = z3.RecFunction('CollectFields', V, V, VL, IntS, VL, VL, V)      # ctx, runtime type, selections, k, fields, visited -> Pair(Dict fields, Set visited)
_ctx, _rt = z3.Consts('cf_ctx cf_rt', V)
_sels, _f, _v = z3.Consts('cf_sels cf_f cf_v', VL)
_k = z3.Int('cf_k')


def P(f, v):
    return V.Pair(V.Dict(f), V.Set(v))


def step(ctx, rt, sel, acc):
    f, v = V.ditems(V.fst(acc)), V.sitems(V.snd(acc))
    name = attr0(attr0(sel, 'name'), 'value')
    frag = lookup(V.ditems(attr0(ctx, 'fragments')), name)
    v2 = vs_add(v, name)
    inner = attr0(sel, 'selection_set')
    fsel = attr0(frag, 'selection_set')
    return z3.If(cls_exact(sel, 'FieldNode'),
                 z3.If(Inc(ctx, sel), P(mm_add(f, entry_key(sel), sel), v), acc),
           z3.If(cls_exact(sel, 'InlineFragmentNode'),
                 z3.If(z3.And(Inc(ctx, sel), CondMatch(ctx, sel, rt)), CF(ctx, rt, sels_of(inner), length(sels_of(inner)), f, v), acc),
           z3.If(cls_exact(sel, 'FragmentSpreadNode'),
                 z3.If(z3.Or(mem(v, name), z3.Not(Inc(ctx, sel))), acc,
                       z3.If(z3.Or(frag == V.None_, z3.Not(CondMatch(ctx, frag, rt))), P(f, v2),
                             CF(ctx, rt, sels_of(fsel), length(sels_of(fsel)), f, v2))),
                 acc)))


_cf_body = lambda ctx, rt, sels, k, f, v: z3.If(k <= 0, P(f, v), step(ctx, rt, nth(sels, k - 1), CF(ctx, rt, sels, k - 1, f, v)))
z3.RecAddDefinition(CF, [_ctx, _rt, _sels, _k, _f, _v], _cf_body(_ctx, _rt, _sels, _k, _f, _v))
UNFOLD['CollectFields'] = _cf_body

# collect_subfields: the sub-selections of all merged field nodes, in order, sharing one visited set
CSF = z3.RecFunction('CollectSubfields', V, V, VL, IntS, V)          # ctx, return type, field nodes, k -> Pair(Dict, Set)
_nodes = z3.Const('csf_nodes', VL)


def _csf_body(ctx, rt, nodes, k):
    prev = CSF(ctx, rt, nodes, k - 1)
    ss = attr0(nth(nodes, k - 1), 'selection_set')
    return z3.If(k <= 0, P(VL.nil, VL.nil),
                 z3.If(ss == V.None_, prev, CF(ctx, rt, sels_of(ss), length(sels_of(ss)), V.ditems(V.fst(prev)), V.sitems(V.snd(prev)))))


z3.RecAddDefinition(CSF, [_ctx, _rt, _nodes, _k], _csf_body(_ctx, _rt, _nodes, _k))
UNFOLD['CollectSubfields'] = _csf_body


def _cf_shape(e, n):
    """CollectFields / CollectSubfields always return Pair(Dict, Set) (induction on the selection list)"""
    if n in ('CollectFields', 'CollectSubfields'):
        return [z3.And(V.is_Pair(e), V.is_Dict(V.fst(e)), V.is_Set(V.snd(e)))]
    return []


from pyvc.values import LEMMA_HOOKS  # noqa: E402
LEMMA_HOOKS.append(_cf_shape)
