"""Oracle vocabulary for result coercion (GraphQL June 2018, 6.4.3 CompleteValue, 6.4.4 error handling) -- C01/C02/C03.

An output coercer closure denotes an `OBeh`; `Conf(b, v)` says that the completed value v conforms to what b stands for:
  * NonNull(b): never null;  * List(b): null, or a list whose every item conforms to b;
  * scalar / enum leaves: null, or a value produced by the type's own serialisation (never the UNDEFINED sentinel);
  * object / abstract: null, or the map built by executing the sub-selection on the runtime object type (opaque here, C01);
  * output directive wrappers do not change what conforms.
"""
import z3
from pyvc.values import *
from pyvc.values import LEMMA_HOOKS, UNFOLD, ForallList, ListImplication
from pyvc.symexec import attr0, fun_id
from pyvc.classtable import table
from specs.inputs import cls_is, is_non_null_type, is_list_t, is_wrapping_t, wrapped_of, bound

T = table()
O = 'tartiflette/coercers/outputs/'
K_OLIST_SEQ = O + 'list_coercer.py::list_coercer_sequentially'
K_OLIST_CONC = O + 'list_coercer.py::list_coercer_concurrently'
K_ONONNULL = O + 'non_null_coercer.py::non_null_coercer'
K_OSCALAR = O + 'scalar_coercer.py::scalar_coercer'
K_OENUM = O + 'enum_coercer.py::enum_coercer'
K_OOBJ = O + 'object_coercer.py::object_coercer'
K_OABS = O + 'abstract_coercer.py::abstract_coercer'
K_ODIR = O + 'directives_coercer.py::output_directives_coercer'

OBeh = z3.Datatype('OBeh')
OBeh.declare('OScalar', ('os_t', V))
OBeh.declare('OEnum', ('oe_t', V))
OBeh.declare('OObj', ('oo_t', V))
OBeh.declare('OAbs', ('oa_t', V))
OBeh.declare('OList', ('ol_conc', BoolS), ('ol_item', V), ('ol_b', OBeh))     # concurrency flag, declared item type, item behaviour
OBeh.declare('ONonNull', ('on_b', OBeh))
OBeh.declare('ODir', ('od_b', OBeh), ('od_dirs', V))
OBeh.declare('OOpaque', ('oc', V))
OBeh = OBeh.create()

# opaque user code and cross-property vocabulary
ScOut_raises = z3.Function('ScOut_raises', V, V, BoolS)    # scalar_type.coerce_output(value) raises
ScOut_val = z3.Function('ScOut_val', V, V, V)
Produced = z3.Function('Produced', V, V, BoolS)            # v is a normal return value of the leaf type's serialiser
ObjConf = z3.Function('ObjConf', V, V, BoolS)              # v is the response map of the sub-selection on object type t (C01)
AbsConf = z3.Function('AbsConf', V, V, BoolS)              # v is the response map for one of the possible types of abstract type t


def _denote_body(c):
    lst = z3.Or(V.fname(c) == fun_id(K_OLIST_SEQ), V.fname(c) == fun_id(K_OLIST_CONC))
    return z3.If(z3.Not(V.is_Fun(c)), OBeh.OOpaque(c),
           z3.If(lst, OBeh.OList(V.fname(c) == fun_id(K_OLIST_CONC), bound(c, 'item_type'), denote(bound(c, 'inner_coercer'))),
           z3.If(V.fname(c) == fun_id(K_ONONNULL), OBeh.ONonNull(denote(bound(c, 'inner_coercer'))),
           z3.If(V.fname(c) == fun_id(K_ODIR), OBeh.ODir(denote(bound(c, 'coercer')), bound(c, 'directives')),
           z3.If(V.fname(c) == fun_id(K_OSCALAR), OBeh.OScalar(bound(c, 'scalar_type')),
           z3.If(V.fname(c) == fun_id(K_OENUM), OBeh.OEnum(bound(c, 'enum_type')),
           z3.If(V.fname(c) == fun_id(K_OOBJ), OBeh.OObj(bound(c, 'object_type')),
           z3.If(V.fname(c) == fun_id(K_OABS), OBeh.OAbs(bound(c, 'abstract_type')),
                 OBeh.OOpaque(c)))))))))


denote = z3.RecFunction('denote_out', V, OBeh)
_c = z3.Const('c_', V)
z3.RecAddDefinition(denote, [_c], _denote_body(_c))
UNFOLD['denote_out'] = _denote_body

Conf = z3.RecFunction('Conf', OBeh, V, BoolS)
AllConf = ForallList('conf', lambda x, b: Conf(b, x), (OBeh,))       # every element of a list conforms to b
_b = z3.Const('ob_', OBeh)
_v = z3.Const('ov_', V)


def _conf_body(b, v):
    return z3.If(OBeh.is_ONonNull(b), z3.And(v != V.None_, Conf(OBeh.on_b(b), v)),
           z3.If(OBeh.is_ODir(b), Conf(OBeh.od_b(b), v),
           z3.If(OBeh.is_OOpaque(b), True,
           z3.If(v == V.None_, True,
           z3.If(OBeh.is_OList(b), z3.And(V.is_List(v), AllConf(V.items(v), OBeh.ol_b(b))),
           z3.If(OBeh.is_OScalar(b), z3.And(Produced(OBeh.os_t(b), v), v != V.Undef),
           z3.If(OBeh.is_OEnum(b), z3.And(Produced(OBeh.oe_t(b), v), v != V.Undef),
           z3.If(OBeh.is_OObj(b), ObjConf(OBeh.oo_t(b), v), AbsConf(OBeh.oa_t(b), v)))))))))


z3.RecAddDefinition(Conf, [_b, _v], _conf_body(_b, _v))
UNFOLD['Conf'] = _conf_body


def nullable(b):
    """behaviours that accept null (everything except a non-null wrapper, possibly under output directives)"""
    return z3.Not(OBeh.is_ONonNull(b))


# ---- the behaviour prescribed for a type object (what get_output_coercer(T, concurrently) must build)
OBehT = z3.RecFunction('OBehT', V, BoolS, OBeh)
_t = z3.Const('ot_', V)
_cc = z3.Const('occ_', BoolS)


def _obeht_body(t, cc):
    return z3.If(is_list_t(t), OBeh.OList(cc, wrapped_of(t), OBehT(wrapped_of(t), cc)),
           z3.If(is_non_null_type(t), OBeh.ONonNull(OBehT(wrapped_of(t), cc)), denote(attr0(t, 'output_coercer'))))


z3.RecAddDefinition(OBehT, [_t, _cc], _obeht_body(_t, _cc))
UNFOLD['OBehT'] = _obeht_body

LEAF_OUTPUT_CLASSES = [c for c in T.subclasses('GraphQLType') if T.resolve_attr(c, 'output_coercer') is not None]
OTyWf = z3.RecFunction('OTyWf', V, BoolS)


def _otywf_body(t):
    from specs.inputs import find_type
    return z3.And(cls_is(t, 'GraphQLType'), V.oref(t) >= 0,
                  z3.If(is_wrapping_t(t),
                        z3.And(z3.Or(is_list_t(t), is_non_null_type(t)),
                               z3.Or(cls_is(attr0(t, 'gql_type'), 'GraphQLType'),
                                     z3.And(V.is_Str(attr0(t, 'gql_type')), cls_is(attr0(t, '_schema'), 'GraphQLSchema'),
                                            V.is_Dict(attr0(attr0(t, '_schema'), 'type_definitions')),
                                            find_type(attr0(t, '_schema'), attr0(t, 'gql_type')) != V.Missing)),
                               OTyWf(wrapped_of(t))),
                        z3.And(z3.Or(*[z3.And(V.is_Obj(t), V.ocls(t) == T.cid[c]) for c in LEAF_OUTPUT_CLASSES]), V.is_Fun(attr0(t, 'output_coercer')))))


z3.RecAddDefinition(OTyWf, [_t], _otywf_body(_t))
UNFOLD['OTyWf'] = _otywf_body


def owrapB(w, b):
    lst = z3.Or(V.fname(w) == fun_id(K_OLIST_SEQ), V.fname(w) == fun_id(K_OLIST_CONC))
    return z3.If(lst, OBeh.OList(V.fname(w) == fun_id(K_OLIST_CONC), bound(w, 'item_type'), b), OBeh.ONonNull(b))


def ookw(w, cc):
    """a wrapper built by get_output_coercer: the list coercer of the requested flavour with its item type bound, or non_null_coercer"""
    return z3.And(V.is_Fun(w), z3.Or(V.fname(w) == fun_id(K_ONONNULL),
                                     V.fname(w) == z3.If(cc, fun_id(K_OLIST_CONC), fun_id(K_OLIST_SEQ))))


ORebR = z3.RecFunction('ORebR', VL, OBeh, OBeh)
OWsOk = z3.RecFunction('OWsOk', VL, BoolS, BoolS)
_ws = z3.Const('ows_', VL)
_orebr = lambda ws, b: z3.If(length(ws) <= 0, b, ORebR(take(ws, length(ws) - 1), owrapB(nth(ws, length(ws) - 1), b)))
_owsok = lambda ws, cc: z3.If(length(ws) <= 0, True, z3.And(OWsOk(take(ws, length(ws) - 1), cc), ookw(nth(ws, length(ws) - 1), cc)))
z3.RecAddDefinition(ORebR, [_ws, _b], _orebr(_ws, _b))
z3.RecAddDefinition(OWsOk, [_ws, _cc], _owsok(_ws, _cc))
UNFOLD['ORebR'] = _orebr
UNFOLD['OWsOk'] = _owsok


# ---- exceptions travelling through completion: a MultipleException always carries at least one exception, and only exceptions
def carried_exc(x):
    return cls_is(x, 'Exception')


AllCarried = ForallList('carried_exc', carried_exc)


def exc_wf(e):
    ex = attr0(e, 'exceptions')
    return z3.And(cls_is(e, 'Exception'),
                  z3.Implies(cls_is(e, 'MultipleException'), z3.And(V.is_List(ex), z3.Not(VL.is_nil(V.items(ex))))))


def exc_full_wf(e):
    return z3.And(exc_wf(e), z3.Implies(cls_is(e, 'MultipleException'), AllCarried(V.items(attr0(e, 'exceptions')))))


def carried(e):
    """number of errors an exception stands for (6.4.4: one per failing position; a MultipleException carries several)"""
    return z3.If(cls_is(e, 'MultipleException'), length(V.items(attr0(e, 'exceptions'))), 1)


# ---- arbitrary resolver results (recursive well-formedness): anything except the internal lookup marker; IEEE floats;
# exceptions carried as values are well-formed exceptions
def _exc_ok(e):
    return z3.Implies(cls_is(e, 'Exception'), exc_full_wf(e))


ResWf = z3.RecFunction('ResWf', V, BoolS)
ResListWf = z3.RecFunction('ResListWf', VL, BoolS)
_rv = z3.Const('rv_', V)
_rl = z3.Const('rl_', VL)
z3.RecAddDefinition(ResWf, [_rv], z3.And(_rv != V.Missing, z3.Implies(V.is_Float(_rv), wf_float(_rv)), _exc_ok(_rv),
                                         z3.Implies(V.is_List(_rv), ResListWf(V.items(_rv)))))
z3.RecAddDefinition(ResListWf, [_rl], z3.If(VL.is_nil(_rl), True, z3.And(ResWf(VL.hd(_rl)), ResListWf(VL.tl(_rl)))))
UNFOLD['ResWf'] = lambda v: z3.And(v != V.Missing, z3.Implies(V.is_Float(v), wf_float(v)), _exc_ok(v), z3.Implies(V.is_List(v), ResListWf(V.items(v))))


def _res_lemmas(e, n):
    if n == 'nth':
        l, k = e.arg(0), e.arg(1)
        return [z3.Implies(z3.And(ResListWf(l), k >= 0, k < length(l)), ResWf(e))]
    return []


LEMMA_HOOKS.append(_res_lemmas)
