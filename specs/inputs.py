"""Oracle for input coercion (GraphQL June 2018, 3.9-3.12 input coercion rules, 6.1.2 CoerceVariableValues).

A coercer closure *denotes* a behaviour `Beh`; `Sem_ok/Sem_val` give the specification's verdict for a JSON value.
Written from the specification text and the property statement (C04), not from the code:
  * null is accepted by every nullable type and stays null;
  * NonNull(T): null is an error, otherwise as T;
  * List(T): a list is coerced item by item (all items must be acceptable); a non-list value is coerced as T and
    wrapped into a one-element list (at every list level);
  * scalars / enum values: the leaf rule of the type (custom scalars: their own coerce_input, opaque here);
  * input objects: the value must be a map; every declared field: present -> coerced; absent -> its default value, or an
    error when the field type is non-null, or omitted; keys that are not declared fields are errors;
  * type-level / field-level `on_post_input_coercion` directive hooks are applied to an accepted value (opaque user code).
"""
import z3
from pyvc.values import *
from pyvc.values import LEMMA_HOOKS, UNFOLD
from pyvc.symexec import attr0, fun_id
from pyvc.classtable import table

T = table()
F = 'tartiflette/coercers/inputs/'
K_LIST = F + 'list_coercer.py::list_coercer'
K_NONNULL = F + 'non_null_coercer.py::non_null_coercer'
K_SCALAR = F + 'scalar_coercer.py::scalar_coercer'
K_ENUM = F + 'enum_coercer.py::enum_coercer'
K_INOBJ = F + 'input_object_coercer.py::input_object_coercer'
K_DIR = F + 'directives_coercer.py::input_directives_coercer'

Beh = z3.Datatype('Beh')
Beh.declare('ScalarB', ('sc_t', V))
Beh.declare('EnumB', ('en_t', V))
Beh.declare('InObjB', ('io_t', V))
Beh.declare('ListB', ('lb', Beh))
Beh.declare('NonNullB', ('nb', Beh))
Beh.declare('DirB', ('db', Beh), ('dirs', V))
Beh.declare('OpaqueB', ('oc', V))        # "should never happen" fall-back closures and anything outside the world
Beh = Beh.create()

# ---- opaque user code (custom scalars, directive hooks): uninterpreted, shared by code summaries and the oracle
ScIn_raises = z3.Function('ScIn_raises', V, V, BoolS)     # scalar_type.coerce_input(value) raises
ScIn_val = z3.Function('ScIn_val', V, V, V)               # ... or returns this
Dir_raises = z3.Function('Dir_raises', V, V, BoolS)       # post-input-coercion hook chain raises on this value
Dir_val = z3.Function('Dir_val', V, V, V)
EnumHook_raises = z3.Function('EnumHook_raises', V, V, BoolS)   # enum value's hook chain (enum_value.input_coercer)
EnumHook_val = z3.Function('EnumHook_val', V, V, V)
DefLit_ok = z3.Function('DefLit_ok', V, BoolS)            # literal coercion of an input field's default value succeeds
DefLit_val = z3.Function('DefLit_val', V, V)
Opaque_ok = z3.Function('Opaque_ok', V, V, BoolS)
Opaque_val = z3.Function('Opaque_val', V, V, V)


def S_(k):
    return S(k)


def bound(c, name):
    return lookup(V.fbound(c), S(name))


# ---- denotation of closures (structure of functools.partial over the coercer functions)
denote = z3.RecFunction('denote_in', V, Beh)
_c = z3.Const('c_', V)
z3.RecAddDefinition(denote, [_c], z3.If(z3.Not(V.is_Fun(_c)), Beh.OpaqueB(_c),
    z3.If(V.fname(_c) == fun_id(K_LIST), Beh.ListB(denote(bound(_c, 'inner_coercer'))),
    z3.If(V.fname(_c) == fun_id(K_NONNULL), Beh.NonNullB(denote(bound(_c, 'inner_coercer'))),
    z3.If(V.fname(_c) == fun_id(K_DIR), Beh.DirB(denote(bound(_c, 'coercer')), bound(_c, 'directives')),
    z3.If(V.fname(_c) == fun_id(K_SCALAR), Beh.ScalarB(bound(_c, 'scalar_type')),
    z3.If(V.fname(_c) == fun_id(K_ENUM), Beh.EnumB(bound(_c, 'enum_type')),
    z3.If(V.fname(_c) == fun_id(K_INOBJ), Beh.InObjB(bound(_c, 'input_object_type')),
          Beh.OpaqueB(_c)))))))))


def cls_is(v, name):
    ids = [T.cid[c] for c in T.subclasses(name)]
    return z3.And(V.is_Obj(v), z3.Or(*[V.ocls(v) == k for k in ids]))


def is_non_null_type(t):
    return cls_is(t, 'GraphQLNonNull')


def py_truthy_dirs(d):
    """truthiness of the `directives` callable: None when the element has no hook, a closure otherwise"""
    return z3.And(d != V.None_, d != V.Undef, z3.Not(z3.And(V.is_Bool(d), z3.Not(V.b(d)))))


# ---- the oracle
Sem_ok = z3.RecFunction('Sem_ok', Beh, V, BoolS)
Sem_val = z3.RecFunction('Sem_val', Beh, V, V)
AllOk = z3.RecFunction('AllOkUpTo', Beh, VL, IntS, BoolS)         # items with index < k are acceptable
Vals = z3.RecFunction('ValsUpTo', Beh, VL, IntS, VL)              # their coerced values, in order
F_tag = z3.RecFunction('Field_tag', V, V, IntS)                   # (field object, JSON value or Undef) -> 0 ok / 1 err / 2 omitted
F_val = z3.RecFunction('Field_val', V, V, V)
FOk = z3.RecFunction('FieldsOkUpTo', VL, VL, IntS, BoolS)         # (declared fields as dict items, JSON object items, k)
FVal = z3.RecFunction('FieldsValUpTo', VL, VL, IntS, VL)
Known = z3.RecFunction('KnownKeysUpTo', VL, VL, IntS, BoolS)      # (JSON object items, declared fields, k): first k keys are declared

_b = z3.Const('b_', Beh)
_j = z3.Const('j_', V)
_f = z3.Const('f_', V)
_items, _fields, _jit = z3.Consts('items_ fields_ jit_', VL)
_k = z3.Int('k_')


def scalar_ok(t, j):
    return z3.And(z3.Not(ScIn_raises(t, j)), ScIn_val(t, j) != V.Undef)


def enum_value_of(t, j):
    """the declared enum value object named j (GraphQLEnumType._value_map), Missing when there is none"""
    return lookup(V.ditems(attr0(t, '_value_map')), j)


def inobj_fields(t):
    return V.ditems(attr0(t, 'input_fields'))


def _sem_ok(b, j):
    inner_ok = Sem_ok(Beh.db(b), j)
    d = Beh.dirs(b)
    io = Beh.io_t(b)
    return z3.If(Beh.is_NonNullB(b), z3.And(j != V.None_, Sem_ok(Beh.nb(b), j)),
           z3.If(Beh.is_DirB(b), z3.And(inner_ok, z3.Implies(py_truthy_dirs(d), z3.Not(Dir_raises(d, Sem_val(Beh.db(b), j))))),
           z3.If(Beh.is_OpaqueB(b), Opaque_ok(Beh.oc(b), j),
           z3.If(j == V.None_, True,
           z3.If(Beh.is_ListB(b), z3.If(V.is_List(j), AllOk(Beh.lb(b), V.items(j), length(V.items(j))), Sem_ok(Beh.lb(b), j)),
           z3.If(Beh.is_ScalarB(b), scalar_ok(Beh.sc_t(b), j),
           z3.If(Beh.is_EnumB(b), z3.And(enum_value_of(Beh.en_t(b), j) != V.Missing, z3.Not(EnumHook_raises(enum_value_of(Beh.en_t(b), j), j))),
                 # input object
                 z3.And(V.is_Dict(j), FOk(inobj_fields(io), V.ditems(j), length(inobj_fields(io))),
                        Known(V.ditems(j), inobj_fields(io), length(V.ditems(j)))))))))))


def _sem_val(b, j):
    d = Beh.dirs(b)
    io = Beh.io_t(b)
    inner = Sem_val(Beh.db(b), j)
    return z3.If(Beh.is_NonNullB(b), Sem_val(Beh.nb(b), j),
           z3.If(Beh.is_DirB(b), z3.If(py_truthy_dirs(d), Dir_val(d, inner), inner),
           z3.If(Beh.is_OpaqueB(b), Opaque_val(Beh.oc(b), j),
           z3.If(j == V.None_, V.None_,
           z3.If(Beh.is_ListB(b), z3.If(V.is_List(j), V.List(Vals(Beh.lb(b), V.items(j), length(V.items(j)))),
                                        V.List(VL.cons(Sem_val(Beh.lb(b), j), VL.nil))),
           z3.If(Beh.is_ScalarB(b), ScIn_val(Beh.sc_t(b), j),
           z3.If(Beh.is_EnumB(b), EnumHook_val(enum_value_of(Beh.en_t(b), j), j),
                 V.Dict(FVal(inobj_fields(io), V.ditems(j), length(inobj_fields(io)))))))))))


z3.RecAddDefinition(Sem_ok, [_b, _j], _sem_ok(_b, _j))
z3.RecAddDefinition(Sem_val, [_b, _j], _sem_val(_b, _j))
z3.RecAddDefinition(AllOk, [_b, _items, _k], z3.If(_k <= 0, True, z3.And(AllOk(_b, _items, _k - 1), Sem_ok(_b, nth(_items, _k - 1)))))
z3.RecAddDefinition(Vals, [_b, _items, _k], z3.If(_k <= 0, VL.nil, snoc(Vals(_b, _items, _k - 1), Sem_val(_b, nth(_items, _k - 1)))))
# one declared field against the provided value (Undef = key absent from the JSON object)
z3.RecAddDefinition(F_tag, [_f, _j], z3.If(_j == V.Undef,
    z3.If(attr0(_f, 'default_value') != V.None_, z3.If(DefLit_ok(_f), 0, 1),
          z3.If(is_non_null_type(attr0(_f, 'graphql_type')), 1, 2)),
    z3.If(Sem_ok(denote(attr0(_f, 'input_coercer')), _j), 0, 1)))
z3.RecAddDefinition(F_val, [_f, _j], z3.If(_j == V.Undef, DefLit_val(_f), Sem_val(denote(attr0(_f, 'input_coercer')), _j)))


def provided(jit, name):
    v = lookup(jit, name)
    return z3.If(v == V.Missing, V.Undef, v)


def field_at(fields, k):
    return nth(fields, k)


z3.RecAddDefinition(FOk, [_fields, _jit, _k], z3.If(_k <= 0, True,
    z3.And(FOk(_fields, _jit, _k - 1), F_tag(V.snd(nth(_fields, _k - 1)), provided(_jit, V.fst(nth(_fields, _k - 1)))) != 1)))
z3.RecAddDefinition(FVal, [_fields, _jit, _k], z3.If(_k <= 0, VL.nil,
    z3.If(F_tag(V.snd(nth(_fields, _k - 1)), provided(_jit, V.fst(nth(_fields, _k - 1)))) == 0,
          assoc_set(FVal(_fields, _jit, _k - 1), V.fst(nth(_fields, _k - 1)), F_val(V.snd(nth(_fields, _k - 1)), provided(_jit, V.fst(nth(_fields, _k - 1))))),
          FVal(_fields, _jit, _k - 1))))
z3.RecAddDefinition(Known, [_jit, _fields, _k], z3.If(_k <= 0, True,
    z3.And(Known(_jit, _fields, _k - 1), lookup(_fields, V.fst(nth(_jit, _k - 1))) != V.Missing)))


# ---- the JSON value universe (is_valid of `variables` payloads): null, bool, int, float, str, lists, string-keyed maps
JsonWf = z3.RecFunction('JsonWf', V, BoolS)
JsonListWf = z3.RecFunction('JsonListWf', VL, BoolS)
JsonItemsWf = z3.RecFunction('JsonItemsWf', VL, BoolS)
_v = z3.Const('v_', V)
_vl = z3.Const('vl_', VL)
z3.RecAddDefinition(JsonWf, [_v], z3.And(_v != V.Undef, _v != V.Missing, z3.Not(V.is_Pair(_v)),
                                          z3.Implies(V.is_Float(_v), wf_float(_v)),
                                          z3.Implies(V.is_List(_v), JsonListWf(V.items(_v))),
                                          z3.Implies(V.is_Dict(_v), JsonItemsWf(V.ditems(_v)))))
z3.RecAddDefinition(JsonListWf, [_vl], z3.If(VL.is_nil(_vl), True, z3.And(JsonWf(VL.hd(_vl)), JsonListWf(VL.tl(_vl)))))
z3.RecAddDefinition(JsonItemsWf, [_vl], z3.If(VL.is_nil(_vl), True,
                                               z3.And(V.is_Pair(VL.hd(_vl)), V.is_Str(V.fst(VL.hd(_vl))), JsonWf(V.snd(VL.hd(_vl))), JsonItemsWf(VL.tl(_vl)))))


def _json_lemmas(e, n):
    """instances of: JsonListWf(l) & 0<=k<len => JsonWf(nth(l,k)) ; JsonItemsWf(l) => lookup(l,k) is Missing or JsonWf ;
    JsonItemsWf(l) & 0<=k<len => nth(l,k) is a (str, JsonWf) pair.  (each provable by induction on l; see pyvc/listlib.py)"""
    if n == 'nth':
        l, k = e.arg(0), e.arg(1)
        return [z3.Implies(z3.And(JsonListWf(l), k >= 0, k < length(l)), JsonWf(e)),
                z3.Implies(z3.And(JsonItemsWf(l), k >= 0, k < length(l)), z3.And(V.is_Pair(e), V.is_Str(V.fst(e)), JsonWf(V.snd(e))))]
    if n == 'lookup':
        l = e.arg(0)
        return [z3.Implies(JsonItemsWf(l), z3.Or(e == V.Missing, JsonWf(e)))]
    return []


LEMMA_HOOKS.append(_json_lemmas)


# ---- 6.1.2 CoerceVariableValues, one variable definition at a time
# d: ExecutableVariableDefinition object; raw: the `variables` JSON object; ic / lc: the input / literal coercer closures bound to it
K_VARCOERCER = 'tartiflette/coercers/variables.py::variable_coercer'
InBeh = z3.Function('InBeh', V, Beh)               # behaviour denoted by a variable's input coercer closure (positional partial over get_input_coercer(T))
VDef_ok = z3.Function('VDef_ok', V, V, BoolS)       # (literal coercer, definition): coercing the default value literal succeeds
VDef_val = z3.Function('VDef_val', V, V, V)


def var_has(d, raw):
    return lookup(V.ditems(raw), attr0(d, 'name')) != V.Missing


def var_value(d, raw):
    return lookup(V.ditems(raw), attr0(d, 'name'))


def VarTag(d, raw, ic, lc):
    """0: the variable gets a value; 1: the request must be refused; 2: the variable stays absent"""
    has, value = var_has(d, raw), var_value(d, raw)
    default = attr0(d, 'default_value')
    nonnull = is_non_null_type(attr0(d, 'graphql_type'))
    return z3.If(z3.And(z3.Not(has), default != V.Undef), z3.If(z3.And(VDef_ok(lc, d), VDef_val(lc, d) != V.Undef), 0, 1),
           z3.If(z3.And(z3.Or(z3.Not(has), value == V.None_), nonnull), 1,
           z3.If(has, z3.If(Sem_ok(InBeh(ic), value), 0, 1), 2)))


def VarVal(d, raw, ic, lc):
    has, value = var_has(d, raw), var_value(d, raw)
    return z3.If(z3.And(z3.Not(has), attr0(d, 'default_value') != V.Undef), VDef_val(lc, d), Sem_val(InBeh(ic), value))


def def_ic(d):
    return lookup(V.fbound(attr0(d, 'coercer')), S('input_coercer'))


def def_lc(d):
    return lookup(V.fbound(attr0(d, 'coercer')), S('literal_coercer'))


NoBad = z3.RecFunction('NoBadVarUpTo', VL, V, IntS, BoolS)        # no definition with index < k refuses the request
CountBad = z3.RecFunction('CountBadVarUpTo', VL, V, IntS, IntS)
VarMap = z3.RecFunction('VarMapUpTo', VL, V, IntS, VL)            # the coerced variable map built from the first k definitions
_defs = z3.Const('defs_', VL)
_raw = z3.Const('raw_', V)


def _tag_at(defs, raw, k):
    d = nth(defs, k)
    return VarTag(d, raw, def_ic(d), def_lc(d))


z3.RecAddDefinition(NoBad, [_defs, _raw, _k], z3.If(_k <= 0, True, z3.And(NoBad(_defs, _raw, _k - 1), _tag_at(_defs, _raw, _k - 1) != 1)))
z3.RecAddDefinition(CountBad, [_defs, _raw, _k], z3.If(_k <= 0, 0, CountBad(_defs, _raw, _k - 1) + z3.If(_tag_at(_defs, _raw, _k - 1) == 1, 1, 0)))
z3.RecAddDefinition(VarMap, [_defs, _raw, _k], z3.If(_k <= 0, VL.nil,
    z3.If(_tag_at(_defs, _raw, _k - 1) == 0,
          assoc_set(VarMap(_defs, _raw, _k - 1), attr0(nth(_defs, _k - 1), 'name'),
                    VarVal(nth(_defs, _k - 1), _raw, def_ic(nth(_defs, _k - 1)), def_lc(nth(_defs, _k - 1)))),
          VarMap(_defs, _raw, _k - 1))))


# ---- behaviour prescribed for a GraphQL type object (the denotation get_input_coercer must build)
def find_type(schema, name):
    return lookup(V.ditems(attr0(schema, 'type_definitions')), name)


def wrapped_of(t):
    """specification of GraphQLWrappingType.wrapped_type"""
    g = attr0(t, 'gql_type')
    return z3.If(cls_is(g, 'GraphQLType'), g, find_type(attr0(t, '_schema'), g))


def is_list_t(t):
    return cls_is(t, 'GraphQLList')


def is_wrapping_t(t):
    return cls_is(t, 'GraphQLWrappingType')


LEAF_INPUT_CLASSES = [c for c in T.subclasses('GraphQLType') if T.resolve_attr(c, 'input_coercer') is not None]

BehT = z3.RecFunction('BehT', V, Beh)
TyWf = z3.RecFunction('TyWf', V, BoolS)
_t = z3.Const('t_', V)
z3.RecAddDefinition(BehT, [_t], z3.If(is_list_t(_t), Beh.ListB(BehT(wrapped_of(_t))),
                                   z3.If(is_non_null_type(_t), Beh.NonNullB(BehT(wrapped_of(_t))), denote(attr0(_t, 'input_coercer')))))
z3.RecAddDefinition(TyWf, [_t], z3.And(cls_is(_t, 'GraphQLType'), V.oref(_t) >= 0,
    z3.If(is_wrapping_t(_t),
          z3.And(z3.Or(is_list_t(_t), is_non_null_type(_t)),
                 z3.Or(cls_is(attr0(_t, 'gql_type'), 'GraphQLType'),
                       z3.And(V.is_Str(attr0(_t, 'gql_type')), cls_is(attr0(_t, '_schema'), 'GraphQLSchema'), V.is_Dict(attr0(attr0(_t, '_schema'), 'type_definitions')),
                              find_type(attr0(_t, '_schema'), attr0(_t, 'gql_type')) != V.Missing)),
                 TyWf(wrapped_of(_t))),
          # input leaf types (scalar, enum, input object): the baked closure is present
          z3.And(z3.Or(*[z3.And(V.is_Obj(_t), V.ocls(_t) == T.cid[c]) for c in LEAF_INPUT_CLASSES]), V.is_Fun(attr0(_t, 'input_coercer'))))))


def wrapB(w, b):
    return z3.If(V.fname(w) == fun_id(K_LIST), Beh.ListB(b), Beh.NonNullB(b))


def okw(w):
    return z3.And(V.is_Fun(w), z3.Or(V.fname(w) == fun_id(K_LIST), V.fname(w) == fun_id(K_NONNULL)))


RebR = z3.RecFunction('RebR', VL, Beh, Beh)       # apply the wrapper list from its last element outwards
WsOk = z3.RecFunction('WsOk', VL, BoolS)
_ws = z3.Const('ws_', VL)
z3.RecAddDefinition(RebR, [_ws, _b], z3.If(length(_ws) <= 0, _b, RebR(take(_ws, length(_ws) - 1), wrapB(nth(_ws, length(_ws) - 1), _b))))
z3.RecAddDefinition(WsOk, [_ws], z3.If(length(_ws) <= 0, True, z3.And(WsOk(take(_ws, length(_ws) - 1)), okw(nth(_ws, length(_ws) - 1)))))


UNFOLD['RebR'] = lambda ws, b: z3.If(length(ws) <= 0, b, RebR(take(ws, length(ws) - 1), wrapB(nth(ws, length(ws) - 1), b)))
UNFOLD['WsOk'] = lambda ws: z3.If(length(ws) <= 0, True, z3.And(WsOk(take(ws, length(ws) - 1)), okw(nth(ws, length(ws) - 1))))


def _denote_body(c):
    return z3.If(z3.Not(V.is_Fun(c)), Beh.OpaqueB(c),
           z3.If(V.fname(c) == fun_id(K_LIST), Beh.ListB(denote(bound(c, 'inner_coercer'))),
           z3.If(V.fname(c) == fun_id(K_NONNULL), Beh.NonNullB(denote(bound(c, 'inner_coercer'))),
           z3.If(V.fname(c) == fun_id(K_DIR), Beh.DirB(denote(bound(c, 'coercer')), bound(c, 'directives')),
           z3.If(V.fname(c) == fun_id(K_SCALAR), Beh.ScalarB(bound(c, 'scalar_type')),
           z3.If(V.fname(c) == fun_id(K_ENUM), Beh.EnumB(bound(c, 'enum_type')),
           z3.If(V.fname(c) == fun_id(K_INOBJ), Beh.InObjB(bound(c, 'input_object_type')),
                 Beh.OpaqueB(c))))))))


UNFOLD['denote_in'] = _denote_body
UNFOLD['TyWf'] = lambda t: z3.And(cls_is(t, 'GraphQLType'), V.oref(t) >= 0,
    z3.If(is_wrapping_t(t),
          z3.And(z3.Or(is_list_t(t), is_non_null_type(t)),
                 z3.Or(cls_is(attr0(t, 'gql_type'), 'GraphQLType'),
                       z3.And(V.is_Str(attr0(t, 'gql_type')), cls_is(attr0(t, '_schema'), 'GraphQLSchema'), V.is_Dict(attr0(attr0(t, '_schema'), 'type_definitions')),
                              find_type(attr0(t, '_schema'), attr0(t, 'gql_type')) != V.Missing)),
                 TyWf(wrapped_of(t))),
          z3.And(z3.Or(*[z3.And(V.is_Obj(t), V.ocls(t) == T.cid[c]) for c in LEAF_INPUT_CLASSES]), V.is_Fun(attr0(t, 'input_coercer')))))
UNFOLD['BehT'] = lambda t: z3.If(is_list_t(t), Beh.ListB(BehT(wrapped_of(t))),
                                z3.If(is_non_null_type(t), Beh.NonNullB(BehT(wrapped_of(t))), denote(attr0(t, 'input_coercer'))))
