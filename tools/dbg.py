"""debug: python3-vt tools/dbg.py <module> <index-or-key-regex>  -> paths with exit kinds and values"""
import sys, re, z3
sys.path.insert(0, '/verif')
from pyvc.run import load_all
from pyvc import symexec as SX
from pyvc.contracts import *
from pyvc.classtable import table
props, mods, registry = load_all()
pat = sys.argv[1]
c = next(c for k, c in registry.items() if re.search(pat, k))
T = table()
node, sha, src = T.function(c.key)
SX.number_loops(node)
names = [x.arg for x in node.args.posonlyargs + node.args.args] + [x.arg for x in node.args.kwonlyargs]
en = Engine(c.key.split('::')[0], contract=c, registry={k: v for k, v in registry.items() if k != c.key}, timeout=int(__import__("os").environ.get("PYVC_PRUNE_MS", getattr(c, "prune_ms", 250))))
qual = c.key.split('::')[1]
if '.' in qual and qual.split('.')[-2] in T.classes: en.current_class = qual.split('.')[-2]
A = c.args(en, names)
_st0 = State(env={}, ghost={})
for _n, _kind in getattr(c, 'mutable', {}).items():
    _st0, _ref = en.new_ref(_st0, _kind, A[_n]); A[_n + '@0'] = A[_n]; A[_n] = _ref
st = State(heap=_st0.heap, env=dict((n, A[n]) for n in names), ghost=dict(c.ghost0(A)) if hasattr(c, 'ghost0') else {})
for k, v in getattr(c, 'extra_env', lambda en, A: {})(en, A).items(): st.env[k] = v
pre = [g for _, g in c.pre(A, st)] + ([g for _, g in c.pre_body(A, st)] if hasattr(c, 'pre_body') else [])
st = st.assume(*pre)
outs = en.block(node.body, st)
for n, (s, kind, v) in enumerate(outs):
    vs = v.sexpr()[:200] if z3.is_expr(v) else repr(v)
    cn = ''
    if kind == 'raise':
        k = z3.simplify(V.ocls(v))
        cn = T.cname.get(k.as_long()) if z3.is_int_value(k) else str(k)
    print(n, kind, cn, 'taint' if s.taint else '', vs[:150], 'nconds', len(s.conds))
print('notes', sorted(set(en.notes)))
if len(sys.argv) > 2 and sys.argv[2] not in ('obl','oblm','abs','scope'):
    n = int(sys.argv[2]); s, kind, v = outs[n]
    for c_ in s.conds: print('  COND', c_.sexpr()[:600])
    v, s = en.term(v, s, escape=False) if kind == 'return' else (v, s)
    for (label, g) in c.post(A, st, Out(kind, v, s)):
        print('  GOAL', label, z3.simplify(g).sexpr()[:1500])
if len(sys.argv) > 3 and sys.argv[2] == 'obl':
    from pyvc import solve
    for (label, hyps, goal, taint) in en.obligations:
        if re.search(sys.argv[3], label):
            r = solve.check(hyps, goal)
            print('OBL', label, r['result'])
            if r['result'] != 'unsat':
                for h in hyps: print('   H', z3.simplify(h).sexpr()[:500])
                print('   G', z3.simplify(goal).sexpr()[:1500])
                if r['model'] is not None:
                    m = r['model']
                    for d in m.decls():
                        if d.arity() == 0: print('   M', d.name(), m[d])
                break
if len(sys.argv) > 3 and sys.argv[2] == 'oblm':
    from pyvc import solve
    for (label, hyps, goal, taint) in en.obligations:
        if re.search(sys.argv[3], label):
            r = solve.check(hyps, goal)
            print('OBL', label, r['result'])
            if r['result'] == 'unknown':
                print('   G', z3.simplify(goal).sexpr()[:1500])
                for h in hyps: print('   H', z3.simplify(h).sexpr()[:400].replace('\n',' '))
            if r['result'] == 'sat':
                m = r['model']
                print('   G', z3.simplify(goal).sexpr()[:1200])
                for h in hyps[-12:]: print('   H', z3.simplify(h).sexpr()[:300].replace('\n',' '))
                def walk(e, seen):
                    if e.get_id() in seen: return
                    seen.add(e.get_id())
                    for ch in e.children(): walk(ch, seen)
                    if z3.is_app(e) and e.num_args() > 0 and e.decl().name() in ('Field_tag','FieldsOkUpTo','lookup','nth','Sem_ok','Field_val','select','FieldsValUpTo','length','KnownKeysUpTo'):
                        print('   EV', e.sexpr()[:160].replace('\n',' '), '=>', str(m.eval(e, model_completion=True))[:120])
                walk(z3.simplify(goal), set())
if len(sys.argv) > 3 and sys.argv[2] == 'abs':
    from pyvc import solve
    from pyvc.values import ground_axioms, abstract_recs
    cnt = 0
    for (label, hyps, goal, taint) in en.obligations:
        if re.search(sys.argv[3], label):
            cnt += 1
            if cnt != int(sys.argv[4]): continue
            q = [z3.simplify(x) for x in list(hyps) + [z3.Not(goal)]]
            ax = ground_axioms(q)
            print('facts', len(ax))
            s0 = z3.Solver(); s0.set('timeout', 20000); s0.add(*abstract_recs(q + ax)); r = s0.check(); print('abstract:', r)
            if r == z3.sat:
                m = s0.model()
                for a in abstract_recs(ax):
                    if z3.is_false(m.eval(a, model_completion=True)): print('VIOLATED?', a)
                for d in m.decls():
                    if d.arity() == 0: print('  M', d.name(), str(m[d])[:200])
            if r == z3.sat:
                from specs import inputs as SI
                ws = [d for d in m.decls() if d.name().startswith('loop_wrapper')][0]()
                kk = [d for d in m.decls() if d.name().startswith('k!')][0]()
                cc = [d for d in m.decls() if d.name().startswith('loop_coercer')][0]()
                n = length(ws)
                w = nth(ws, n - 1 - kk)
                c2 = V.Fun(V.fname(w), assoc_set(V.fbound(w), S('inner_coercer'), cc))
                tests = {'len_take': length(take(ws, n - kk)) == n - kk,
                         'okw': SI.okw(w), 'isfun': V.is_Fun(w),
                         'den': SI.denote(c2) == SI.wrapB(w, SI.denote(cc)),
                         'look': lookup(assoc_set(V.fbound(w), S('inner_coercer'), cc), S('inner_coercer')) == cc,
                         'nth_take': nth(take(ws, n - kk), n - kk - 1) == w,
                         'take_take': take(take(ws, n - kk), n - kk - 1) == take(ws, n - kk - 1),
                         'wsok_unf': SI.WsOk(take(ws, n - kk)) == z3.And(SI.WsOk(take(take(ws, n - kk), length(take(ws, n - kk)) - 1)), SI.okw(nth(take(ws, n - kk), length(take(ws, n - kk)) - 1))),
                         'rebr_unf': SI.RebR(take(ws, n - kk), SI.denote(cc)) == SI.RebR(take(ws, n - kk - 1), SI.wrapB(w, SI.denote(cc)))}
                for k_, t_ in tests.items():
                    print('  T', k_, m.eval(abstract_recs([z3.simplify(t_)])[0], model_completion=True))
            for a in ax:
                sx = a.sexpr()
                if 'assoc_set' in sx and len(sx) < 1500: print('  AX', sx.replace('\n', ' ')[:700])
if len(sys.argv) > 3 and sys.argv[2] == 'scope':
    from pyvc import solve
    from pyvc.values import ground_axioms, collect_apps, simp
    import time
    for (label, hyps, goal, taint) in en.obligations:
        if re.search(sys.argv[3], label):
            q = [simp(x) for x in list(hyps) + [z3.Not(goal)]]
            q = q + ground_axioms(q)
            lens = collect_apps(q, ('length',))
            hints = [t <= 1 for t in lens]
            print('hints', len(hints))
            txt = solve.to_smt2(q + hints)
            t = time.time(); print('race', solve.race_cli(txt, 20, wait_all=True), time.time() - t)
            s_ = z3.Solver(); s_.set('timeout', 20000); s_.add(*(q + hints)); t = time.time(); print('z3py', s_.check(), time.time() - t)
            break
