#!/bin/sh
# tools/seedtest.sh <patch> <PID>... : apply a seeded change to /repo, run the checks, undo
patch=$(realpath $1); shift
git -C /repo apply "$patch" || exit 9
for pid in "$@"; do
  PYVC_SCRATCH_EVIDENCE=1 timeout 1800 ./check $pid 2>&1 | grep -E "VIOLATION|UNDECIDED|CHECKER-ERROR|KNOWN|tier=" | cut -c1-330
done
git -C /repo checkout -- .
git -C /repo status --short | head -3
