"""regenerate MANIFEST.json from the table below (keeps not_applicable current); validates against the schema"""
import json
import os
import sys

ROOT = os.path.dirname(os.path.dirname(os.path.abspath(__file__)))
TECH = "contract-based deductive verification: sidecar contracts, AST->VC symbolic execution of the real functions, SMT (z3 5.1.0 / z3 4.8.12 / cvc5 1.0.3), counter-model replay on the real code"
BASE_NOTE = ("Trusted: pyvc VC generator and its proof rules, builtin models (pyvc/builtins.py), class-table extraction, the SMT solvers, the oracle "
             "functions under /verif/specs. Per-property assumptions are repeated in the evidence file. ")

CLAIMED = {
    'C10': dict(
        text="Sidecar contracts on the 15 methods of the five specification scalars plus is_integer/is_invalid_value; VCs generated from /repo's ASTs on every run and discharged per path for all values of the universe (no bound); idempotence and literal=variable are lemmas over the contracts.",
        ref="DESIGN.md section 4 C10",
        note="Float abstraction Fin(floor,integral)|NaN|Inf; str2float/str2int uninterpreted and shared by both sides of each law; literal lexemes obey the GraphQL grammar (absent C parser). Date/Time/DateTime: not covered by obligations (not claimed)."),
    'C04': dict(
        text="Every input coercer (non-null, list, null wrapper, scalar, enum, input object, input field, directive wrapper), get_input_coercer, variable_coercer and coerce_variables are verified against the CoerceInput / CoerceVariableValues oracle (specs/inputs.py) relative to the behaviour each closure denotes; loops by invariants, recursion over types by the callee contract, for all JSON values and all type nestings.",
        ref="DESIGN.md section 4 C04",
        note="Custom scalar coerce_input and directive hooks are uninterpreted (shared by code summaries and oracle); literal coercion of default values is opaque in this property (C05); asyncio.gather positional; build_execution_context/execute abort clause is covered under C18 when claimed."),
    'C02': dict(
        text="Null propagation and error accounting of GraphQL 6.4.4 as normal/exceptional postconditions of the real completion functions: handle_field_error, complete_value_catching_error, the output non-null / list (both flavours, one contract) / scalar / directive coercers, the null wrapper, located_error, extract_exceptions_from_results, ExecutionContext.add_error, MultipleException.__add__/__bool__, get_output_coercer; each function is checked against its callees' contracts, loops by invariants, for all resolver values and all type nestings.",
        ref="DESIGN.md section 4 C02",
        note="User resolvers / hooks opaque (they raise Exceptions only); the path/locations binding inside located_error (coerce_value partials) is under a count-and-shape contract only, not the full 'path of the innermost failing field' clause; execute_fields/execute_operation are covered by C01/C09 contracts; locations inside the query text depend on the absent C parser."),
    'C03': dict(
        text="Every output coercer returns, for arbitrary resolver values (ResWf universe), a value conforming to the behaviour its closure denotes (Conf: non-null never null, lists of conforming items, leaves produced by the type's serialiser) or raises a well-formed exception that C02's contracts turn into null+error; get_output_coercer builds exactly the closure prescribed for the declared type; the five built-in scalars' coerce_output obey the C10 output laws.",
        ref="DESIGN.md section 4 C03",
        note="Custom scalar coerce_output opaque (Produced/ScOut_* uninterpreted); object and abstract completion (ObjConf/AbsConf) belong to C01; Engine.execute's catch-all is covered under C18; values with numeric dunder protocols are outside the value universe."),
    'C15': dict(
        text="Frame theorem of the request cone (execution/, coercers/, resolver factory/default, error helpers, directive executors, built-in directive hooks, introspection resolvers, engine request methods): every write site -- attribute/subscript store, augmented assignment, mutator call, setattr/del -- has a receiver allocated by the request or owned by it; arguments passed to callees that write through a parameter are owned by the caller; nothing owned by an exception escapes by reference from coerce_value; no module/class-level mutable object or memoiser exists outside the inventory. Requests therefore share only objects nobody writes, so interleaving them cannot change a response.",
        ref="DESIGN.md section 4 C15-C17",
        note="Back end: provenance checker pyvc/frame.py (syntactic effect analysis, flow-insensitive) instead of an SMT solver. Ownership of parameters is declared by name in contracts/frames.py; exemptions (idempotent @nonIntrospectable flag write, bake-time hook, fresh coercion errors) are listed as assumptions in the evidence. Interleavings are not enumerated; user callbacks are assumed not to mutate engine state."),
    'C16': dict(
        text="The parse/validate cone writes only the document under construction (Validators object and its tables); the execution cone never writes a document, a schema object or module state; no memoiser/global state outside the inventory; GraphQLSchema.__eq__ is full equality (name, root operation names, whole type table) and equal schemas hash equally (SMT contracts), so any memoiser keyed by (query, schema) is transparent.",
        ref="DESIGN.md section 4 C15-C17",
        note="As C15 for the frame obligations; functools.lru_cache / custom decorators assumed to be memoisers; determinism of the absent C parser assumed; Engine.cook's wiring of the decorator is not under contract."),
    'C17': dict(
        text="Registry frame: SchemaRegistry._schemas is only accessed through the entry of the schema name at hand (every occurrence checked syntactically), nobody else touches it, and the inventory of module-level / class-level mutable objects and memoising decorators of the package equals the recorded one -- new shared state (class-level dicts, caches) is a violation.",
        ref="DESIGN.md section 4 C15-C17",
        note="Back end: provenance checker; import-time side effects of user modules and the baking of built-in modules per schema name are not under contract."),
    'C18': dict(
        text="SMT contracts on Engine.execute (never raises, always a well-formed response for text or bytes queries), _perform_query (parsing/validation errors answer without executing), parse_and_validate_query (any parser/builder failure becomes non-empty errors), build_execution_context (GetOperation selection, abort iff selection or variable coercion fails, context fields), execute (aborted requests run nothing), build_response (errors key iff errors, one coerced entry per error), func_wrapper (user coercer awaited exactly once with the exception and its coerced value), TartifletteError.coerce_value and Location.collect_value (entry shape).",
        ref="DESIGN.md section 4 C18",
        note="The user error coercer returns normally; bytes are opaque non-str values; 'locations lie inside the query text' is not decided (absent C parser)."),
    'C01': dict(
        text="collect_fields and collect_subfields are proved equal to the CollectFields algorithm of GraphQL 6.3.2 (accumulator form: @skip/@include outcome first, response key = alias or name, first-appearance order, inline fragments / spreads under their type condition, each named fragment once per grouped set) by a loop invariant and the recursive callee contract; should_include_node and does_fragment_condition_match against their clauses; execute_operation (executor choice, root collection), execute_fields_serially (one await per key in order, ordered result map), execute_fields (one resolve_field coroutine per collected key, gathered with return_exceptions, result map pairs every key with its own awaited outcome and keeps any two keys in their collection order (first-appearance order, proved for arbitrary positions i0 < j0), every failure re-raised as one MultipleException), complete_value_catching_error and get_output_coercer (output chain = CompleteValue for the declared type); resolve_field (one ResolveInfo, the resolver stage once with the parent value, completion once against the DECLARED type with the baked coercer), get_type_resolver (field-level over type-level over schema default), ensure_valid_runtime_type (only a possible OBJECT type is accepted), abstract_coercer (type resolver asked once, runtime type's hooks once, completed as that object type), resolver_executor; the built-in @skip / @include collection hooks (a selection is dropped exactly when the condition says so; the next stage runs once); the output enum coercer (declared value through its own hook chain).",
        ref="DESIGN.md section 4 C01",
        note="Not under contract in this revision: default_field_resolver / default_type_resolver (dynamic getattr), object_coercer / complete_object_value (named by the abstract ObjConf), build_resolve_info. Termination of fragment recursion is not verified. User resolvers and hooks are opaque."),
    'C09': dict(
        text="execute_operation selects execute_fields_serially exactly when the operation type is 'mutation' and runs it on the collected root fields; execute_fields_serially awaits resolve_field once per collected key in collection order (ghost trace == keys of the collected map) and builds the response map in that order; a raising (non-null) root field stops the loop and execute_operation answers null with the error recorded; structural obligations: no create_task/ensure_future/... anywhere in the request cone and every gather over raising awaitables uses return_exceptions=True, so a root field's whole sub-selection has completed when its await returns.",
        ref="DESIGN.md section 4 C09",
        note="Assumes Python's await semantics (a coroutine awaited in place runs to completion before the awaiting coroutine continues). Schedules of nested resolvers are not enumerated."),
    'C14': dict(
        text="Engine._perform_subscription (async generator, ghost output sequence): parsing/validation errors or a refused request yield exactly one errors-only response and never create the source stream; otherwise the yielded sequence equals map(execute against the event) over the source's events, in order, each event executed as a fresh request with exactly the request's arguments (loop invariant over the consumed prefix). create_source_event_stream: a refused request does not call the registered source; otherwise the source is called with the arguments coerced from the request's coerced variable map.",
        ref="DESIGN.md section 4 C14",
        note="Async-generator protocol assumed (events delivered in order, generator ends with the source); the per-event response is whatever execute returns (C01/C02/C18 contracts); Subscription.bake wiring and directive generators are not under contract."),
    'C05': dict(
        text="argument_coercer is one iteration of CoerceArgumentValues (GraphQL 6.4.1): literal coerced by the declared type's literal coercer, variable -> its coerced runtime value, omitted -> default or absent, null kept distinct from absent, null / missing at a non-null argument and ill-typed literals fail the field, hook chain exactly once on a valid value; coerce_arguments pairs every argument definition's name with its own outcome (pointwise for an arbitrary index), gathers every failure; get_literal_coercer mirrors the declared type wrapper by wrapper; literal scalar / enum / list item / list / input-object bodies against the per-layer literal oracle (an object literal with an undeclared entry is invalid). Literal path of argument coercion: the null/variable wrapper (absent -> invalid, `null` -> null, a variable contributes its coerced runtime value, missing variable or null at a non-null position -> invalid, other literals go to the wrapped coercer with the same variables), the literal non-null layer (sets the non-null flag), literal_directives_coercer (forwards variables, path and the non-null flag; hooks run exactly when due and their value is used), the per-field rule of input-object literals (absent entry or variable without value -> default / invalid / skipped), is_missing_variable; and rule 5.8.5 (AreTypesCompatible, IsVariableUsageAllowed) which keeps ill-typed variables out of argument positions.",
        ref="DESIGN.md section 4 C05",
        note="No literal=variable lemma over the whole type structure (the per-layer contracts use the same oracle shape as C04; leaf lemmas: C10); the arguments-coercer strategy is an assumed positional gather; custom scalar parse_literal is opaque. Finding D12 (undeclared entries accepted in object literals) was found by this check and repaired in /repo (7ecd3cd). Variables nested in list/object literals are not covered by rule 5.8.5 in the code (deviation D6 of DESIGN section 5, not decided by a failing obligation here)."),
        'C06': dict(
        text="Rule layer: each rule function under contract returns a non-empty error list EXACTLY when its June-2018 rule is broken for the arguments the document builder hands it (one equality clause gives both no_false_reject and no_false_accept): 5.8.5 (_validate_type_compatibility == AreTypesCompatible, _validate_usage == IsVariableUsageAllowed, _find_variable_by_name == first definition of that name in THIS operation), 5.5.2.3 (_validate_node, _validate_is_possible with the helper inlined, _validate_spreads), 5.7.1 directives-are-defined, 5.5.1.2 / 5.5.1.3 fragment type conditions, 5.5.1.4 fragments-must-be-used, 5.5.2.1 spread-target-defined, 5.8.2 variables-are-input-types, 5.2.2.1 lone-anonymous-operation, 5.2.3.1 single-root-field (every subscription operation checked), 5.3.1 field selections (only __typename is exempt), 5.3.3 leaf-field-selections, 5.1.1 executable-definitions, the uniqueness rules for arguments / fragment names / operation names / variables / input-object fields / directives per location (reports iff some name is carried by more than one node: counting filter lemma), 5.4.1 argument-names and 5.4.2.1 required-arguments (directive side, field side and the dispatching validate), find_nodes_by_name; valid requests reach execute (_perform_query).",
        ref="DESIGN.md section 4 C06/C07, Appendix A",
        note="22 of the 26 rules have their deciding functions under contract, plus the leaf cases of values-of-correct-type; not covered: the list / non-null / input-object recursion of values-of-correct-type, directive locations, the cycle rule, all-variables-used / all-variable-uses-defined (recursive collectors mutate lists nested in the context: outside the engine), and the context layer of the AST builder (frame pass only, C16). Deviations D2-D4, D6, D8 are not rediscovered by an obligation; D5b and D7 were found by this check and repaired in /repo."),
    'C07': dict(
        text="The same rule functions as C06 (the equality clause is also the no_false_accept half: an ill-typed variable usage, an impossible spread at ANY site, an undefined directive / fragment target / type condition, an unused fragment, a non-input variable type, a second anonymous operation, a subscription with several root fields, an undefined field, a leaf with sub-selection ... yields an error), plus Validators.validate (every error a rule returns is appended, an aborting rule that reported stops the following rules, nothing runs after an abort), the context layer functions _parse_inline_fragment and _parse_field, and the short-circuit: parse_and_validate_query turns validator errors / any parser failure into non-empty errors and _perform_query answers such requests without calling execute, so no resolver or field-level hook runs.",
        ref="DESIGN.md section 4 C06/C07, Appendix A",
        note="As C06: 22 of 26 rules. The context layer has one function under contract: _parse_inline_fragment registers the fragment under the ENCLOSING parent type and restores the parent type. The leaf positions of values-of-correct-type (5.6.1: scalar / enum / input-object literal at a named type) are under contract too. Findings D5b (undefined `__foo` fields accepted), D7 (only the first subscription operation checked), D4 (inline fragments registered under their own type condition) and D5 (string literal accepted at an enum position) were found by this check and repaired in /repo."),
'C08': dict(
        text="(i) list_coercer_sequentially and list_coercer_concurrently satisfy literally the same contract (positional results, every item failure gathered), extract_exceptions_from_results, coerce_variables, input_object_coercer and execute_fields merge positionally (loop invariants over zip; pointwise claim for an arbitrary index); (ii) structural obligations over the request cone: every asyncio.gather whose awaitables may raise uses return_exceptions=True (so it returns only when all of them have finished and loses no failure), no create_task / ensure_future / as_completed anywhere (every started coroutine is awaited in place).",
        ref="DESIGN.md section 4 C08",
        note="no schedule is enumerated; termination is not decided; 'none is started twice under every schedule' follows only from the once-per-call-site contracts (C01/C09/C13)."),
    'C12': dict(
        text="_validate_schema_named_types reports at least one error exactly when some field of a type that has fields (objects AND interfaces) names an undefined type (nested loop invariants); _validate_field_type_is_same_as_interface_type equals the interface-conformance predicate (same type, non-null version of a compatible type, or possible type of a plain named interface; list / non-null interface types admit nothing else) by the recursive callee contract; reduce_type strips every wrapper; _validate (aggregator) runs every listed rule validator once and raises GraphQLSchemaError exactly when one of them reported an error; _validate_schema_root_types_exist, _validate_all_scalars_have_implementations, _validate_union_is_acceptable, _validate_non_empty_object, _validate_type_is_an_input_types, _validate_input_type_composed_of_input_type _validate_directive_implementation (against the documented list of eleven hooks), _validate_enum_values_are_unique (with _value_uniqueness: empty iff pairwise different) report exactly when their rule is broken; _validate_field_follow_interface adds an error exactly when the object lacks the interface field, mistypes it or its arguments do not follow; _validate_extensions aggregates like _validate; GraphQLSchema.bake completes only if both aggregators accepted (a GraphQLSchemaError of either propagates); the six parse_*_type_extension functions register ONE extension object per `extend` definition carrying its name, directives and every declared member list.",
        ref="DESIGN.md section 4 C12, Appendix B",
        note="Thirteen rule functions, both aggregators, GraphQLSchema.bake and the extension registration are under contract; the outer loops of _validate_object_follow_interfaces, _validate_arguments_have_valid_type, the redefinition guards, the individual extension validators and Engine.cook are not. lark raising on syntax errors is external."),
    'C13': dict(
        text="wraps_with_directives returns exactly the reversed fold of the definition list (first declared directive implementing the hook outermost, each link bound to ITS callable, ITS arguments coercer and the chain of the later ones, resolver / default adapted once); directive_executor coerces the instance's arguments once with the request context and awaits the hook exactly once with them, the next stage and the untouched rest, never running the next stage itself; resolver_executor awaits the raw resolver once without context_coercer; compute_directive_nodes yields one entry per directive instance in declaration order bound to its own node and definition; bake() of scalar, enum, enum value, input field, input object, argument, field and interface types puts the stated chain into the stated coercer (variable and literal path share one on_post_input_coercion chain; the field's on_field_execution chain wraps raw / custom default / builtin default resolver inside resolve_field); argument_coercer runs the argument chain once on a valid value; resolve_field_value_or_error: the query-side on_field_execution directives of EVERY merged field node are computed (loop invariant) and wrapped around the baked resolver, which is called exactly once with the parent value, the coerced arguments of the first node (from the coerced variable map), the caller's context and info; input / literal / output directive wrappers call their hook chain exactly when due, with the coerced value, and use what it returns; top-level variables skip type-level hooks on the literal path (already applied at variable coercion) but input-field hooks still run.",
        ref="DESIGN.md section 4 C13",
        note="Not under contract: bake() of object and union types (loops over interfaces / members), directive_generator (subscriptions), schema-level and on_post_bake hooks at build time, introspection_directives_executor. get_callables (dir/getattr), get_graphql_type and the get_*_coercer results are named by uninterpreted functions inside the bake contracts. User hooks are opaque."),
}

REASON_PENDING = "contracts for this property are not in place in this revision (DESIGN.md section 8 delivery order); no other technique is substituted"


def main():
    props = [json.loads(l) for l in open(os.path.join(ROOT, 'properties.jsonl'))]
    checks = []
    for p in props:
        pid = p['id']
        if pid not in CLAIMED:
            continue
        c = CLAIMED[pid]
        checks.append({
            "property_id": pid, "quick_cmd": f"./check {pid} --tier quick", "thorough_cmd": f"./check {pid} --tier thorough",
            "evidence_file": f"evidence/{pid}.json", "replay_cmd_template": f"./check {pid} --replay {{path}}", "engine": "pyvc",
            "level_claimed": {"category": "proof", "text": c['text'], "design_ref": c['ref']},
            "level_note": BASE_NOTE + c['note'], "technique": TECH})
    na = [{"property_id": p['id'], "reason": NA.get(p['id'], REASON_PENDING)} for p in props if p['id'] not in CLAIMED]
    m = {"version": 1,
         "setup_cmd": "python3-vt -c \"import z3; print('z3', z3.get_version_string())\" && /venv/bin/python -c \"import cffi, lark; print('native replay interpreter ok')\"",
         "hooks": {"guard": "TARTIFLETTE_VERIF", "enable": "none needed: contracts are sidecar files, VCs are generated from /repo's working tree; the guard is unused",
                   "baseline_off_cmd": "cd /repo && /venv/bin/python -m pytest -ra -q -p no:cacheprovider --timeout=900 --continue-on-collection-errors",
                   "source_commits": [], "add_only": True},
         "engines": [{"name": "pyvc", "path": "pyvc/", "serves_properties": sorted(CLAIMED),
                      "kind_free_text": "contract-based deductive verifier for a Python subset: AST -> verification conditions by forward symbolic execution, modular callee contracts, loop invariants, SMT back ends, native replay of counter-models"}],
         "checks": checks, "not_applicable": na,
         "notes": "exit codes: 0 held, 1 violation (VIOLATION line), 2 undecided (solver unknown / function outside the subset / stale contract), 3 checker failure. quick tier: every obligation discharged by the solver portfolio. thorough tier: the same obligations with second-solver agreement (z3 4.8.12 and cvc5 both asked on the exported SMT-LIB text; a disagreement is a checker error) plus a mutation probe (built-in AST mutants of each quickly verified function must fail some obligation; reported as coverage.mutation_probe). known_findings.json lists recorded findings and fixes (D1, D4, D5, D5b, D7, D12: all repaired in /repo by fix: commits)."}
    json.dump(m, open(os.path.join(ROOT, 'MANIFEST.json'), 'w'), indent=1)
    try:
        import jsonschema
        jsonschema.validate(m, json.load(open('/root/.vp/MANIFEST.schema.json')))
        for c in checks:
            ev = os.path.join(ROOT, c['evidence_file'])
            if os.path.exists(ev):
                jsonschema.validate(json.load(open(ev)), json.load(open('/root/.vp/EVIDENCE.schema.json')))
        print('manifest ok:', [c['property_id'] for c in checks])
    except ImportError:
        print('jsonschema not available; manifest written unvalidated')


NA = {
    'C11': "not applicable to this family here: 'any valid SDL builds and introspection reports exactly what was declared' runs through the lark grammar, 1 900 lines of tree transformers and GraphQLSchema.bake (I/O, decorators, dozens of mutually dependent bake methods); no contract within reach of the pyvc subset expresses 'the AST is the parse of the text', and the introspection resolver layer alone was judged too thin to claim the property (DESIGN.md section 4 C11). reduce_type, used by bake, is under contract in C12.",
}

if __name__ == '__main__':
    main()
