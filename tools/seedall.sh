#!/bin/sh
# tools/seedall.sh [lanes] [jobs] : regression over every seeded change on scratch worktrees of /repo (PYVC_REPO), `lanes` seeds at a time;
# results in out/seedall.txt (the registered checks always read /repo; this development tool points the same machinery at patched copies)
cd "$(dirname "$0")/.." || exit 3
lanes=${1:-4}; jobs=${2:-4}
mkdir -p out; : > out/seedall.txt
i=0
for d in seeded/*/; do
  s=$(basename $d); pid=${s%-*}
  [ "$pid" = "C11" ] && { echo "$s not-applicable" >> out/seedall.txt; continue; }
  i=$((i+1)); lane=$((i % lanes))
  echo "$s $pid" >> out/.lane$lane
done
for lane in $(seq 0 $((lanes-1))); do
  (
    wt=/tmp/seedrepo$lane
    git -C /repo worktree remove --force $wt 2>/dev/null
    git -C /repo worktree add -f $wt HEAD -q || exit 3
    while read s pid; do
      git -C $wt checkout -q -- . ; git -C $wt apply "$(pwd)/seeded/$s/patch.diff" || { echo "$s APPLY-FAIL" >> out/seedall.txt; continue; }
      line=$(PYVC_REPO=$wt PYVC_SCRATCH_EVIDENCE=1 PYVC_REPLAY_DIR=replays_seed$lane timeout 3000 ./check $pid --jobs $jobs 2>&1 | grep -E "tier=" | tail -1)
      echo "$s $line" >> out/seedall.txt
    done < out/.lane$lane
    git -C $wt checkout -q -- . ; git -C /repo worktree remove --force $wt
    rm -f out/.lane$lane
  ) &
done
wait
sort -o out/seedall.txt out/seedall.txt
