#!/bin/sh
# tools/seedall.sh [jobs] : regression over every seeded change, on a scratch worktree of /repo (PYVC_REPO), results in out/seedall.txt
# (the registered checks always read /repo; this development tool points the same machinery at a patched copy)
cd "$(dirname "$0")/.." || exit 3
jobs=${1:-8}
wt=/tmp/seedrepo
git -C /repo worktree remove --force $wt 2>/dev/null
git -C /repo worktree add -f $wt HEAD -q || exit 3
mkdir -p out; : > out/seedall.txt
for d in seeded/*/; do
  s=$(basename $d); pid=${s%-*}
  [ "$pid" = "C11" ] && { echo "$s not-applicable" >> out/seedall.txt; continue; }
  git -C $wt checkout -q -- . ; git -C $wt apply "$(pwd)/$d/patch.diff" || { echo "$s APPLY-FAIL" >> out/seedall.txt; continue; }
  line=$(PYVC_REPO=$wt PYVC_SCRATCH_EVIDENCE=1 timeout 2400 ./check $pid --jobs $jobs 2>&1 | grep -E "tier=" | tail -1)
  echo "$s $line" >> out/seedall.txt
done
git -C $wt checkout -q -- . ; git -C /repo worktree remove --force $wt
