#!/bin/sh
# tools/confirm_seed.sh <dir with patch.diff demo.py meta.json> <scratch worktree>
# confirms: demo passes on pristine, fails with patch, test-suite line unchanged with patch
d=$1; wt=$2
cd $wt || exit 9
git checkout -q -- . 
PYTHONPATH=$wt timeout 300 /venv/bin/python $d/demo.py >/dev/null 2>&1; pristine=$?
git apply $d/patch.diff || { echo "APPLY-FAIL $d"; exit 8; }
PYTHONPATH=$wt timeout 300 /venv/bin/python $d/demo.py >/dev/null 2>&1; patched=$?
suite=$(timeout 1500 /venv/bin/python -m pytest -q -p no:cacheprovider --timeout=900 --continue-on-collection-errors 2>&1 | tail -1)
git checkout -q -- .
echo "$d pristine_exit=$pristine patched_exit=$patched suite='$suite'"
