"""print repo modules with docstrings/annotations stripped (reading aid only)"""
import ast, sys
def strip(path):
    src = open(path).read(); t = ast.parse(src)
    for n in ast.walk(t):
        if isinstance(n, (ast.FunctionDef, ast.AsyncFunctionDef, ast.ClassDef, ast.Module)):
            if n.body and isinstance(n.body[0], ast.Expr) and isinstance(getattr(n.body[0], 'value', None), ast.Constant) and isinstance(n.body[0].value.value, str):
                n.body = n.body[1:] or [ast.Pass()]
        if isinstance(n, (ast.FunctionDef, ast.AsyncFunctionDef)):
            n.returns = None
            for a in n.args.args + n.args.kwonlyargs: a.annotation = None
    print('#####', path); print(ast.unparse(t))
for p in sys.argv[1:]: strip(p)
