#!/bin/sh
# run every claimed check (quick tier), print the summary lines
cd "$(dirname "$0")/.." || exit 3
for p in $(python3-vt -c "import json;print(' '.join(c['property_id'] for c in json.load(open('MANIFEST.json'))['checks']))") "$@"; do
  /usr/bin/time -f "%es" ./check $p 2>&1 | grep -E "tier=|VIOLATION|UNDECIDED|CHECKER|s$" | cut -c1-220 | tail -4
done
