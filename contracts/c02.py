"""C02 / C03 -- failure containment (null propagation, error accounting) and schema-conformant results.
Contracts of the completion functions of tartiflette/coercers/outputs and of the error helpers, stated from GraphQL 6.4.3 / 6.4.4
and the property statements; each coercer is verified relative to the behaviour its closure denotes (specs/outputs.py)."""
import z3
from pyvc.values import *
from pyvc.values import LEMMA_HOOKS, ForallList, ListImplication
from pyvc.contracts import Contract, Lemma
from pyvc.symexec import attr0, field0, fun_id, LoopContract, CompEffect, PyRef, PyFunc, Raise, _obj_bool
from specs import outputs as SO
from specs.outputs import OBeh, Conf, denote
from specs.inputs import cls_is, is_non_null_type
from .common import *

O = 'tartiflette/coercers/outputs/'


# MultipleException.__bool__ is `bool(self.exceptions)`: the engine's uninterpreted object truthiness is tied to it here and the
# method body itself is verified against the same statement (MultipleExceptionBool below)
def _bool_lemmas(e, n):
    if n == 'obj_bool':
        x = e.arg(0)
        return [z3.Implies(cls_is(x, 'MultipleException'), e == py_truthy(attr0(x, 'exceptions')))]
    return []


LEMMA_HOOKS.append(_bool_lemmas)


def ctx_errors(st, ctx):
    return fld(st, 'errors', ctx)


def ctx_wf(st, ctx):
    return z3.And(exact(ctx, 'ExecutionContext'), V.oref(ctx) >= 0, V.is_List(ctx_errors(st, ctx)))


def resolver_value(v):
    """arbitrary resolver results (recursive): anything but the internal lookup marker; exceptions carried as values are well formed"""
    return SO.ResWf(v)


def output_call(en, st, f, result, ctx):
    """behavioural type OutputCoercer: calling closure f completes `result` to a value conforming to the behaviour f denotes,
    or raises a well-formed Exception; execution_context.errors only grows (6.4.4)."""
    b = denote(f)
    extra = fresh('more_errors', VL)
    e0 = ctx_errors(st, ctx)
    st1 = en.setattr(ctx, 'errors', V.List(app(V.items(e0), extra)), st)
    r = fresh('completed')
    e = V.Obj(fresh('ecls', IntS), fresh('eref', IntS))
    g = dict(st1.ghost)
    ok = st1.copy(ghost={**g, 'inner_called': z3.BoolVal(True), 'inner_raised': z3.BoolVal(False), 'inner_val': r, 'errors_after_inner': V.List(app(V.items(e0), extra))})
    bad = st1.copy(ghost={**g, 'inner_called': z3.BoolVal(True), 'inner_raised': z3.BoolVal(True), 'inner_val': e, 'errors_after_inner': V.List(app(V.items(e0), extra))})
    outs = []
    q = en.fork(ok, z3.And(Conf(b, r), r != V.Undef, r != V.Missing, z3.Not(cls_is(r, 'Exception'))))
    if q is not None:
        outs.append((q, r))
    q = en.fork(bad, z3.And(exc_full_wf(e), V.oref(e) >= 0))
    if q is not None:
        outs.append((q, Raise(e)))
    return outs


class OutputCoercer(Contract):
    """shape shared by the coercers of tartiflette/coercers/outputs: a normal result conforms to the own denotation; a raised
    exception is well formed; errors only grow"""
    property_ids = ('C02', 'C03')
    inner_params = ()

    def args(self, en, names):
        self.A = super().args(en, names)
        return self.A

    def beh(self, A):
        raise NotImplementedError

    def pre(self, A, st):
        return [('result', resolver_value(A['result'])), ('context', ctx_wf(st, A['execution_context']))] + \
               [(f"{p}_callable", V.is_Fun(A[p])) for p in self.inner_params]

    def ghost0(self, A):
        return {'inner_called': z3.BoolVal(False), 'inner_raised': z3.BoolVal(False), 'inner_val': V.None_,
                'errors_after_inner': z3.Select(field0('errors'), A['execution_context'])}

    def call_model(self, en, st, f, a, kw):
        for p in self.inner_params:
            if z3.eq(f, self.A[p]):
                return output_call(en, st, f, en.read(a[0], st), self.A['execution_context'])
        return None

    def post(self, A, st0, out):
        ctx = A['execution_context']
        e0, e1 = V.items(ctx_errors(st0, ctx)), V.items(ctx_errors(out.st, ctx))
        grow = ('errors_only_grow', z3.And(V.is_List(ctx_errors(out.st, ctx)), length(e1) >= length(e0)))
        if out.kind == 'raise':
            return [('raised_is_wf', exc_full_wf_now(out.st, out.value)), grow] + self.post_raise(A, st0, out)
        return [('conforms', Conf(self.beh(A), out.value)), ('not_a_sentinel', z3.And(out.value != V.Undef, out.value != V.Missing)),
                ('not_an_exception', z3.Not(cls_is(out.value, 'Exception'))), grow] + self.post_return(A, st0, out)

    def post_raise(self, A, st0, out):
        return []

    def post_return(self, A, st0, out):
        return []


class DecoratedOut(OutputCoercer):
    decorators = ['null_coercer_wrapper']

    def pre_body(self, A, st):
        return [('not_none', A['result'] != V.None_)]


class NonNullOut(OutputCoercer):
    key = O + 'non_null_coercer.py::non_null_coercer'
    params = ['result', 'info', 'execution_context', 'field_nodes', 'path', 'inner_coercer']
    inner_params = ('inner_coercer',)

    def beh(self, A):
        return OBeh.ONonNull(denote(A['inner_coercer']))

    def pre(self, A, st):
        return super().pre(A, st) + [('info', info_wf(A['info']))]

    def post_return(self, A, st0, out):
        g = out.st.ghost
        return [('is_inner_value', z3.And(g['inner_called'], z3.Not(g['inner_raised']), out.value == g['inner_val'])),
                ('never_null', out.value != V.None_)]

    def post_raise(self, A, st0, out):
        g = out.st.ghost
        # 6.4.4: a null at a non-null position is a field error; otherwise only the inner failure propagates
        return [('only_on_null_or_inner_failure', z3.And(g['inner_called'], z3.Or(z3.And(g['inner_raised'], out.value == g['inner_val']),
                                                                                 z3.And(z3.Not(g['inner_raised']), g['inner_val'] == V.None_))))]


def is_wrapping(t):
    return cls_is(t, 'GraphQLWrappingType')


class NullWrapperOut(Contract):
    key = O + 'null_coercer.py::null_coercer_wrapper.<locals>.wrapper'
    property_ids = ('C02', 'C03')
    params = ['result']

    def args(self, en, names):
        self.A = super().args(en, names)
        self.res = fresh('wrapped_result')
        return self.A

    def extra_env(self, en, A):
        def coercer(en, st, a, kw):
            return [(st.put_ghost('called', z3.BoolVal(True)), self.res)]
        return {'coercer': PyFunc('coercer', coercer)}

    def ghost0(self, A):
        return {'called': z3.BoolVal(False)}

    def post(self, A, st0, out):
        if out.kind == 'raise':
            return never_raises(out)
        return [('null_stays_null', z3.Implies(A['result'] == V.None_, z3.And(out.value == V.None_, z3.Not(out.st.ghost['called'])))),
                ('otherwise_wrapped', z3.Implies(A['result'] != V.None_, z3.And(out.value == self.res, out.st.ghost['called'])))]


class ScalarOut(DecoratedOut):
    key = O + 'scalar_coercer.py::scalar_coercer'
    params = ['result', 'info', 'execution_context', 'field_nodes', 'path', 'scalar_type']

    def beh(self, A):
        return OBeh.OScalar(A['scalar_type'])

    def pre(self, A, st):
        t = A['scalar_type']
        return super().pre(A, st) + [('scalar_type', z3.And(exact(t, 'GraphQLScalarType'), V.oref(t) >= 0))]

    def call_model(self, en, st, f, a, kw):
        t = self.A['scalar_type']
        if z3.eq(z3.simplify(f), z3.simplify(attr0(t, 'coerce_output'))):
            x = en.read(a[0], st)
            r = SO.ScOut_val(t, x)
            e = V.Obj(fresh('ecls', IntS), fresh('eref', IntS))
            return en.branches(st, [(z3.And(z3.Not(SO.ScOut_raises(t, x)), SO.Produced(t, r), r != V.Missing, z3.Not(cls_is(r, 'Exception'))), r),
                                    (z3.And(SO.ScOut_raises(t, x), cls_is(e, 'Exception'), z3.Not(cls_is(e, 'MultipleException')), V.oref(e) >= 0), Raise(e))])
        return None

    def post_return(self, A, st0, out):
        t, x = A['scalar_type'], A['result']
        return [('is_serialised_value', z3.And(z3.Not(SO.ScOut_raises(t, x)), out.value == SO.ScOut_val(t, x)))]

    def post_raise(self, A, st0, out):
        t, x = A['scalar_type'], A['result']
        return [('only_when_unserialisable', z3.Or(SO.ScOut_raises(t, x), SO.ScOut_val(t, x) == V.Undef))]



EVOut_raises = z3.Function('EnumValueOutputHookRaises', V, V, BoolS)      # (enum value definition, resolved value): the value's own output hook chain
EVOut_val = z3.Function('EnumValueOutputHookValue', V, V, V)
AllEnumOutValues = ForallList('enum_value_output_entry', lambda p: z3.And(V.is_Pair(p), exact(V.snd(p), 'GraphQLEnumValue'), V.oref(V.snd(p)) >= 0, V.is_Fun(attr0(V.snd(p), 'output_coercer'))))


class EnumOut(DecoratedOut):
    """output enum_coercer: only a value the enum declares is serialised -- through THAT value's output hook chain, once; anything else is a field error"""
    key = O + 'enum_coercer.py::enum_coercer'
    params = ['result', 'info', 'execution_context', 'field_nodes', 'path', 'enum_type']

    def beh(self, A):
        return OBeh.OEnum(A['enum_type'])

    def pre(self, A, st):
        t = A['enum_type']
        return super().pre(A, st) + [('enum_type', z3.And(exact(t, 'GraphQLEnumType'), V.oref(t) >= 0, V.is_Dict(attr0(t, '_value_map')), AllEnumOutValues(V.ditems(attr0(t, '_value_map')))))]

    def call_model(self, en, st, f, a, kw):
        f = z3.simplify(f)
        if z3.is_app(f) and f.decl().kind() == z3.Z3_OP_SELECT and f.arg(0).eq(field0('output_coercer')):
            ev, x = f.arg(1), en.read(a[0], st)
            r = EVOut_val(ev, x)
            st = st.put_ghost('inner_called', z3.BoolVal(True)).put_ghost('inner_val', ev)
            e = V.Obj(fresh('ecls', IntS), fresh('eref', IntS))
            return en.branches(st, [(z3.And(z3.Not(EVOut_raises(ev, x)), SO.Produced(self.A['enum_type'], r), r != V.Missing, z3.Not(cls_is(r, 'Exception'))), r),
                                    (z3.And(EVOut_raises(ev, x), cls_is(e, 'Exception'), z3.Not(cls_is(e, 'MultipleException')), z3.Not(cls_is(e, 'KeyError')), V.oref(e) >= 0), Raise(e))])
        return None

    def post_return(self, A, st0, out):
        t, x = A['enum_type'], A['result']
        ev = lookup(V.ditems(attr0(t, '_value_map')), x)
        return [('declared_value_through_its_own_hooks', z3.And(ev != V.Missing, out.st.ghost['inner_val'] == ev, z3.Not(EVOut_raises(ev, x)), out.value == EVOut_val(ev, x)))]

    def post_raise(self, A, st0, out):
        t, x = A['enum_type'], A['result']
        ev = lookup(V.ditems(attr0(t, '_value_map')), x)
        return [('only_for_an_undeclared_value_or_a_failing_hook', z3.Or(ev == V.Missing, EVOut_raises(ev, x), EVOut_val(ev, x) == V.Undef))]


class DirectivesOut(OutputCoercer):
    property_ids = ('C02', 'C03', 'C13')
    key = O + 'directives_coercer.py::output_directives_coercer'
    params = ['result', 'info', 'execution_context', 'field_nodes', 'path', 'coercer', 'directives']
    inner_params = ('coercer',)

    def beh(self, A):
        return OBeh.ODir(denote(A['coercer']), A['directives'])

    def pre(self, A, st):
        return super().pre(A, st) + [('directives', V.is_Fun(A['directives']))]

    def call_model(self, en, st, f, a, kw):
        if z3.eq(f, self.A['directives']):
            v = fresh('hooked')
            e = V.Obj(fresh('ecls', IntS), fresh('eref', IntS))
            return en.branches(st, [(resolver_value(v), v), (z3.And(exc_full_wf(e), V.oref(e) >= 0), Raise(e))])
        return super().call_model(en, st, f, a, kw)


class IsCoercible(Contract):
    key = 'tartiflette/utils/errors.py::is_coercible_exception'
    property_ids = ('C02', 'C18')
    params = ['exception']

    def pre(self, A, st):
        return [('exception', cls_is(A['exception'], 'Exception'))]

    def post(self, A, st0, out):
        if out.kind == 'raise':
            return never_raises(out)
        # only the library's error class (and subclasses) offers coerce_value
        return [('coercible_iff_library_error', out.value == V.Bool(cls_is(A['exception'], 'TartifletteError')))]


class MultipleExceptionBool(Contract):
    key = 'tartiflette/types/exceptions/tartiflette.py::MultipleException.__bool__'
    property_ids = ('C02',)
    params = ['self']
    self_class = 'MultipleException'

    def pre(self, A, st):
        return [('exceptions_is_list', V.is_List(attr0(A['self'], 'exceptions')))]

    def post(self, A, st0, out):
        if out.kind == 'raise':
            return never_raises(out)
        return [('truthy_iff_carries_errors', out.value == V.Bool(py_truthy(attr0(A['self'], 'exceptions'))))]


class MultipleExceptionAdd(Contract):
    key = 'tartiflette/types/exceptions/tartiflette.py::MultipleException.__add__'
    property_ids = ('C02',)
    params = ['self', 'other']
    self_class = 'MultipleException'

    def pre(self, A, st):
        return [('self', V.is_List(attr0(A['self'], 'exceptions'))),
                ('other', z3.And(cls_is(A['other'], 'MultipleException'), V.is_List(attr0(A['other'], 'exceptions'))))]

    def post(self, A, st0, out):
        if out.kind == 'raise':
            return never_raises(out)
        r = out.value
        return [('is_fresh_multiple', z3.And(exact(r, 'MultipleException'), V.oref(r) < 0)),
                ('concatenates', fld(out.st, 'exceptions', r) == V.List(app(V.items(attr0(A['self'], 'exceptions')), V.items(attr0(A['other'], 'exceptions'))))),
                ('carries_exceptions_only', z3.Implies(z3.And(AllCarried(V.items(attr0(A['self'], 'exceptions'))), AllCarried(V.items(attr0(A['other'], 'exceptions')))),
                                                       AllCarried(V.items(fld(out.st, 'exceptions', r)))))]


# ---- extract_exceptions_from_results: gathers the failures of sibling positions (6.4.4: all of them are reported)
def failure_or_value(x):
    return z3.Implies(cls_is(x, 'MultipleException'), exc_full_wf(x))


AllFOV = ForallList('failure_or_value', failure_or_value)
NotME = ForallList('not_failure', lambda x: z3.Not(cls_is(x, 'MultipleException')))
SumME = z3.RecFunction('CarriedUpTo', VL, IntS, IntS)
_rs = z3.Const('rs_', VL)
_k = z3.Int('ek_')
z3.RecAddDefinition(SumME, [_rs, _k], z3.If(_k <= 0, 0, SumME(_rs, _k - 1) + z3.If(cls_is(nth(_rs, _k - 1), 'MultipleException'), carried(nth(_rs, _k - 1)), 0)))


class ExtractExceptions(Contract):
    key = 'tartiflette/utils/errors.py::extract_exceptions_from_results'
    property_ids = ('C02', 'C08')
    params = ['results']

    def args(self, en, names):
        self.A = super().args(en, names)
        return self.A

    def pre(self, A, st):
        return [('results', z3.And(V.is_List(A['results']), AllFOV(V.items(A['results']))))]

    def _inv(self, en, st, k, st0):
        ex = st.env['exceptions']
        rs = V.items(self.A['results'])
        items = V.items(fld(st, 'exceptions', ex))
        return {'accumulator': z3.And(exact(ex, 'MultipleException'), V.is_List(fld(st, 'exceptions', ex)), AllCarried(items)),
                'empty_iff_no_failure': VL.is_nil(items) == NotME(take(rs, k)),
                'carries_all': length(items) == SumME(rs, k)}

    @property
    def loops(self):
        return {0: LoopContract(self._inv)}

    def post(self, A, st0, out):
        if out.kind == 'raise':
            return never_raises(out)
        rs = V.items(A['results'])
        n = length(rs)
        r = out.value
        ex = fld(out.st, 'exceptions', r)
        return [('none_iff_no_failure', (r == V.None_) == NotME(rs)),
                ('gathers_every_failure', z3.Implies(r != V.None_, z3.And(exact(r, 'MultipleException'), V.is_List(ex), z3.Not(VL.is_nil(V.items(ex))), AllCarried(V.items(ex)),
                                                                         length(V.items(ex)) == SumME(rs, n))))]


class LocatedError(Contract):
    """located_error(original_error, nodes, path): one located, coercible error per carried exception (basic contract:
    count and classes; the path / locations binding is the subject of LocatedErrorPath)"""
    key = 'tartiflette/utils/errors.py::located_error'
    property_ids = ('C02', 'C18')
    params = ['original_error', 'nodes', 'path']
    modifies_fields = ('coerce_value',)
    instance_overrides = ('coerce_value',)
    no_merge = True        # the three shapes of `nodes` stay separate paths (element facts are per list term)
    merge_ifs = True       # the path / locations binding blocks rejoin after each `if`

    def args(self, en, names):
        self.A = super().args(en, names)
        return self.A

    def pre(self, A, st):
        n, e = A['nodes'], A['original_error']
        return [('error', z3.And(exc_full_wf(e), V.oref(e) >= 0)), ('nodes', z3.Or(n == V.None_, node_list(n), ast_node(n))),
                ('path', z3.Or(A['path'] == V.None_, V.is_List(A['path'])))]

    def _inv(self, en, st, k, st0):
        items = V.items(en.read(st.env['computed_exceptions'], st))
        return {'one_per_exception': length(items) == k, 'all_located': AllCarried(items)}

    @property
    def loops(self):
        return {0: LoopContract(self._inv, modifies_fields=('coerce_value',))}

    def post(self, A, st0, out):
        if out.kind == 'raise':
            return never_raises(out)
        r = out.value
        ex = fld(out.st, 'exceptions', r)
        return [('is_fresh_multiple', z3.And(exact(r, 'MultipleException'), V.oref(r) < 0, V.is_List(ex))),
                ('one_located_error_per_failure', length(V.items(ex)) == carried(A['original_error'])),
                ('wf', z3.Not(VL.is_nil(V.items(ex)))), ('elements_are_errors', AllCarried(V.items(ex)))]



def _cv(st, e):
    """the callable found at e.coerce_value: an instance attribute (a functools.partial bound by an inner located_error) shadows the method"""
    inst_ = fld(st, 'coerce_value', e)
    return inst_


def bound_kw(st, e, name):
    """the keyword an inner located_error already bound on e.coerce_value (Missing: none)"""
    inst_ = _cv(st, e)
    return z3.If(inst_ == V.Missing, V.Missing, lookup(V.fbound(inst_), S(name)))


class LocatedErrorBinding(Contract):
    """located_error on ONE (non-multiple) library error -- the body every carried exception goes through: the path and locations of the INNERMOST
    failing field stick (6.4.4: the error's path is the path of the field that failed): an error that carries its own path / locations, or on
    which an inner call already bound them, is never re-bound by an enclosing field; otherwise this field's path / node locations are bound"""
    key = 'tartiflette/utils/errors.py::located_error'
    property_ids = ('C02',)
    params = ['original_error', 'nodes', 'path']
    modifies_fields = ('coerce_value',)
    instance_overrides = ('coerce_value',)
    no_merge = True       # every combination of (own / bound / absent) x (path, locations) x (shape of nodes) is its own small path
    prune_ms = 600        # a generous pruner budget: unpruned infeasible paths of this function run into unmodelled attributes (tainted, undecided)

    def args(self, en, names):
        self.A = super().args(en, names)
        return self.A

    def pre(self, A, st):
        n, e = A['nodes'], A['original_error']
        cv = _cv(st, e)
        return [('a_single_library_error', z3.And(exact(e, 'TartifletteError'), V.oref(e) >= 0)),
                ('its_own_path_and_locations', z3.And(z3.Or(attr0(e, 'path') == V.None_, V.is_List(attr0(e, 'path'))), z3.Or(attr0(e, 'locations') == V.None_, V.is_List(attr0(e, 'locations'))))),
                ('coerce_value_is_the_method_or_a_partial_of_it', z3.Or(cv == V.Missing, z3.And(V.is_Fun(cv), lookup(V.fbound(cv), S('__partial__')) != V.Missing))),
                ('nodes', z3.Or(n == V.None_, node_list(n), ast_node(n))),
                ('path', z3.Or(A['path'] == V.None_, V.is_List(A['path'])))]

    def post(self, A, st0, out):
        if out.kind == 'raise':
            return never_raises(out)
        e, n, p, st = A['original_error'], A['nodes'], A['path'], out.st
        own_path, own_locs = py_truthy(attr0(e, 'path')), py_truthy(attr0(e, 'locations'))
        p0, p1 = bound_kw(st0, e, 'path'), bound_kw(st, e, 'path')
        l0, l1 = bound_kw(st0, e, 'locations'), bound_kw(st, e, 'locations')
        has_nodes = z3.If(n == V.None_, False, z3.If(V.is_List(n), z3.Not(VL.is_nil(V.items(n))), True))
        n_nodes = z3.If(V.is_List(n), length(V.items(n)), 1)
        r = out.value
        return [('the_same_error_is_carried', z3.And(exact(r, 'MultipleException'), fld(st, 'exceptions', r) == V.List(mklist(e)))),
                ('innermost_path_sticks', z3.Implies(z3.Or(own_path, p0 != V.Missing), p1 == p0)),
                ('path_bound_when_absent', z3.Implies(z3.And(z3.Not(own_path), p0 == V.Missing), p1 == z3.If(py_truthy(p), p, V.Missing))),
                ('innermost_locations_stick', z3.Implies(z3.Or(own_locs, l0 != V.Missing), l1 == l0)),
                ('locations_bound_when_absent', z3.Implies(z3.And(z3.Not(own_locs), l0 == V.Missing),
                                                           z3.If(has_nodes, z3.And(V.is_List(l1), length(V.items(l1)) == n_nodes), l1 == V.Missing)))]


class AddError(Contract):
    key = 'tartiflette/execution/context.py::ExecutionContext.add_error'
    property_ids = ('C02',)
    params = ['self', 'raw_exception', 'path', 'locations']
    self_class = 'ExecutionContext'
    modifies_fields = ('errors',)

    def args(self, en, names):
        self.A = super().args(en, names)
        return self.A

    def pre(self, A, st):
        return [('context', ctx_wf(st, A['self'])), ('exception', z3.And(exc_full_wf(A['raw_exception']), V.oref(A['raw_exception']) >= 0))]

    def elem_preds(self, A):
        return []

    def _inv(self, en, st, k, st0):
        e0 = V.items(ctx_errors(st0, self.A['self']))
        e1 = ctx_errors(st, self.A['self'])
        return {'one_entry_per_exception': z3.And(V.is_List(e1), length(V.items(e1)) == length(e0) + k)}

    @property
    def loops(self):
        return {0: LoopContract(self._inv)}

    def post(self, A, st0, out):
        if out.kind == 'raise':
            return never_raises(out)
        e0, e1 = V.items(ctx_errors(st0, A['self'])), ctx_errors(out.st, A['self'])
        return [('one_entry_per_failure', z3.And(V.is_List(e1), length(V.items(e1)) == length(e0) + carried(A['raw_exception'])))]


class HandleFieldError(Contract):
    """6.4.4: a field error at a non-null position propagates; otherwise it is recorded and the position becomes null"""
    key = O + 'common.py::handle_field_error'
    property_ids = ('C02', 'C03')
    params = ['raw_error', 'field_nodes', 'path', 'return_type', 'execution_context']
    modifies_fields = ('errors', 'coerce_value')

    def pre(self, A, st):
        return [('error', z3.And(exc_full_wf(A['raw_error']), V.oref(A['raw_error']) >= 0)), ('context', ctx_wf(st, A['execution_context'])),
                ('path', z3.And(PathWf(A['path']), A['path'] != V.None_)),
                ('return_type', z3.And(inst(A['return_type'], 'GraphQLType'), V.oref(A['return_type']) >= 0)),
                ('field_nodes', z3.Or(A['field_nodes'] == V.None_, node_list(A['field_nodes'])))]

    def post(self, A, st0, out):
        ctx, T_ = A['execution_context'], A['return_type']
        e0, e1 = V.items(ctx_errors(st0, ctx)), ctx_errors(out.st, ctx)
        if out.kind == 'raise':
            r = out.value
            return [('propagates_only_at_non_null', is_non_null_type(T_)),
                    ('carries_the_failure', z3.And(exact(r, 'MultipleException'), exc_full_wf_now(out.st, r), carried_now(out.st, r) == carried(A['raw_error']))),
                    ('nothing_recorded', e1 == ctx_errors(st0, ctx))]
        return [('nulls_only_nullable', z3.Not(is_non_null_type(T_))), ('position_is_null', out.value == V.None_),
                ('every_failure_recorded', z3.And(V.is_List(e1), length(V.items(e1)) == length(e0) + carried(A['raw_error']), carried(A['raw_error']) >= 1))]


def exc_full_wf_now(st, e):
    ex = fld(st, 'exceptions', e)
    return z3.And(exc_wf_now(st, e), z3.Implies(cls_is(e, 'MultipleException'), AllCarried(V.items(ex))))


def exc_wf_now(st, e):
    ex = fld(st, 'exceptions', e)
    return z3.And(cls_is(e, 'Exception'), z3.Implies(cls_is(e, 'MultipleException'), z3.And(V.is_List(ex), z3.Not(VL.is_nil(V.items(ex))))))


def carried_now(st, e):
    return z3.If(cls_is(e, 'MultipleException'), length(V.items(fld(st, 'exceptions', e))), 1)


class CompleteValueCatchingError(Contract):
    """complete_value_catching_error: CompleteValue + 6.4.4 for one position of declared type return_type"""
    key = O + 'common.py::complete_value_catching_error'
    property_ids = ('C02', 'C03', 'C01')
    params = ['result', 'info', 'execution_context', 'field_nodes', 'path', 'return_type', 'output_coercer']
    modifies_fields = ('errors', 'coerce_value')

    def args(self, en, names):
        self.A = super().args(en, names)
        return self.A

    def ghost0(self, A):
        return {'inner_called': z3.BoolVal(False), 'inner_raised': z3.BoolVal(False), 'inner_val': V.None_,
                'errors_after_inner': z3.Select(field0('errors'), A['execution_context'])}

    def pre(self, A, st):
        return [('result', resolver_value(A['result'])), ('context', ctx_wf(st, A['execution_context'])),
                ('path', z3.And(PathWf(A['path']), A['path'] != V.None_)),
                ('return_type', z3.And(inst(A['return_type'], 'GraphQLType'), V.oref(A['return_type']) >= 0)),
                ('field_nodes', z3.Or(A['field_nodes'] == V.None_, node_list(A['field_nodes']))),
                ('output_coercer', V.is_Fun(A['output_coercer'])),
                # wiring invariant established by GraphQLField.bake / get_output_coercer: the coercer is the one of return_type
                ('coercer_matches_type', is_non_null_type(A['return_type']) == z3.Not(Conf(denote(A['output_coercer']), V.None_))),
                ('result_exception_ref', z3.Implies(cls_is(A['result'], 'Exception'), V.oref(A['result']) >= 0))]

    def call_model(self, en, st, f, a, kw):
        if z3.eq(f, self.A['output_coercer']):
            outs = output_call(en, st, f, en.read(a[0], st), self.A['execution_context'])
            res = []
            for (s, v) in outs:
                res.append((s, v))
            return res
        return None

    def post(self, A, st0, out):
        ctx, T_, g = A['execution_context'], A['return_type'], out.st.ghost
        b = denote(A['output_coercer'])
        e0, e1 = V.items(ctx_errors(st0, ctx)), ctx_errors(out.st, ctx)
        failed = z3.Or(cls_is(A['result'], 'Exception'), z3.And(g['inner_called'], g['inner_raised']))
        after = z3.If(g['inner_called'], g['errors_after_inner'], ctx_errors(st0, ctx))
        if out.kind == 'raise':
            r = out.value
            return [('propagates_only_at_non_null', is_non_null_type(T_)), ('only_on_failure', failed),
                    ('carries_the_failure', z3.And(exact(r, 'MultipleException'), exc_full_wf_now(out.st, r))),
                    ('nothing_recorded_here', e1 == after)]
        v = out.value
        return [('conforms', Conf(b, v)), ('not_a_sentinel', z3.And(v != V.Undef, v != V.Missing)), ('not_an_exception', z3.Not(cls_is(v, 'Exception'))),
                ('no_failure_no_change', z3.Implies(z3.Not(failed), z3.And(v == g['inner_val'], e1 == after))),
                ('failure_nulls_nullable_position', z3.Implies(failed, z3.And(z3.Not(is_non_null_type(T_)), v == V.None_,
                                                                            V.is_List(e1), length(V.items(e1)) >= length(V.items(after)) + 1))),
                ('errors_only_grow', z3.And(V.is_List(e1), length(V.items(e1)) >= length(e0)))]


def item_outcome(x, b, nn):
    """what complete_value_catching_error leaves at a list position: a completed value, or (non-null items only) the failure"""
    return z3.Or(z3.And(cls_is(x, 'MultipleException'), exc_full_wf(x), nn),
                 z3.And(z3.Not(cls_is(x, 'Exception')), Conf(b, x), x != V.Undef, x != V.Missing))


AllOutcome = ForallList('item_outcome', item_outcome, (OBeh, BoolS))


class _OutcomeConforms(ListImplication):
    """AllOutcome(l, b, nn) & NotME(l) => AllConf(l, b)"""
    def __init__(self):
        self.name, self.conclusion = 'outcomes_without_failure_conform', SO.AllConf
        self.nn = z3.Bool('pw_nn')
        SO.AllConf.implied_by.append(self)
        ListImplication.registry.append(self)

    def instance(self, l, ps):
        b = ps[0]
        # nn is existential on the premise side: instantiate with both truth values
        return z3.And(*[z3.Implies(z3.And(AllOutcome(l, b, z3.BoolVal(v)), NotME(l)), SO.AllConf(l, b)) for v in (True, False)])

    def pointwise(self):
        x, b = z3.Const('pw_x', V), z3.Const('pw_b', OBeh)
        return [item_outcome(x, b, self.nn), z3.Not(cls_is(x, 'MultipleException'))], Conf(b, x)


class _OutcomeIsFOV(ListImplication):
    """AllOutcome(l, b, nn) => AllFOV(l)   (instantiated for the AllOutcome facts of the query)"""
    def __init__(self):
        self.name, self.conclusion = 'outcomes_are_failures_or_values', AllFOV
        ListImplication.registry.append(self)

    def pointwise(self):
        x, b, nn = z3.Const('pw_x', V), z3.Const('pw_b', OBeh), z3.Bool('pw_nn')
        return [item_outcome(x, b, nn)], failure_or_value(x)


IMP1, IMP2 = _OutcomeConforms(), _OutcomeIsFOV()


class _NullableItemsNeverFail(ListImplication):
    """AllOutcome(l, b, nn) & not nn => NotME(l): failures are only left at non-null item positions"""
    def __init__(self):
        self.name, self.conclusion = 'nullable_items_never_fail', NotME
        ListImplication.registry.append(self)

    def pointwise(self):
        x, b, nn = z3.Const('pw_x', V), z3.Const('pw_b', OBeh), z3.Bool('pw_nn')
        return [item_outcome(x, b, nn), z3.Not(nn)], z3.Not(cls_is(x, 'MultipleException'))


IMP3 = _NullableItemsNeverFail()


def _outcome_hook(e, n):
    if n == AllOutcome.name:
        return [z3.Implies(e, AllFOV(e.arg(0))), z3.Implies(z3.And(e, z3.Not(e.arg(2))), NotME(e.arg(0)))]
    return []


LEMMA_HOOKS.append(_outcome_hook)


class ListOut(DecoratedOut):
    """list_coercer_sequentially / list_coercer_concurrently share ONE contract (C08): positional results, all item failures gathered"""
    params = ['result', 'info', 'execution_context', 'field_nodes', 'path', 'item_type', 'inner_coercer']
    property_ids = ('C02', 'C03', 'C08')
    modifies_fields = ('errors', 'coerce_value')

    def __init__(self, key, concurrent):
        super().__init__(key)
        self.concurrent = concurrent

    def beh(self, A):
        return OBeh.OList(z3.BoolVal(self.concurrent), A['item_type'], denote(A['inner_coercer']))

    def nn(self, A):
        return is_non_null_type(A['item_type'])

    def pre(self, A, st):
        i = A['info']
        return [('result', SO.ResWf(A['result'])), ('context', ctx_wf(st, A['execution_context'])),
                ('inner_callable', V.is_Fun(A['inner_coercer'])),
                ('path', PathWf(A['path'])), ('field_nodes', z3.Or(A['field_nodes'] == V.None_, node_list(A['field_nodes']))),
                ('item_type', z3.And(inst(A['item_type'], 'GraphQLType'), V.oref(A['item_type']) >= 0)),
                ('coercer_matches_item_type', self.nn(A) == z3.Not(Conf(denote(A['inner_coercer']), V.None_))),
                ('info', info_wf(i))]

    def _inv(self, en, st, k, st0):
        A = self.A
        ctx = A['execution_context']
        items = V.items(en.read(st.env['results'], st))
        e0, e1 = V.items(ctx_errors(st0, ctx)), ctx_errors(st, ctx)
        return {'positional': length(items) == k, 'outcomes': AllOutcome(items, denote(A['inner_coercer']), self.nn(A)),
                'errors_only_grow': z3.And(V.is_List(e1), length(V.items(e1)) >= length(e0))}

    @property
    def loops(self):
        return {0: LoopContract(self._inv, modifies_fields=('errors', 'coerce_value'))} if not self.concurrent else {}

    def _effect(self, en, st, k, st0):
        ctx = self.A['execution_context']
        e0, e1 = V.items(ctx_errors(st0, ctx)), ctx_errors(st, ctx)
        return {'errors_only_grow': z3.And(V.is_List(e1), length(V.items(e1)) >= length(e0))}

    @property
    def comp_effects(self):
        return {0: CompEffect(self._effect, ('errors', 'coerce_value'))} if self.concurrent else {}

    @property
    def comp_all(self):
        return {0: [(AllOutcome, (denote(self.A['inner_coercer']), self.nn(self.A)))]} if self.concurrent else {}

    def post_return(self, A, st0, out):
        return [('positional', z3.And(V.is_List(out.value), length(V.items(out.value)) == length(V.items(A['result']))))]

    def post_raise(self, A, st0, out):
        r = out.value
        return [('only_non_list_or_non_null_item_failure', z3.Or(z3.And(z3.Not(V.is_List(A['result'])), exact(r, 'TypeError')),
                                                                z3.And(V.is_List(A['result']), self.nn(A), exact(r, 'MultipleException'))))]


def fresh_nn():
    return z3.Bool('nn_')


class GetOutputCoercer(Contract):
    """get_output_coercer(T, concurrently): the closure denotes exactly CompleteValue for T -- every list layer is bound to ITS
    item type (the declared wrapped type) and the requested list flavour, non-null layers wrap their inner type"""
    key = O + 'compute.py::get_output_coercer'
    property_ids = ('C01', 'C02', 'C03', 'C08')
    params = ['graphql_type', 'concurrently']

    def args(self, en, names):
        self.A = super().args(en, names)
        return self.A

    def cc(self):
        return py_truthy(self.A['concurrently'])

    def pre(self, A, st):
        return [('type_wf', SO.OTyWf(A['graphql_type'])), ('flag', z3.Or(V.is_Bool(A['concurrently']), A['concurrently'] == V.None_))]

    def _inv0(self, en, st, k, st0):
        ws = V.items(en.read(st.env['wrapper_coercers'], st))
        inner = st.env['inner_type']
        return {'cursor_wf': SO.OTyWf(inner), 'wrappers_ok': SO.OWsOk(ws, self.cc()),
                'rebuild': SO.ORebR(ws, SO.OBehT(inner, self.cc())) == SO.OBehT(self.A['graphql_type'], self.cc())}

    def _inv1(self, en, st, k, st0):
        ws = V.items(en.read(st.env['wrapper_coercers'], st))
        c = en.read(st.env['coercer'], st)
        n = length(ws)
        return {'closure': V.is_Fun(c), 'wrappers_ok': SO.OWsOk(take(ws, n - k), self.cc()),
                'rebuild': SO.ORebR(take(ws, n - k), denote(c)) == SO.OBehT(self.A['graphql_type'], self.cc())}

    @property
    def loops(self):
        return {0: LoopContract(self._inv0), 1: LoopContract(self._inv1)}

    def post(self, A, st0, out):
        if out.kind == 'raise':
            return never_raises(out)
        return [('is_closure', V.is_Fun(out.value)), ('denotes_type', denote(out.value) == SO.OBehT(A['graphql_type'], self.cc()))]


CONTRACTS = COMMON_CONTRACTS + [GetOutputCoercer(), ListOut(O + 'list_coercer.py::list_coercer_sequentially', False), ListOut(O + 'list_coercer.py::list_coercer_concurrently', True), IsCoercible(), MultipleExceptionBool(), MultipleExceptionAdd(), ExtractExceptions(), LocatedError(), LocatedErrorBinding(), AddError(), EnumOut(),
                                HandleFieldError(), CompleteValueCatchingError(), NonNullOut(), NullWrapperOut(), ScalarOut(), DirectivesOut()]
LEMMAS = [Lemma('pointwise:' + imp.name, *imp.pointwise()) for imp in ListImplication.registry]
