"""C08 / C05 -- the two built-in arguments-coercer strategies are positional gathers: every coroutine is awaited once, outcome k is the value or the
exception of coroutine k (the contract CoerceArguments assumes of `coercer`)."""
import z3
from pyvc.values import *
from pyvc.values import UNFOLD, ForallList
from pyvc.contracts import Contract, Lemma
from pyvc.symexec import attr0, field0, LoopContract, PyFunc, PyTuple, Raise, coro_raises, coro_exc, coro_value
from pyvc.builtins import gather_outcomes
from .common import *

R_ = 'tartiflette/resolver/default.py::'
AllCoroutines = ForallList('awaitable_coroutine', lambda c: z3.And(exact(c, 'coroutine'), inst(coro_exc(c), 'Exception'), V.oref(coro_exc(c)) >= 0))


class ArgumentsStrategy(Contract):
    property_ids = ('C08', 'C05')
    params = []

    def __init__(self, fn):
        self.key = R_ + fn

    def args(self, en, names):
        self.A = A = super().args(en, names)
        A['coroutines'] = V.Tuple(fresh('coroutines', VL))
        return A

    def cs(self, A):
        return V.titems(A['coroutines'])

    def pre(self, A, st):
        return [('coroutines', AllCoroutines(self.cs(A)))]

    def _inv(self, en, st, k, st0):
        res = V.items(en.read(st.env['results'], st))
        return {'outcomes_of_the_first_k_in_order': res == gather_outcomes(take(self.cs(self.A), k))}

    @property
    def loops(self):
        return {0: LoopContract(self._inv)}

    def post(self, A, st0, out):
        if out.kind == 'raise':
            return never_raises(out)
        return [('positional_outcomes_failures_as_values', out.value == V.List(gather_outcomes(self.cs(A))))]


CONTRACTS = [ArgumentsStrategy('gather_arguments_coercer'), ArgumentsStrategy('sync_arguments_coercer')]
from pyvc.builtins import _outcome      # noqa: E402
_l, _t = z3.Consts('go_l go_t', VL)
_h = z3.Const('go_h', V)
_k = z3.Int('go_k')
_stmt = lambda L, k: z3.Implies(z3.And(k > 0, k <= length(L)), gather_outcomes(take(L, k)) == app(gather_outcomes(take(L, k - 1)), VL.cons(_outcome(nth(L, k - 1)), VL.nil)))
LEMMAS = [Lemma('gather_outcomes_prefix_step:base', [], _stmt(VL.nil, _k), property_ids=('C08',)),
          Lemma('gather_outcomes_prefix_step:step', [_stmt(_t, _k - 1), length(_t) >= 0], _stmt(VL.cons(_h, _t), _k), property_ids=('C08',))]
