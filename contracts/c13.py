"""C13 -- directive hooks wrap their target exactly once: query-side field directives of EVERY merged field node are wrapped around the
baked resolver, the resolver (chain) is called exactly once with the spec-coerced arguments (also C01)."""
import z3
from pyvc.values import *
from pyvc.values import UNFOLD
from pyvc.contracts import Contract, Lemma
from pyvc.symexec import attr0, field0, LoopContract, PyFunc, PyTuple, Raise
from .common import *
from .c01 import AllFields

CDN = z3.Function('ComputedDirectives', V, V)            # compute_directive_nodes(schema, field_node.directives, variables) for one field node (a list)
AllCDN = z3.RecFunction('QuerySideDirectivesUpTo', VL, IntS, VL)
_ns = z3.Const('ns_', VL)
_k = z3.Int('cdk_')
_all = lambda ns, k: z3.If(k <= 0, VL.nil, app(AllCDN(ns, k - 1), V.items(CDN(nth(ns, k - 1)))))
z3.RecAddDefinition(AllCDN, [_ns, _k], _all(_ns, _k))
UNFOLD['QuerySideDirectivesUpTo'] = _all


class ResolveFieldValueOrError(Contract):
    key = 'tartiflette/resolver/factory.py::resolve_field_value_or_error'
    property_ids = ('C13', 'C01', 'C02')
    params = ['execution_context', 'field_definition', 'field_nodes', 'resolver', 'source', 'info']

    def args(self, en, names):
        self.A = super().args(en, names)
        self.args_ = fresh('coerced_arguments')
        self.wrapped = z3.Const('query_side_wrapped_resolver', V)
        self.value = fresh('resolved_value')
        self.fails = fresh('resolver_fails', BoolS)
        return self.A

    def pre(self, A, st):
        ctx, fd, i = A['execution_context'], A['field_definition'], A['info']
        return [('context', z3.And(exact(ctx, 'ExecutionContext'), V.oref(ctx) >= 0)),
                ('field_definition', z3.And(exact(fd, 'GraphQLField'), V.oref(fd) >= 0)),
                ('field_nodes', z3.And(V.is_List(A['field_nodes']), z3.Not(VL.is_nil(V.items(A['field_nodes']))), AllFields(V.items(A['field_nodes'])))),
                ('resolver', V.is_Fun(A['resolver'])), ('info', z3.And(exact(i, 'ResolveInfo'), V.oref(i) >= 0, V.is_Bool(attr0(i, 'is_introspection')))),
                ('wrapped', V.is_Fun(self.wrapped))]

    def ghost0(self, A):
        return {'calls': z3.IntVal(0), 'called': V.Missing, 'call_args': V.Missing, 'wrapped_with': V.Missing, 'args_node': V.Missing, 'args_vars': V.Missing}

    def extra_env(self, en, A):
        def cdn(en, st, a, kw):
            # compute_directive_nodes(schema, node.directives, variables): identified by the field node whose directives it reads
            d = z3.simplify(en.read(a[1], st))
            node = d.arg(1) if z3.is_app(d) and d.decl().kind() == z3.Z3_OP_SELECT else fresh('some_node')
            return [(st.assume(V.is_List(CDN(node))), CDN(node))]

        def wraps(en, st, a, kw):
            st = st.put_ghost('wrapped_with', en.read(kw.get('directives_definition'), st))
            return [(st, self.wrapped)]

        def coerce_arguments(en, st, a, kw):
            return [(st.put_ghost('args_node', en.read(a[1], st)).put_ghost('args_vars', en.read(a[2], st)), self.args_)]

        def introspection(en, st, a, kw):
            return [(st, fresh('introspected'))]
        return {'compute_directive_nodes': PyFunc('compute_directive_nodes', cdn), 'wraps_with_directives': PyFunc('wraps_with_directives', wraps),
                'coerce_arguments': PyFunc('coerce_arguments', coerce_arguments), 'introspection_directives_executor': PyFunc('introspection_directives_executor', introspection)}

    def call_model(self, en, st, f, a, kw):
        if z3.eq(f, self.A['resolver']) or z3.eq(f, self.wrapped):
            st = st.put_ghost('calls', st.ghost['calls'] + 1).put_ghost('called', f).put_ghost('call_args', V.Tuple(mklist(*[en.read(x, st) for x in a])))
            e = V.Obj(fresh('ecls', IntS), fresh('eref', IntS))
            return en.branches(st, [(z3.Not(self.fails), self.value), (z3.And(self.fails, inst(e, 'Exception'), V.oref(e) >= 0), Raise(e))])
        return None

    def _inv(self, en, st, k, st0):
        items = V.items(en.read(st.env['computed_directives'], st))
        return {'directives_of_every_merged_node_so_far': items == AllCDN(V.items(self.A['field_nodes']), k)}

    @property
    def loops(self):
        return {0: LoopContract(self._inv)}

    def post(self, A, st0, out):
        if out.kind == 'raise':
            return never_raises(out)
        g = out.st.ghost
        nodes = V.items(A['field_nodes'])
        alld = AllCDN(nodes, length(nodes))
        ctx = A['execution_context']
        return [('resolver_chain_called_exactly_once', z3.Implies(z3.Not(self.fails), g['calls'] == 1)),
                ('query_side_directives_of_every_merged_node_wrap_the_resolver',
                 z3.Implies(g['calls'] == 1, z3.If(VL.is_nil(alld), g['called'] == A['resolver'], z3.And(g['called'] == self.wrapped, g['wrapped_with'] == V.List(alld))))),
                ('with_parent_value_coerced_arguments_caller_context_and_info',
                 z3.Implies(g['calls'] == 1, g['call_args'] == V.Tuple(mklist(A['source'], self.args_, attr0(ctx, 'context'), A['info'])))),
                ('arguments_of_the_first_node_from_the_coerced_variables',
                 z3.Implies(g['calls'] == 1, z3.And(g['args_node'] == nth(nodes, 0), g['args_vars'] == attr0(ctx, 'variable_values')))),
                ('failure_is_returned_as_a_value', z3.Implies(self.fails, inst(out.value, 'Exception')))]


CONTRACTS = [ResolveFieldValueOrError()]
LEMMAS = []
