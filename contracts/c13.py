"""C13 -- directive hooks wrap their target exactly once: query-side field directives of EVERY merged field node are wrapped around the
baked resolver, the resolver (chain) is called exactly once with the spec-coerced arguments (also C01)."""
import z3
from pyvc.values import *
from pyvc.values import UNFOLD
from pyvc.contracts import Contract, Lemma
from pyvc.symexec import attr0, field0, LoopContract, PyFunc, PyTuple, Raise, fun_id
from pyvc.values import ForallList, LEMMA_HOOKS
from pyvc import symexec as SX
from .common import *
from .c01 import AllFields

CDN = z3.Function('ComputedDirectives', V, V)            # compute_directive_nodes(schema, field_node.directives, variables) for one field node (a list)
AllCDN = z3.RecFunction('QuerySideDirectivesUpTo', VL, IntS, VL)
_ns = z3.Const('ns_', VL)
_k = z3.Int('cdk_')
_all = lambda ns, k: z3.If(k <= 0, VL.nil, app(AllCDN(ns, k - 1), V.items(CDN(nth(ns, k - 1)))))
z3.RecAddDefinition(AllCDN, [_ns, _k], _all(_ns, _k))
UNFOLD['QuerySideDirectivesUpTo'] = _all


class ResolveFieldValueOrError(Contract):
    key = 'tartiflette/resolver/factory.py::resolve_field_value_or_error'
    property_ids = ('C13', 'C01', 'C02')
    params = ['execution_context', 'field_definition', 'field_nodes', 'resolver', 'source', 'info']

    def args(self, en, names):
        self.A = super().args(en, names)
        self.args_ = fresh('coerced_arguments')
        self.wrapped = z3.Const('query_side_wrapped_resolver', V)
        self.value = fresh('resolved_value')
        self.fails = fresh('resolver_fails', BoolS)
        return self.A

    def pre(self, A, st):
        ctx, fd, i = A['execution_context'], A['field_definition'], A['info']
        return [('context', z3.And(exact(ctx, 'ExecutionContext'), V.oref(ctx) >= 0)),
                ('field_definition', z3.And(exact(fd, 'GraphQLField'), V.oref(fd) >= 0)),
                ('field_nodes', z3.And(V.is_List(A['field_nodes']), z3.Not(VL.is_nil(V.items(A['field_nodes']))), AllFields(V.items(A['field_nodes'])))),
                ('resolver', V.is_Fun(A['resolver'])), ('info', z3.And(exact(i, 'ResolveInfo'), V.oref(i) >= 0, V.is_Bool(attr0(i, 'is_introspection')))),
                ('wrapped', V.is_Fun(self.wrapped))]

    def ghost0(self, A):
        return {'calls': z3.IntVal(0), 'called': V.Missing, 'call_args': V.Missing, 'wrapped_with': V.Missing, 'args_node': V.Missing, 'args_vars': V.Missing}

    def extra_env(self, en, A):
        def cdn(en, st, a, kw):
            # compute_directive_nodes(schema, node.directives, variables): identified by the field node whose directives it reads
            d = z3.simplify(en.read(a[1], st))
            node = d.arg(1) if z3.is_app(d) and d.decl().kind() == z3.Z3_OP_SELECT else fresh('some_node')
            return [(st.assume(V.is_List(CDN(node))), CDN(node))]

        def wraps(en, st, a, kw):
            st = st.put_ghost('wrapped_with', en.read(kw.get('directives_definition'), st))
            return [(st, self.wrapped)]

        def coerce_arguments(en, st, a, kw):
            return [(st.put_ghost('args_node', en.read(a[1], st)).put_ghost('args_vars', en.read(a[2], st)), self.args_)]

        def introspection(en, st, a, kw):
            return [(st, fresh('introspected'))]
        return {'compute_directive_nodes': PyFunc('compute_directive_nodes', cdn), 'wraps_with_directives': PyFunc('wraps_with_directives', wraps),
                'coerce_arguments': PyFunc('coerce_arguments', coerce_arguments), 'introspection_directives_executor': PyFunc('introspection_directives_executor', introspection)}

    def call_model(self, en, st, f, a, kw):
        if z3.eq(f, self.A['resolver']) or z3.eq(f, self.wrapped):
            st = st.put_ghost('calls', st.ghost['calls'] + 1).put_ghost('called', f).put_ghost('call_args', V.Tuple(mklist(*[en.read(x, st) for x in a])))
            e = V.Obj(fresh('ecls', IntS), fresh('eref', IntS))
            return en.branches(st, [(z3.Not(self.fails), self.value), (z3.And(self.fails, inst(e, 'Exception'), V.oref(e) >= 0), Raise(e))])
        return None

    def _inv(self, en, st, k, st0):
        items = V.items(en.read(st.env['computed_directives'], st))
        return {'directives_of_every_merged_node_so_far': items == AllCDN(V.items(self.A['field_nodes']), k)}

    @property
    def loops(self):
        return {0: LoopContract(self._inv)}

    def post(self, A, st0, out):
        if out.kind == 'raise':
            return never_raises(out)
        g = out.st.ghost
        nodes = V.items(A['field_nodes'])
        alld = AllCDN(nodes, length(nodes))
        ctx = A['execution_context']
        return [('resolver_chain_called_exactly_once', z3.Implies(z3.Not(self.fails), g['calls'] == 1)),
                ('query_side_directives_of_every_merged_node_wrap_the_resolver',
                 z3.Implies(g['calls'] == 1, z3.If(VL.is_nil(alld), g['called'] == A['resolver'], z3.And(g['called'] == self.wrapped, g['wrapped_with'] == V.List(alld))))),
                ('with_parent_value_coerced_arguments_caller_context_and_info',
                 z3.Implies(g['calls'] == 1, g['call_args'] == V.Tuple(mklist(A['source'], self.args_, attr0(ctx, 'context'), A['info'])))),
                ('arguments_of_the_first_node_from_the_coerced_variables',
                 z3.Implies(g['calls'] == 1, z3.And(g['args_node'] == nth(nodes, 0), g['args_vars'] == attr0(ctx, 'variable_values')))),
                ('failure_is_returned_as_a_value', z3.Implies(self.fails, inst(out.value, 'Exception')))]



# ---- wraps_with_directives: the wrapper chain, first declared directive outermost
D = 'tartiflette/utils/directives.py::'


def directive_entry_wf(d):
    """one entry of a directives definition: {"callables": {hook: callable}, "arguments_coercer": callable, ...}"""
    it = V.ditems(d)
    cs = lookup(it, S('callables'))
    return z3.And(V.is_Dict(d), V.is_Dict(cs), lookup(it, S('arguments_coercer')) != V.Missing)


AllDirectiveEntries = ForallList('directive_entry', directive_entry_wf)


def wrap_one(wrapper, d, hook, inner):
    """partial(wrapper, d["callables"][hook], d["arguments_coercer"], inner)"""
    it = V.ditems(d)
    return V.Fun(V.fname(wrapper), mklist(V.Pair(V.Int(0), lookup(V.ditems(lookup(it, S('callables'))), hook)), V.Pair(V.Int(1), lookup(it, S('arguments_coercer'))),
                                          V.Pair(V.Int(2), inner), V.Pair(S('__partial__'), V.Bool(True))))


# ChainFrom(ds, j, hook, wrapper, base): directives j.. of the list wrapped around base, directive j outermost; those without the hook are skipped
ChainFrom = z3.RecFunction('DirectiveChainFrom', VL, IntS, V, V, V, V)
_ds = z3.Const('wd_ds', VL)
_j = z3.Int('wd_j')
_hook, _wr, _base = z3.Consts('wd_hook wd_wrapper wd_base', V)


def _chain(ds, j, hook, wr, base):
    d = nth(ds, j)
    rest = ChainFrom(ds, j + 1, hook, wr, base)
    return z3.If(z3.Or(j >= length(ds), j < 0), base,
                 z3.If(lookup(V.ditems(lookup(V.ditems(d), S('callables'))), hook) != V.Missing, wrap_one(wr, d, hook, rest), rest))


z3.RecAddDefinition(ChainFrom, [_ds, _j, _hook, _wr, _base], _chain(_ds, _j, _hook, _wr, _base))
UNFOLD['DirectiveChainFrom'] = _chain


def is_partial(f):
    return z3.And(V.is_Fun(f), lookup(V.fbound(f), S('__partial__')) != V.Missing)


def fn(key):
    return V.Fun(fun_id(key), VL.nil)


def partial1(key, f):
    return V.Fun(fun_id(key), mklist(V.Pair(V.Int(0), f), V.Pair(S('__partial__'), V.Bool(True))))


class WrapsWithDirectives(Contract):
    """the callable returned is the reversed fold of the definition list: the first declared directive implementing the hook is the outermost
    wrapper, each one bound to ITS callable and ITS arguments coercer and to the chain of the later ones, the innermost being the wrapped
    callable (a resolver / generator is first adapted once)"""
    key = D + 'wraps_with_directives'
    property_ids = ('C13',)
    params = ['directives_definition', 'directive_hook', 'func', 'is_resolver', 'with_default', 'is_async_generator']

    def args(self, en, names):
        self.A = super().args(en, names)
        return self.A

    def pre(self, A, st):
        return [('definitions', z3.And(V.is_List(A['directives_definition']), AllDirectiveEntries(V.items(A['directives_definition'])))),
                ('hook', V.is_Str(A['directive_hook'])),
                ('func', z3.Or(A['func'] == V.None_, V.is_Fun(A['func']))),
                ('flags', z3.And(V.is_Bool(A['is_resolver']), V.is_Bool(A['with_default']), V.is_Bool(A['is_async_generator'])))]

    def base(self, A):
        """the innermost callable after defaulting and the resolver / generator adapters"""
        hook = A['directive_hook']
        dflt = z3.If(hook == S('on_argument_execution'), fn(D + 'default_argument_execution_directive'),
                     z3.If(hook == S('on_post_input_coercion'), fn(D + 'default_post_input_coercion_directive'), fn(D + 'default_directive_callable')))
        f0 = z3.If(A['func'] == V.None_, dflt, A['func'])
        f1 = z3.If(z3.And(V.b(A['is_resolver']), z3.Not(is_partial(f0))), partial1(D + 'resolver_executor', f0), f0)
        gen = z3.And(V.b(A['is_async_generator']), z3.Not(is_partial(f1)))
        f2 = z3.If(gen, partial1(D + 'subscription_generator', f1), f1)
        wr = z3.If(gen, fn(D + 'directive_generator'), fn(D + 'directive_executor'))
        return f2, wr

    def _inv(self, en, st, k, st0):
        ds = V.items(self.A['directives_definition'])
        base, wr = self.base(self.A)
        return {'chain_of_the_last_k_directives': en.read(st.env['func'], st) == ChainFrom(ds, length(ds) - k, self.A['directive_hook'], wr, base),
                'wrapper_fixed': en.read(st.env['directive_wrapper'], st) == wr}

    @property
    def loops(self):
        return {0: LoopContract(self._inv)}

    def post(self, A, st0, out):
        if out.kind == 'raise':
            return never_raises(out)
        ds = V.items(A['directives_definition'])
        base, wr = self.base(A)
        nothing = z3.And(A['func'] == V.None_, z3.Not(V.b(A['with_default'])), VL.is_nil(ds))
        return [('first_declared_outermost_chain', out.value == z3.If(nothing, V.None_, ChainFrom(ds, 0, A['directive_hook'], wr, base)))]



class DirectiveExecutor(Contract):
    """one link of the chain: the instance's arguments are coerced once (with the request's coercion context), then ITS hook is awaited exactly
    once with those arguments, the next stage (bound to the same context) and the untouched remaining arguments; the hook's outcome is the
    link's outcome -- the executor itself never runs the next stage"""
    key = D + 'directive_executor'
    property_ids = ('C13',)
    params = ['directive_func', 'directive_arguments_coercer', 'wrapped_func', 'context_coercer']

    def args(self, en, names):
        self.A = A = super().args(en, names)
        A['args'] = fresh('rest_args')
        self.kwrest = fresh('rest_kwargs')
        A['kwargs'] = SX.KwBundle({}, self.kwrest)
        self.dargs, self.result = fresh('coerced_directive_arguments'), fresh('hook_result')
        self.coercer_fails, self.hook_fails = fresh('coercer_fails', BoolS), fresh('hook_fails', BoolS)
        return A

    def pre(self, A, st):
        return [('callables', z3.And(V.is_Fun(A['directive_func']), V.is_Fun(A['directive_arguments_coercer']), V.is_Fun(A['wrapped_func']))),
                ('distinct_roles', z3.And(A['directive_func'] != A['directive_arguments_coercer'], A['directive_func'] != A['wrapped_func'],
                                          A['wrapped_func'] != A['directive_arguments_coercer'])),
                ('rest', V.is_Tuple(A['args']))]

    def ghost0(self, A):
        return {'coercer_calls': z3.IntVal(0), 'hook_calls': z3.IntVal(0), 'next_calls': z3.IntVal(0), 'coercer_ctx': V.Missing, 'hook_args': V.Missing,
                'hook_after_coercer': z3.BoolVal(False)}

    def call_model(self, en, st, f, a, kw):
        A = self.A
        e = V.Obj(fresh('ecls', IntS), fresh('eref', IntS))
        exc = z3.And(inst(e, 'Exception'), V.oref(e) >= 0)
        if z3.eq(f, A['directive_arguments_coercer']):
            ok = len(a) == 0 and set(kw) == {'ctx'}
            st = st.put_ghost('coercer_calls', st.ghost['coercer_calls'] + 1).put_ghost('coercer_ctx', en.read(kw['ctx'], st) if ok else V.Missing)
            return en.branches(st, [(z3.Not(self.coercer_fails), self.dargs), (z3.And(self.coercer_fails, exc), Raise(e))])
        if z3.eq(f, A['directive_func']):
            shape = len(a) == 3 and isinstance(a[2], tuple) and a[2][0] == '*' and set(kw) == {'**'}
            rec = V.Tuple(mklist(en.read(a[0], st), en.read(a[1], st), en.read(a[2][1], st), en.read(kw['**'], st))) if shape else V.Missing
            st = st.put_ghost('hook_calls', st.ghost['hook_calls'] + 1).put_ghost('hook_args', rec).put_ghost('hook_after_coercer', st.ghost['coercer_calls'] == 1)
            return en.branches(st, [(z3.Not(self.hook_fails), self.result), (z3.And(self.hook_fails, exc), Raise(e))])
        if z3.eq(f, A['wrapped_func']):
            return [(st.put_ghost('next_calls', st.ghost['next_calls'] + 1), fresh('next_stage'))]
        return None

    def post(self, A, st0, out):
        g = out.st.ghost
        nxt = V.Fun(V.fname(A['wrapped_func']), assoc_set(assoc_set(V.fbound(A['wrapped_func']), S('__partial__'), V.Bool(True)), S('context_coercer'), A['context_coercer']))
        common = [('arguments_coerced_exactly_once_with_the_request_context', z3.And(g['coercer_calls'] == 1, g['coercer_ctx'] == A['context_coercer'])),
                  ('next_stage_not_run_by_the_executor', g['next_calls'] == 0)]
        if out.kind == 'raise':
            return common + [('only_the_coercer_or_the_hook_fails', z3.Or(self.coercer_fails, self.hook_fails)),
                             ('hook_not_run_after_a_failed_coercion', z3.Implies(self.coercer_fails, g['hook_calls'] == 0))]
        return common + [('hook_awaited_exactly_once_after_coercion', z3.And(g['hook_calls'] == 1, g['hook_after_coercer'])),
                         ('with_its_arguments_the_next_stage_and_the_rest', g['hook_args'] == V.Tuple(mklist(self.dargs, nxt, A['args'], self.kwrest))),
                         ('hook_result_is_the_result', out.value == self.result)]


class ResolverExecutor(Contract):
    """innermost adapter: the raw resolver is awaited exactly once with the positional arguments unchanged and without context_coercer"""
    key = D + 'resolver_executor'
    property_ids = ('C13', 'C01')
    params = ['resolver']

    def args(self, en, names):
        self.A = A = super().args(en, names)
        A['args'] = fresh('rest_args')
        self.cc = fresh('context_coercer_kw')
        self.kwrest = fresh('rest_kwargs')
        A['kwargs'] = SX.KwBundle({'context_coercer': self.cc}, self.kwrest)
        self.result = fresh('resolved')
        self.fails = fresh('resolver_fails', BoolS)
        return A

    def pre(self, A, st):
        return [('resolver', V.is_Fun(A['resolver'])), ('rest', V.is_Tuple(A['args']))]

    def ghost0(self, A):
        return {'calls': z3.IntVal(0), 'call_args': V.Missing}

    def call_model(self, en, st, f, a, kw):
        if z3.eq(f, self.A['resolver']):
            shape = len(a) == 1 and isinstance(a[0], tuple) and a[0][0] == '*' and set(kw) == {'**'}
            st = st.put_ghost('calls', st.ghost['calls'] + 1).put_ghost('call_args', V.Tuple(mklist(en.read(a[0][1], st), en.read(kw['**'], st))) if shape else V.Missing)
            e = V.Obj(fresh('ecls', IntS), fresh('eref', IntS))
            return en.branches(st, [(z3.Not(self.fails), self.result), (z3.And(self.fails, inst(e, 'Exception'), V.oref(e) >= 0), Raise(e))])
        return None

    def post(self, A, st0, out):
        g = out.st.ghost
        common = [('resolver_awaited_exactly_once_with_the_same_arguments_and_no_context_coercer', z3.And(g['calls'] == 1, g['call_args'] == V.Tuple(mklist(A['args'], self.kwrest))))]
        if out.kind == 'raise':
            return common + [('only_the_resolver_fails', self.fails)]
        return common + [('its_value_is_the_value', out.value == self.result)]



# ---- compute_directive_nodes: one entry per directive INSTANCE, in declaration order, each bound to its own node and definition
G = 'tartiflette/types/helpers/get_directive_instances.py::'
Callables = z3.Function('HookCallablesOf', V, V)        # get_callables(implementation): the on_* coroutine attributes (dir/getattr: opaque)
LEMMA_HOOKS.append(lambda e, n: [V.is_Dict(e)] if n == 'HookCallablesOf' else [])      # it is a dict comprehension


def dir_def(schema, node):
    return lookup(V.ditems(attr0(schema, '_directive_definitions')), attr0(attr0(node, 'name'), 'value'))


def directive_node_wf(n, schema):
    d = dir_def(schema, n)
    return z3.And(exact(n, 'DirectiveNode'), V.oref(n) >= 0, exact(attr0(n, 'name'), 'NameNode'), V.oref(attr0(n, 'name')) >= 0, V.is_Str(attr0(attr0(n, 'name'), 'value')),
                  exact(d, 'GraphQLDirective'), V.oref(d) >= 0)      # known directive (rule 5.7.1 holds for validated documents; SDL directives are checked at build)


AllDirectiveNodes = ForallList('known_directive_node', directive_node_wf, param_sorts=[V])


def cdn_entry(schema, node, vv):
    d = dir_def(schema, node)
    bound = VL.nil
    for k, v in (('__partial__', V.Bool(True)), ('argument_definitions', attr0(d, 'arguments')), ('node', node),
                 ('variable_values', z3.If(py_truthy(vv), vv, V.Dict(VL.nil))), ('coercer', attr0(d, 'arguments_coercer'))):
        bound = assoc_set(bound, S(k), v)
    coercer = V.Fun(fun_id('tartiflette/coercers/arguments.py::coerce_arguments'), bound)
    return V.Dict(mklist(V.Pair(S('callables'), Callables(attr0(d, 'implementation'))), V.Pair(S('arguments_coercer'), coercer)))


CDNUpTo = z3.RecFunction('ComputedDirectiveEntriesUpTo', V, VL, V, IntS, VL)
_sc, _vv = z3.Consts('cd_schema cd_vars', V)
_cdn = lambda sc, ns, vv, k: z3.If(k <= 0, VL.nil, snoc(CDNUpTo(sc, ns, vv, k - 1), cdn_entry(sc, nth(ns, k - 1), vv)))
z3.RecAddDefinition(CDNUpTo, [_sc, _ns, _vv, _k], _cdn(_sc, _ns, _vv, _k))
UNFOLD['ComputedDirectiveEntriesUpTo'] = _cdn


class ComputeDirectiveNodes(Contract):
    key = G + 'compute_directive_nodes'
    property_ids = ('C13',)
    params = ['schema', 'directive_nodes', 'variable_values']
    inline = (G + 'transform_directive', 'tartiflette/schema/schema.py::GraphQLSchema.find_directive')

    def args(self, en, names):
        self.A = super().args(en, names)
        return self.A

    def pre(self, A, st):
        dn, sc = A['directive_nodes'], A['schema']
        return [('schema', z3.And(exact(sc, 'GraphQLSchema'), V.oref(sc) >= 0, V.is_Dict(attr0(sc, '_directive_definitions')))),
                ('nodes', z3.Or(dn == V.None_, z3.And(V.is_List(dn), AllDirectiveNodes(V.items(dn), sc)))),
                ('variables', z3.Or(A['variable_values'] == V.None_, V.is_Dict(A['variable_values'])))]

    # get_callables enumerates dir(implementation): opaque here, named by an uninterpreted function of the implementation object
    callee_models = {G + 'get_callables': lambda en, st, a, kw: [(st, Callables(en.read(a[0], st)))]}

    def _inv(self, en, st, k, st0):
        A = self.A
        cd = en.read(st.env['computed_directives'], st)
        return {'one_entry_per_instance_in_order': cd == V.List(CDNUpTo(A['schema'], V.items(A['directive_nodes']), A['variable_values'], k)),
                'entries_well_formed': AllDirectiveEntries(V.items(cd))}

    @property
    def loops(self):
        return {0: LoopContract(self._inv)}

    def post(self, A, st0, out):
        if out.kind == 'raise':
            return never_raises(out)
        ns = z3.If(V.is_List(A['directive_nodes']), V.items(A['directive_nodes']), VL.nil)
        return [('one_entry_per_directive_instance_in_declaration_order_bound_to_its_node_and_definition',
                 out.value == V.List(CDNUpTo(A['schema'], ns, A['variable_values'], length(ns)))),
                ('entries_well_formed', AllDirectiveEntries(V.items(out.value)))]



# ---- bake() wiring: which chain ends up in which baked coercer
def closure(key, *pos, **kw):
    """functools.partial(<repo function>, *pos, **kw) as the engine represents it"""
    bound = VL.nil
    for i, v in enumerate(pos):
        bound = snoc(bound, V.Pair(V.Int(i), v))
    bound = assoc_set(bound, S('__partial__'), V.Bool(True))
    for k, v in kw.items():
        bound = assoc_set(bound, S(k), v)
    return V.Fun(fun_id(key), bound)


def partial_of(f, *pos, **kw):
    """functools.partial(f, *pos, **kw) over a callable value"""
    from pyvc.builtins import partial_bind
    return V.Fun(V.fname(f), partial_bind(V.fbound(f), list(pos), list(kw.items())))


def baked_directives(schema, directives):
    """compute_directive_nodes(schema, directives) at bake time (no variables)"""
    ns = z3.If(V.is_List(directives), V.items(directives), VL.nil)
    return CDNUpTo(schema, ns, V.None_, length(ns))


_WW = WrapsWithDirectives()


def chain(ds, hook, func=V.None_, is_resolver=False, with_default=False):
    """wraps_with_directives(ds, hook, func, is_resolver, with_default) by its contract"""
    A = {'directives_definition': V.List(ds), 'directive_hook': S(hook), 'func': func, 'is_resolver': V.Bool(is_resolver), 'with_default': V.Bool(with_default),
         'is_async_generator': V.Bool(False)}
    base, wr = _WW.base(A)
    nothing = z3.And(func == V.None_, z3.Not(z3.BoolVal(with_default)), VL.is_nil(ds))
    return z3.If(nothing, V.None_, ChainFrom(ds, 0, S(hook), wr, base))


def bake_pre(A):
    sc, me = A['schema'], A['self']
    dn = attr0(me, 'directives')
    return [('schema', z3.And(exact(sc, 'GraphQLSchema'), V.oref(sc) >= 0, V.is_Dict(attr0(sc, '_directive_definitions')))),
            ('directives', z3.Or(dn == V.None_, z3.And(V.is_List(dn), AllDirectiveNodes(V.items(dn), sc))))]


CI, CL, CO = 'tartiflette/coercers/inputs/', 'tartiflette/coercers/literals/', 'tartiflette/coercers/outputs/'


class ScalarBake(Contract):
    """GraphQLScalarType.bake: the variable path and the literal path get THE SAME on_post_input_coercion chain of the type's own directives; the
    output path gets the on_pre_output_coercion chain; each wraps the scalar coercer bound to this type"""
    key = 'tartiflette/types/scalar.py::GraphQLScalarType.bake'
    property_ids = ('C13',)
    params = ['self', 'schema']
    self_class = 'GraphQLScalarType'
    modifies_fields = ('introspection_directives', 'input_coercer', 'literal_coercer', 'output_coercer')

    def pre(self, A, st):
        return [('self', V.oref(A['self']) >= 0)] + bake_pre(A)

    def post(self, A, st0, out):
        if out.kind == 'raise':
            return never_raises(out)
        me = A['self']
        ds = baked_directives(A['schema'], attr0(me, 'directives'))
        post_in = chain(ds, 'on_post_input_coercion')
        return [('input_path', fld(out.st, 'input_coercer', me) == closure(CI + 'directives_coercer.py::input_directives_coercer',
                                                                           coercer=closure(CI + 'scalar_coercer.py::scalar_coercer', scalar_type=me), directives=post_in)),
                ('literal_path_same_hooks', fld(out.st, 'literal_coercer', me) == closure(CL + 'directives_coercer.py::literal_directives_coercer',
                                                                                          coercer=closure(CL + 'scalar_coercer.py::scalar_coercer', scalar_type=me), directives=post_in)),
                ('output_path', fld(out.st, 'output_coercer', me) == closure(CO + 'directives_coercer.py::output_directives_coercer',
                                                                             coercer=closure(CO + 'scalar_coercer.py::scalar_coercer', scalar_type=me),
                                                                             directives=chain(ds, 'on_pre_output_coercion', with_default=True))),
                ('introspection', fld(out.st, 'introspection_directives', me) == chain(ds, 'on_introspection'))]



class EnumTypeBake(Contract):
    """GraphQLEnumType.bake: as for scalars -- one on_post_input_coercion chain shared by the variable and the literal path"""
    key = 'tartiflette/types/enum.py::GraphQLEnumType.bake'
    property_ids = ('C13',)
    params = ['self', 'schema']
    self_class = 'GraphQLEnumType'
    modifies_fields = ('introspection_directives', 'input_coercer', 'literal_coercer', 'output_coercer')

    def pre(self, A, st):
        return [('self', V.oref(A['self']) >= 0)] + bake_pre(A)

    def post(self, A, st0, out):
        if out.kind == 'raise':
            return never_raises(out)
        me = A['self']
        ds = baked_directives(A['schema'], attr0(me, 'directives'))
        post_in = chain(ds, 'on_post_input_coercion')
        return [('input_path', fld(out.st, 'input_coercer', me) == closure(CI + 'directives_coercer.py::input_directives_coercer',
                                                                           coercer=closure(CI + 'enum_coercer.py::enum_coercer', enum_type=me), directives=post_in)),
                ('literal_path_same_hooks', fld(out.st, 'literal_coercer', me) == closure(CL + 'directives_coercer.py::literal_directives_coercer',
                                                                                          coercer=closure(CL + 'enum_coercer.py::enum_coercer', enum_type=me), directives=post_in)),
                ('output_path', fld(out.st, 'output_coercer', me) == closure(CO + 'directives_coercer.py::output_directives_coercer',
                                                                             coercer=closure(CO + 'enum_coercer.py::enum_coercer', enum_type=me),
                                                                             directives=chain(ds, 'on_pre_output_coercion', with_default=True))),
                ('introspection', fld(out.st, 'introspection_directives', me) == chain(ds, 'on_introspection'))]


class EnumValueBake(Contract):
    """GraphQLEnumValue.bake: the value's own directives; input and literal path are the same chain object"""
    key = 'tartiflette/types/enum.py::GraphQLEnumValue.bake'
    property_ids = ('C13',)
    params = ['self', 'schema']
    self_class = 'GraphQLEnumValue'
    modifies_fields = ('introspection_directives', 'input_coercer', 'literal_coercer', 'output_coercer', 'on_post_bake')

    def pre(self, A, st):
        return [('self', V.oref(A['self']) >= 0)] + bake_pre(A)

    def post(self, A, st0, out):
        if out.kind == 'raise':
            return never_raises(out)
        me = A['self']
        ds = baked_directives(A['schema'], attr0(me, 'directives'))
        post_in = chain(ds, 'on_post_input_coercion', with_default=True)
        return [('input_path', fld(out.st, 'input_coercer', me) == post_in),
                ('literal_path_same_hooks', fld(out.st, 'literal_coercer', me) == post_in),
                ('output_path', fld(out.st, 'output_coercer', me) == chain(ds, 'on_pre_output_coercion', with_default=True)),
                ('introspection', fld(out.st, 'introspection_directives', me) == chain(ds, 'on_introspection')),
                ('post_bake_hooks_bound_to_this_value', fld(out.st, 'on_post_bake', me) == partial_of(chain(ds, 'on_post_bake', with_default=True), me))]



GqlTypeOf = z3.Function('ResolvedGraphQLType', V, V, V)         # get_graphql_type(schema, type reference)
InCoercerOf = z3.Function('InputCoercerOfType', V, V)           # get_input_coercer(type)    (its own contract: C04)
LitCoercerOf = z3.Function('LiteralCoercerOfType', V, V)        # get_literal_coercer(type)
OutCoercerOf = z3.Function('OutputCoercerOfType', V, V, V)      # get_output_coercer(type, concurrently)  (its own contract: C02)
for _n in ('InputCoercerOfType', 'LiteralCoercerOfType', 'OutputCoercerOfType'):
    LEMMA_HOOKS.append(lambda e, n, _n=_n: [V.is_Fun(e)] if n == _n else [])
TYPE_MODELS = {
    'tartiflette/types/helpers/type.py::get_graphql_type': lambda en, st, a, kw: [(st, GqlTypeOf(en.read(a[0], st), en.read(a[1], st)))],
    'tartiflette/coercers/inputs/compute.py::get_input_coercer': lambda en, st, a, kw: [(st, InCoercerOf(en.read(a[0], st)))],
    'tartiflette/coercers/literals/compute.py::get_literal_coercer': lambda en, st, a, kw: [(st, LitCoercerOf(en.read(a[0], st)))],
    'tartiflette/coercers/outputs/compute.py::get_output_coercer': lambda en, st, a, kw: [(st, OutCoercerOf(en.read(a[0], st), en.read(a[1], st)))],
}


def typed_member_pre(A):
    me = A['self']
    gt = GqlTypeOf(A['schema'], attr0(me, 'gql_type'))
    return [('self', V.oref(me) >= 0), ('type_reference', z3.Or(V.is_Str(attr0(me, 'gql_type')), inst(attr0(me, 'gql_type'), 'GraphQLType'))),
            ('introspection_type_dict', V.is_Dict(attr0(me, 'type'))),
            ('resolved_type', z3.And(inst(gt, 'GraphQLType'), V.oref(gt) >= 0))] + bake_pre(A)


class InputFieldBake(Contract):
    """GraphQLInputField.bake: the field's own on_post_input_coercion chain wraps the coercer of the field's TYPE on both paths (the literal
    path flagged is_input_field)"""
    key = 'tartiflette/types/input_field.py::GraphQLInputField.bake'
    property_ids = ('C13',)
    params = ['self', 'schema']
    self_class = 'GraphQLInputField'
    modifies_fields = ('graphql_type', 'type', 'defaultValue', 'introspection_directives', 'input_coercer', 'literal_coercer')
    callee_models = TYPE_MODELS

    def pre(self, A, st):
        return typed_member_pre(A)

    def post(self, A, st0, out):
        if out.kind == 'raise':
            return never_raises(out)
        me = A['self']
        ds = baked_directives(A['schema'], attr0(me, 'directives'))
        gt = GqlTypeOf(A['schema'], attr0(me, 'gql_type'))
        post_in = chain(ds, 'on_post_input_coercion')
        return [('resolved_type_recorded', fld(out.st, 'graphql_type', me) == gt),
                ('input_path', fld(out.st, 'input_coercer', me) == closure(CI + 'directives_coercer.py::input_directives_coercer', coercer=InCoercerOf(gt), directives=post_in)),
                ('literal_path_same_hooks', fld(out.st, 'literal_coercer', me) == closure(CL + 'directives_coercer.py::literal_directives_coercer', coercer=LitCoercerOf(gt),
                                                                                          directives=post_in, is_input_field=V.Bool(True))),
                ('introspection', fld(out.st, 'introspection_directives', me) == chain(ds, 'on_introspection'))]


class ArgumentBake(Contract):
    """GraphQLArgument.bake: the argument's on_argument_execution chain is bound into argument_coercer; its literal coercer is the type's"""
    key = 'tartiflette/types/argument.py::GraphQLArgument.bake'
    property_ids = ('C13', 'C05')
    params = ['self', 'schema']
    self_class = 'GraphQLArgument'
    modifies_fields = ('graphql_type', 'type', 'defaultValue', 'introspection_directives', 'coercer', 'literal_coercer')
    callee_models = TYPE_MODELS

    def pre(self, A, st):
        return typed_member_pre(A)

    def post(self, A, st0, out):
        if out.kind == 'raise':
            return never_raises(out)
        me = A['self']
        ds = baked_directives(A['schema'], attr0(me, 'directives'))
        gt = GqlTypeOf(A['schema'], attr0(me, 'gql_type'))
        return [('resolved_type_recorded', fld(out.st, 'graphql_type', me) == gt),
                ('literal_coercer_of_the_declared_type', fld(out.st, 'literal_coercer', me) == LitCoercerOf(gt)),
                ('argument_hooks_bound', fld(out.st, 'coercer', me) == closure('tartiflette/coercers/argument.py::argument_coercer', directives=chain(ds, 'on_argument_execution'))),
                ('introspection', fld(out.st, 'introspection_directives', me) == chain(ds, 'on_introspection'))]



class FieldBake(Contract):
    """GraphQLField.bake: the field's on_field_execution chain (first declared outermost) wraps the resolver adapter around the raw resolver (or
    the custom / builtin default) and is bound, with the output coercer of the declared type, into resolve_field; arguments are baked in order"""
    key = 'tartiflette/types/field.py::GraphQLField.bake'
    property_ids = ('C13', 'C01')
    params = ['self', 'schema', 'custom_default_resolver']
    self_class = 'GraphQLField'
    modifies_fields = ('graphql_type', 'arguments_coercer', 'list_concurrently', 'parent_concurrently', 'on_post_bake', 'introspection_directives', 'resolver', 'args')
    callee_models = TYPE_MODELS
    merge_ifs = 'always'      # the three concurrency / coercer selections rejoin after each `if`

    def args(self, en, names):
        self.A = super().args(en, names)
        return self.A

    def pre(self, A, st):
        me, sc = A['self'], A['schema']
        rr = attr0(me, 'raw_resolver')
        return [('self', V.oref(me) >= 0), ('raw_resolver', z3.Or(rr == V.None_, V.is_Fun(rr))),
                ('custom_default', z3.Or(A['custom_default_resolver'] == V.None_, V.is_Fun(A['custom_default_resolver']))),
                ('arguments', z3.And(V.is_Dict(attr0(me, 'arguments')), AllArgEntries(V.ditems(attr0(me, 'arguments'))))),
                ('args_list', V.is_List(attr0(me, 'args')))] + bake_pre(A)

    def ghost0(self, A):
        return {'baked': V.List(VL.nil)}

    def instance_method_model(self, en, st, v, attr):
        return None

    def getattr_hook(self, en, st, v, attr):
        if attr == 'bake' and not z3.eq(v, self.A['self']):
            def bake(en, s, a, kw, v=v):
                return [(s.put_ghost('baked', V.List(snoc(V.items(s.ghost['baked']), V.Tuple(mklist(v, en.read(a[0], s)))))), V.None_)]
            return [(st, PyFunc('argument.bake', bake))]
        return None

    def _inv(self, en, st, k, st0):
        me = self.A['self']
        argl = vals(V.ditems(attr0(me, 'arguments')))
        return {'arguments_baked_in_order_with_the_schema': st.ghost['baked'] == V.List(BakedUpTo(argl, self.A['schema'], k)),
                'args_collects_them': fld(st, 'args', me) == V.List(AppendedUpTo(V.items(fld(st0, 'args', me)), argl, k))}

    @property
    def loops(self):
        return {0: LoopContract(self._inv, modifies_fields=('args',), modifies_ghost=('baked',))}

    def post(self, A, st0, out):
        if out.kind == 'raise':
            return never_raises(out)
        me, sc = A['self'], A['schema']
        ds = baked_directives(sc, attr0(me, 'directives'))
        gt = GqlTypeOf(sc, attr0(me, 'gql_type'))
        rr = attr0(me, 'raw_resolver')
        raw = z3.If(py_truthy(rr), rr, z3.If(py_truthy(A['custom_default_resolver']), A['custom_default_resolver'], fn('tartiflette/resolver/default.py::default_field_resolver')))
        argl = vals(V.ditems(attr0(me, 'arguments')))
        return [('resolved_type_recorded', fld(out.st, 'graphql_type', me) == gt),
                ('field_hooks_wrap_the_resolver', fld(out.st, 'resolver', me) == closure(
                    'tartiflette/resolver/factory.py::resolve_field', field_definition=me,
                    resolver=chain(ds, 'on_field_execution', func=raw, is_resolver=True, with_default=True),
                    output_coercer=OutCoercerOf(gt, fld(out.st, 'list_concurrently', me)))),
                ('introspection', fld(out.st, 'introspection_directives', me) == chain(ds, 'on_introspection')),
                ('every_argument_baked_once_in_order', out.st.ghost['baked'] == V.List(BakedUpTo(argl, sc, length(argl))))]


AllArgEntries = ForallList('argument_entry', lambda p: z3.And(V.is_Pair(p), exact(V.snd(p), 'GraphQLArgument'), V.oref(V.snd(p)) >= 0))
BakedUpTo = z3.RecFunction('ArgumentsBakedUpTo', VL, V, IntS, VL)
_al = z3.Const('ba_l', VL)
_bk = lambda al, sc, k: z3.If(k <= 0, VL.nil, snoc(BakedUpTo(al, sc, k - 1), V.Tuple(mklist(nth(al, k - 1), sc))))
z3.RecAddDefinition(BakedUpTo, [_al, _sc, _k], _bk(_al, _sc, _k))
UNFOLD['ArgumentsBakedUpTo'] = _bk
AppendedUpTo = z3.RecFunction('AppendedUpTo', VL, VL, IntS, VL)       # l0 followed by the first k elements of l
_al0 = z3.Const('ba_l0', VL)
_apk = lambda l0, al, k: z3.If(k <= 0, l0, snoc(AppendedUpTo(l0, al, k - 1), nth(al, k - 1)))
z3.RecAddDefinition(AppendedUpTo, [_al0, _al, _k], _apk(_al0, _al, _k))
UNFOLD['AppendedUpTo'] = _apk


class InputObjectBake(Contract):
    """GraphQLInputObjectType.bake: one on_post_input_coercion chain of the type's own directives on both the variable and the literal path"""
    key = 'tartiflette/types/input_object.py::GraphQLInputObjectType.bake'
    property_ids = ('C13',)
    params = ['self', 'schema']
    self_class = 'GraphQLInputObjectType'
    modifies_fields = ('introspection_directives', 'input_coercer', 'literal_coercer')

    def pre(self, A, st):
        return [('self', V.oref(A['self']) >= 0)] + bake_pre(A)

    def post(self, A, st0, out):
        if out.kind == 'raise':
            return never_raises(out)
        me = A['self']
        ds = baked_directives(A['schema'], attr0(me, 'directives'))
        post_in = chain(ds, 'on_post_input_coercion')
        return [('input_path', fld(out.st, 'input_coercer', me) == closure(CI + 'directives_coercer.py::input_directives_coercer',
                                                                           coercer=closure(CI + 'input_object_coercer.py::input_object_coercer', input_object_type=me), directives=post_in)),
                ('literal_path_same_hooks', fld(out.st, 'literal_coercer', me) == closure(CL + 'directives_coercer.py::literal_directives_coercer',
                                                                                          coercer=closure(CL + 'input_object_coercer.py::input_object_coercer', input_object_type=me), directives=post_in)),
                ('introspection', fld(out.st, 'introspection_directives', me) == chain(ds, 'on_introspection'))]


class InterfaceBake(Contract):
    """GraphQLInterfaceType.bake: the abstract coercer bound to this type under the type's on_pre_output_coercion chain"""
    key = 'tartiflette/types/interface.py::GraphQLInterfaceType.bake'
    property_ids = ('C13',)
    params = ['self', 'schema']
    self_class = 'GraphQLInterfaceType'
    modifies_fields = ('introspection_directives', 'output_coercer')

    def pre(self, A, st):
        return [('self', V.oref(A['self']) >= 0)] + bake_pre(A)

    def post(self, A, st0, out):
        if out.kind == 'raise':
            return never_raises(out)
        me = A['self']
        ds = baked_directives(A['schema'], attr0(me, 'directives'))
        return [('output_path', fld(out.st, 'output_coercer', me) == closure(CO + 'directives_coercer.py::output_directives_coercer',
                                                                             coercer=closure(CO + 'abstract_coercer.py::abstract_coercer', abstract_type=me),
                                                                             directives=chain(ds, 'on_pre_output_coercion', with_default=True))),
                ('introspection', fld(out.st, 'introspection_directives', me) == chain(ds, 'on_introspection'))]


CONTRACTS = [ResolveFieldValueOrError(), WrapsWithDirectives(), DirectiveExecutor(), ResolverExecutor(), ComputeDirectiveNodes(), ScalarBake(), EnumTypeBake(), EnumValueBake(), InputFieldBake(), ArgumentBake(), FieldBake(), InputObjectBake(), InterfaceBake()]
LEMMAS = []


class DirectiveBake(Contract):
    """Directive.bake: the decorated implementation (whose on_* hooks wraps_with_directives will pick) and its arguments coercer (the directive's own
    or the schema default) are stored on the directive definition of THAT name; a missing implementation or an unknown directive is refused"""
    key = 'tartiflette/directive/directive.py::Directive.bake'
    property_ids = ('C13', 'C17')
    params = ['self', 'schema']
    self_class = 'Directive'
    modifies_fields = ('implementation', 'arguments_coercer')

    def _def(self, A):
        return lookup(V.ditems(attr0(A['schema'], '_directive_definitions')), attr0(A['self'], 'name'))

    def pre(self, A, st):
        me, s = A['self'], A['schema']
        d = self._def(A)
        ac = attr0(me, '_arguments_coercer')
        return [('directive', z3.And(V.oref(me) >= 0, V.is_Str(attr0(me, 'name')), z3.Or(attr0(me, '_implementation') == V.None_, z3.And(V.is_Obj(attr0(me, '_implementation')),
                                     _obj_truthy(attr0(me, '_implementation')))), z3.Or(ac == V.None_, V.is_Fun(ac)))),
                ('schema', z3.And(exact(s, 'GraphQLSchema'), V.oref(s) >= 0, V.is_Dict(attr0(s, '_directive_definitions')), V.is_Fun(attr0(s, 'default_arguments_coercer')))),
                ('definition', z3.Implies(d != V.Missing, z3.And(exact(d, 'GraphQLDirective'), V.oref(d) >= 0)))]

    def post(self, A, st0, out):
        me, s, st = A['self'], A['schema'], out.st
        impl, d, ac = attr0(me, '_implementation'), self._def(A), attr0(me, '_arguments_coercer')
        if out.kind == 'raise':
            return [('refused_only_for_a_reason', z3.Or(z3.And(impl == V.None_, exact(out.value, 'MissingImplementation')),
                                                        z3.And(impl != V.None_, d == V.Missing, exact(out.value, 'UnknownDirectiveDefinition'))))]
        return [('accepted_only_for_a_known_directive', z3.And(impl != V.None_, d != V.Missing)),
                ('implementation_on_the_named_definition', fld(st, 'implementation', d) == impl),
                ('own_arguments_coercer_or_the_schema_default', fld(st, 'arguments_coercer', d) == z3.If(ac != V.None_, ac, attr0(s, 'default_arguments_coercer')))]


def _obj_truthy(o):
    from pyvc.symexec import _obj_bool
    return _obj_bool(o)


CONTRACTS.append(DirectiveBake())
