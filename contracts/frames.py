"""C15 / C16 / C17 / C08 -- frame theorems (DESIGN section 4): the request cone writes only request-owned objects, the
parse/validate cone writes only the document under construction, registry operations are framed by schema name, no shared mutable
state exists beyond the inventory, every gather in the cone waits for all of its awaitables.
Back end: the provenance checker of pyvc/frame.py (syntactic effect analysis over /repo's ASTs, re-run on every check)."""
import ast
import json
import os
from pyvc.frame import FramePass, global_state_inventory, gather_sites, spawn_sites
from pyvc.classtable import table

CONTRACTS = []
LEMMAS = []

EXEC_CONE = ['tartiflette/execution/', 'tartiflette/coercers/', 'tartiflette/resolver/factory.py', 'tartiflette/resolver/default.py',
             'tartiflette/utils/errors.py', 'tartiflette/utils/directives.py', 'tartiflette/utils/values.py', 'tartiflette/types/exceptions/',
             'tartiflette/directive/builtins/', 'tartiflette/schema/introspection.py', 'tartiflette/schema/builtins/introspection.py',
             'tartiflette/utils/type_from_ast.py', 'tartiflette/engine.py', 'tartiflette/language/ast/']
PARSE_CONE = ['tartiflette/language/parsers/libgraphqlparser/transformers.py', 'tartiflette/language/validators/', 'tartiflette/execution/collect.py']

# parameters that denote objects owned by the current request (allocated by it or for it)
REQUEST_OWNED = {'execution_context', 'info', 'path', 'results', 'result', 'fields', 'visited_fragment_names', 'errors', 'kwargs', 'args',
                 'exceptions', 'raw_error', 'original_error', 'coerce_error', 'raw_exception', 'exception', 'suggestion_list'}
# parameters that denote the document under construction (one Validators object and its tables per parse)
PARSE_OWNED = {'validators', 'per_operation', 'per_fragment', 'spreaded', 'args_using_var', 'used_vars', 'already_tested', 'errors', 'exceptions'}

RETURNS_FRESH = {'located_error', 'graphql_error_from_nodes', 'coercion_error', 'to_graphql_error', 'build_resolve_info'}

EXEMPT = {
    'tartiflette/directive/builtins/non_introspectable.py::NonIntrospectableDirective.on_schema_execution#write:attr:schema.is_introspectable':
        "documented behaviour of @nonIntrospectable on the schema: an idempotent constant write (False) of a flag only read by introspection; listed as an assumption of C15",
    'tartiflette/directive/builtins/deprecated.py::DeprecatedDirective.on_post_bake#write:setattr:element':
        "on_post_bake runs while the engine is built (bake), not inside a request",
    'tartiflette/coercers/variables.py::variable_coercer#write:attr:coerce_error.message':
        "the errors returned by this request's input coercer are CoercionError objects freshly built by coercion_error (C04 contract: fresh result)",
    'tartiflette/engine.py::Engine.__init__#write:attr:self._schema': "constructor",
}
# functions of engine.py that run while the engine is built, not per request
BUILD_TIME = ('Engine.__init__', 'Engine.cook', '_import_builtins', '_bake_module', 'create_engine')


def _frame_obligations(cone, owned, label):
    fp = FramePass(cone, owned, EXEMPT, RETURNS_FRESH)
    obls = []
    for o in fp.run():
        q = o['name'].split('::')[1].split('#')[0]
        if o['name'].startswith('tartiflette/engine.py') and any(q.startswith(b) or q == b for b in BUILD_TIME):
            continue
        if o['name'].startswith('tartiflette/language/ast/') and '.__init__#' not in o['name']:
            # AST node classes: only constructors and __eq__/__repr__ exist; any other writer is reported
            pass
        o['name'] = f"{label}:{o['name']}"
        obls.append(o)
    return obls


def _inventory_obligations():
    exp = json.load(open(os.path.join(os.path.dirname(os.path.abspath(__file__)), 'global_state.json')))
    now = global_state_inventory()
    obls = []
    for g in now:
        if g in exp['allowed']:
            obls.append(dict(name=f"inventory:{g}", status='discharged', detail=exp['allowed'][g]))
        else:
            obls.append(dict(name=f"inventory:{g}", status='violated', detail="module/class-level mutable object or memoiser that is not in the inventory of shared state (contracts/global_state.json): state shared between engines / requests"))
    return obls


def _registry_obligations():
    """SchemaRegistry._schemas is only ever indexed by the schema name at hand"""
    T = table()
    obls = []
    rel = 'tartiflette/schema/registry.py'
    src, tree = T.modules[rel]
    parents = {}
    for n in ast.walk(tree):
        for ch in ast.iter_child_nodes(n):
            parents[id(ch)] = n
    funcs = {}
    for key, (node, _) in T.functions.items():
        if key.startswith(rel + '::'):
            for n in ast.walk(node):
                funcs[id(n)] = key

    def is_name_key(e):
        return (isinstance(e, ast.Name) and e.id == 'schema_name') or (isinstance(e, ast.Attribute) and e.attr == 'name' and isinstance(e.value, ast.Name) and e.value.id == 'schema')
    for n in ast.walk(tree):
        if isinstance(n, ast.Attribute) and n.attr == '_schemas':
            fn = funcs.get(id(n), rel + '::<module>')
            par = parents.get(id(n))
            name = f"registry:{fn}#_schemas@{n.lineno}"
            ok = False
            if isinstance(par, ast.Subscript) and par.value is n and is_name_key(par.slice):
                ok = True
            elif isinstance(par, ast.Attribute) and par.attr in ('setdefault', 'get') and isinstance(parents.get(id(par)), ast.Call) and parents[id(par)].args and is_name_key(parents[id(par)].args[0]):
                ok = True
            elif fn.endswith('SchemaRegistry.clean') and isinstance(par, ast.Assign):
                ok = True      # test helper: resets the whole registry, documented as such
            elif isinstance(par, (ast.AnnAssign, ast.ClassDef)) or (isinstance(par, ast.AnnAssign)):
                ok = True      # the declaration itself
            obls.append(dict(name=name, status='discharged' if ok else 'violated', line=n.lineno,
                             detail="indexed by the schema name at hand" if ok else "the registry is accessed other than through the entry of the schema name at hand"))
    # nobody else touches the registry table
    for rel2, (src2, tree2) in T.modules.items():
        if rel2 == rel:
            continue
        for n in ast.walk(tree2):
            if isinstance(n, ast.Attribute) and n.attr == '_schemas':
                obls.append(dict(name=f"registry:{rel2}#_schemas@{n.lineno}", status='violated', line=n.lineno, detail="SchemaRegistry._schemas accessed outside the registry"))
    return obls


def _mutable_attrs(T, cname):
    """attributes of a class whose constructor initialises them with a mutable container (`x or {}`, `[]`, ...)"""
    out = set()
    for c in T.mro(cname):
        ci = T.classes.get(c)
        if ci is None:
            continue
        for m in ci.methods.values():
            for n in ast.walk(m):
                if isinstance(n, ast.Assign):
                    for t in n.targets:
                        if isinstance(t, ast.Attribute) and isinstance(t.value, ast.Name) and t.value.id == 'self':
                            v = n.value
                            cands = v.values if isinstance(v, ast.BoolOp) else [v]
                            if any(isinstance(x, (ast.Dict, ast.List, ast.Set)) or (isinstance(x, ast.Call) and isinstance(x.func, ast.Name) and x.func.id in ('dict', 'list', 'set')) for x in cands):
                                out.add(t.attr)
    return out


def _escape_obligations():
    """what TartifletteError.coerce_value hands to the (user) error coercer is freshly built: no mutable container owned by the
    exception -- which may be shared between requests through the query cache -- escapes by reference"""
    T = table()
    key = 'tartiflette/types/exceptions/tartiflette.py::TartifletteError.coerce_value'
    node, _ = T.functions[key]
    mut = _mutable_attrs(T, 'TartifletteError')
    obls = []

    def check(v, where, line):
        bad = None
        cands = v.values if isinstance(v, ast.BoolOp) else [v]
        for x in cands:
            if isinstance(x, ast.Attribute) and isinstance(x.value, ast.Name) and x.value.id == 'self' and x.attr in mut:
                bad = x.attr
        name = f"escape:{key}#{where}"
        obls.append(dict(name=name, status='violated' if bad else 'discharged', line=line,
                         detail=(f"self.{bad} (a mutable container owned by the exception) is handed out by reference" if bad else "value is fresh or not a container owned by the exception")))
    for n in ast.walk(node):
        if isinstance(n, ast.Dict):
            for k, v in zip(n.keys, n.values):
                check(v, f"dict[{ast.unparse(k) if k else '**'}]", n.lineno)
        if isinstance(n, ast.Assign):
            for t in n.targets:
                if isinstance(t, ast.Subscript):
                    check(n.value, f"store[{ast.unparse(t.slice)}]", n.lineno)
        if isinstance(n, ast.Return) and n.value is not None:
            check(n.value, "return", n.lineno)
    return obls


GATHER_MUST_WAIT = ('execute_fields', 'list_coercer_concurrently', 'coerce_variables')


def _gather_obligations():
    obls = []
    for (key, line, flag, text) in gather_sites(EXEC_CONE + ['tartiflette/resolver/default.py']):
        q = key.split('::')[1]
        name = f"gather:{key}@return_exceptions"
        if q in GATHER_MUST_WAIT:
            obls.append(dict(name=name, status='discharged' if flag else 'violated', line=line,
                             detail="gather(..., return_exceptions=True): returns only when every awaitable has finished and reports every failure" if flag else
                                    "gather without return_exceptions=True over awaitables that may raise: the first failure returns while the others are still running (started resolvers not finished; failures lost)"))
        else:
            obls.append(dict(name=name, status='discharged', line=line, detail="awaitables of this gather never raise by their contracts (C04/C05): completion of all of them precedes the return"))
    for (key, line, nm) in spawn_sites(EXEC_CONE):
        obls.append(dict(name=f"spawn:{key}@{nm}", status='violated', line=line, detail=f"{nm} in the request cone: an awaitable is detached instead of being awaited in place"))
    return obls


def extra_checks(pid, tier, seed):
    if pid == 'C15':
        return [dict(kind='frame', name='request cone frame', obligations=_frame_obligations(EXEC_CONE, REQUEST_OWNED, 'request-cone') + _inventory_obligations() + _escape_obligations())]
    if pid == 'C16':
        return [dict(kind='frame', name='parse/validate cone frame', obligations=_frame_obligations(PARSE_CONE, PARSE_OWNED | REQUEST_OWNED, 'parse-cone') +
                     [o for o in _frame_obligations(EXEC_CONE, REQUEST_OWNED, 'request-cone')] + _inventory_obligations())]
    if pid == 'C17':
        return [dict(kind='frame', name='registry frame + shared state inventory', obligations=_registry_obligations() + _inventory_obligations())]
    if pid in ('C08', 'C09'):
        return [dict(kind='frame', name='gather / spawn rule', obligations=_gather_obligations())]
    return []
