"""C05 / C13 -- argument coercion through literals: the null / variable wrapper, the non-null layer, the directive wrapper and the
per-field rule of input-object literals (GraphQL 6.4.1 CoerceArgumentValues, 3.10 input objects; C13: hook stages on the literal path)."""
import z3
from pyvc.values import *
from pyvc.contracts import Contract, Lemma
from pyvc.symexec import attr0, field0, PyFunc, PyTuple, Raise, KwBundle
from .common import *

L = 'tartiflette/coercers/literals/'


def value_node(n):
    return z3.Or(n == V.None_, n == V.Undef, z3.And(inst(n, 'ValueNode'), ast_node(n)))


def variables_ok(vs):
    return z3.Or(vs == V.None_, V.is_Dict(vs))


def var_name_of(n):
    return attr0(attr0(n, 'name'), 'value')


def variable_node_wf(n):
    return z3.Implies(exact(n, 'VariableNode'), z3.And(exact(attr0(n, 'name'), 'NameNode'), V.oref(attr0(n, 'name')) >= 0, V.is_Str(var_name_of(n))))


def missing_variable(n, vs):
    """the node is a variable without a runtime value: not provided, or provided as the UNDEFINED sentinel"""
    v = lookup(V.ditems(vs), var_name_of(n))
    return z3.And(exact(n, 'VariableNode'), z3.Or(z3.Not(py_truthy(vs)), v == V.Missing, v == V.Undef))


class IsMissingVariable(Contract):
    key = L + 'utils.py::is_missing_variable'
    property_ids = ('C05',)
    params = ['value_node', 'variables']

    def pre(self, A, st):
        return [('node', z3.And(value_node(A['value_node']), variable_node_wf(A['value_node']))), ('variables', variables_ok(A['variables']))]

    def post(self, A, st0, out):
        if out.kind == 'raise':
            return never_raises(out)
        return [('missing_iff_variable_without_value', out.value == V.Bool(missing_variable(A['value_node'], A['variables'])))]


class NullAndVariableWrapper(Contract):
    """null_and_variable_coercer_wrapper.<locals>.wrapper: absent node -> invalid; `null` -> null; a variable -> its runtime value
    (missing, or null at a non-null position -> invalid), never re-coerced; any other literal -> the wrapped coercer"""
    key = L + 'null_and_variable_coercer.py::null_and_variable_coercer_wrapper.<locals>.wrapper'
    property_ids = ('C05', 'C13')
    params = ['parent_node', 'node', 'ctx', 'variables', 'is_non_null_type']

    def args(self, en, names):
        self.A = super().args(en, names)
        self.res = fresh('wrapped_result')
        return self.A

    def pre(self, A, st):
        return [('node', z3.And(value_node(A['node']), variable_node_wf(A['node']))), ('variables', variables_ok(A['variables'])),
                ('flag', V.is_Bool(A['is_non_null_type']))]

    def ghost0(self, A):
        return {'called': z3.BoolVal(False), 'call_variables': V.Missing}

    def extra_env(self, en, A):
        def coercer(en, st, a, kw):
            return [(st.put_ghost('called', z3.BoolVal(True)).put_ghost('call_variables', en.read(kw.get('variables', V.None_), st)), self.res)]
        return {'coercer': PyFunc('coercer', coercer)}

    def post(self, A, st0, out):
        if out.kind == 'raise':
            return never_raises(out)
        n, vs, nn, r, st, g = A['node'], A['variables'], V.b(A['is_non_null_type']), out.value, out.st, out.st.ghost
        val = lookup(V.ditems(vs), var_name_of(n))
        cr = lambda v: z3.And(exact(r, 'CoercionResult'), cr_value(st, r) == v, z3.Not(py_truthy(cr_errors(st, r))), z3.Not(g['called']))
        absent = z3.Or(n == V.None_, n == V.Undef)
        isvar = exact(n, 'VariableNode')
        no_value = z3.Or(z3.Not(py_truthy(vs)), val == V.Missing, val == V.Undef, z3.And(val == V.None_, nn))
        return [('absent_is_invalid', z3.Implies(absent, cr(V.Undef))),
                ('null_literal_is_null', z3.Implies(exact(n, 'NullValueNode'), cr(V.None_))),
                ('variable_without_value_is_invalid', z3.Implies(z3.And(isvar, no_value), cr(V.Undef))),
                ('variable_contributes_its_runtime_value', z3.Implies(z3.And(isvar, z3.Not(no_value)), cr(val))),
                ('other_literals_go_to_the_wrapped_coercer', z3.Implies(z3.Not(z3.Or(absent, exact(n, 'NullValueNode'), isvar)),
                                                                        z3.And(r == self.res, g['called'], g['call_variables'] == vs)))]


class LiteralNonNull(Contract):
    """literal non_null_coercer: `null` is invalid; everything else goes to the inner coercer WITH the non-null flag set"""
    key = L + 'non_null_coercer.py::non_null_coercer'
    property_ids = ('C05',)
    params = ['parent_node', 'node', 'ctx', 'inner_coercer', 'variables', 'path']

    def args(self, en, names):
        self.A = super().args(en, names)
        self.res = fresh('inner_result')
        return self.A

    def pre(self, A, st):
        return [('node', value_node(A['node'])), ('inner', V.is_Fun(A['inner_coercer']))]

    def ghost0(self, A):
        return {'inner_flag': V.Missing, 'inner_vars': V.Missing}

    def call_model(self, en, st, f, a, kw):
        if z3.eq(f, self.A['inner_coercer']):
            st = st.put_ghost('inner_flag', en.read(kw.get('is_non_null_type', V.Bool(False)), st)).put_ghost('inner_vars', en.read(kw.get('variables', V.None_), st))
            return [(st, self.res)]
        return None

    def post(self, A, st0, out):
        if out.kind == 'raise':
            return never_raises(out)
        r, g = out.value, out.st.ghost
        isnull = exact(A['node'], 'NullValueNode')
        return [('null_is_invalid', z3.Implies(isnull, z3.And(exact(r, 'CoercionResult'), cr_value(out.st, r) == V.Undef))),
                ('inner_gets_the_non_null_flag', z3.Implies(z3.Not(isnull), z3.And(r == self.res, g['inner_flag'] == V.Bool(True), g['inner_vars'] == A['variables'])))]


class LiteralDirectives(Contract):
    """literal_directives_coercer: the wrapped coercer sees the same variables, path AND non-null flag; post-input-coercion hooks run on a valid
    value -- except for a top-level variable whose hooks already ran at variable coercion (they do run for input fields)"""
    key = L + 'directives_coercer.py::literal_directives_coercer'
    property_ids = ('C05', 'C13')
    params = ['parent_node', 'node', 'ctx', 'coercer', 'directives', 'variables', 'path', 'is_input_field', 'is_non_null_type']

    def args(self, en, names):
        self.A = super().args(en, names)
        self.inner_val, self.inner_ok = fresh('inner_value'), fresh('inner_ok', BoolS)
        self.hook_val, self.hook_raises = fresh('hooked_value'), fresh('hook_raises', BoolS)
        return self.A

    def pre(self, A, st):
        return [('node', z3.And(value_node(A['node']), A['node'] != V.None_, A['node'] != V.Undef)), ('coercer', V.is_Fun(A['coercer'])),
                ('directives', z3.Or(A['directives'] == V.None_, V.is_Fun(A['directives']))),
                ('flags', z3.And(V.is_Bool(A['is_input_field']), V.is_Bool(A['is_non_null_type'])))]

    def ghost0(self, A):
        return {'inner_flag': V.Missing, 'inner_vars': V.Missing, 'inner_path': V.Missing, 'hook_called': z3.BoolVal(False), 'hook_arg': V.Missing}

    def call_model(self, en, st, f, a, kw):
        A = self.A
        if z3.eq(f, A['coercer']):
            st = st.put_ghost('inner_flag', en.read(kw.get('is_non_null_type', V.Bool(False)), st)).put_ghost('inner_vars', en.read(kw.get('variables', V.None_), st)) \
                   .put_ghost('inner_path', en.read(kw.get('path', V.None_), st))
            st2, cr = new_cr(en, st, self.inner_ok, self.inner_val)
            return [(st2, cr)]
        if z3.eq(f, A['directives']):
            st = st.put_ghost('hook_called', z3.BoolVal(True)).put_ghost('hook_arg', en.read(a[1], st))
            e = V.Obj(fresh('ecls', IntS), fresh('eref', IntS))
            return en.branches(st, [(z3.Not(self.hook_raises), self.hook_val),
                                    (z3.And(self.hook_raises, exc_full_wf(e), V.oref(e) >= 0), Raise(e))])
        return None

    def post(self, A, st0, out):
        if out.kind == 'raise':
            return never_raises(out)
        g, r, st = out.st.ghost, out.value, out.st
        has_dirs = py_truthy(A['directives'])
        top_level_variable = z3.And(exact(A['node'], 'VariableNode'), z3.Not(V.b(A['is_input_field'])))
        valid = z3.And(self.inner_ok, self.inner_val != V.Undef)
        run_hooks = z3.And(has_dirs, z3.Not(top_level_variable), valid)
        return [('coercer_sees_the_same_request', z3.And(g['inner_flag'] == A['is_non_null_type'], g['inner_vars'] == A['variables'], g['inner_path'] == A['path'])),
                ('hooks_run_exactly_when_due', g['hook_called'] == run_hooks),
                ('hooks_get_the_coerced_value', z3.Implies(run_hooks, g['hook_arg'] == self.inner_val)),
                ('hooked_value_is_the_result', z3.Implies(z3.And(run_hooks, z3.Not(self.hook_raises)), z3.And(cr_ok(st, r), cr_value(st, r) == self.hook_val))),
                ('hook_failure_is_an_error', z3.Implies(z3.And(run_hooks, self.hook_raises), z3.Not(cr_ok(st, r)))),
                ('otherwise_unchanged', z3.Implies(z3.Not(run_hooks), z3.And(cr_ok(st, r) == self.inner_ok, z3.Implies(self.inner_ok, cr_value(st, r) == self.inner_val))))]


class LiteralInputFieldValue(Contract):
    """input_field_value_coercer (literal): an entry that is absent OR a variable without runtime value falls back to the field's default,
    else invalid (non-null) / skipped (nullable); otherwise the entry's value node is coerced -- with the same variables and path"""
    key = L + 'input_object_coercer.py::input_field_value_coercer'
    property_ids = ('C05', 'C13')
    params = ['input_field', 'parent_node', 'value_node', 'ctx', 'variables', 'path']

    def args(self, en, names):
        self.A = super().args(en, names)
        self.res = fresh('field_result')
        return self.A

    def pre(self, A, st):
        f, vn = A['input_field'], A['value_node']
        val = attr0(vn, 'value')
        return [('input_field', z3.And(exact(f, 'GraphQLInputField'), V.oref(f) >= 0, V.is_Fun(attr0(f, 'literal_coercer')),
                                       inst(attr0(f, 'graphql_type'), 'GraphQLType'), V.oref(attr0(f, 'graphql_type')) >= 0,
                                       z3.Or(attr0(f, 'default_value') == V.None_, ast_node(attr0(f, 'default_value'))))),
                ('entry', z3.Or(vn == V.Undef, z3.And(exact(vn, 'ObjectFieldNode'), V.oref(vn) >= 0, inst(val, 'ValueNode'), ast_node(val), variable_node_wf(val)))),
                ('variables', variables_ok(A['variables']))]

    def ghost0(self, A):
        return {'coerced_node': V.Missing, 'coerced_vars': V.Missing, 'coerced_path': V.Missing}

    def call_model(self, en, st, f, a, kw):
        if z3.eq(z3.simplify(f), z3.simplify(attr0(self.A['input_field'], 'literal_coercer'))):
            st = st.put_ghost('coerced_node', en.read(a[1], st)).put_ghost('coerced_vars', en.read(kw.get('variables', V.None_), st)) \
                   .put_ghost('coerced_path', en.read(kw.get('path', V.None_), st))
            return [(st, self.res)]
        return None

    def post(self, A, st0, out):
        if out.kind == 'raise':
            return never_raises(out)
        f, vn, vs, g, r = A['input_field'], A['value_node'], A['variables'], out.st.ghost, out.value
        no_value = z3.Or(vn == V.Undef, missing_variable(attr0(vn, 'value'), vs))
        default = attr0(f, 'default_value')
        nonnull = inst(attr0(f, 'graphql_type'), 'GraphQLNonNull')
        coerced = lambda node: z3.And(r == self.res, g['coerced_node'] == node, g['coerced_vars'] == vs, g['coerced_path'] == A['path'])
        return [('no_value_uses_the_default', z3.Implies(z3.And(no_value, default != V.None_), coerced(default))),
                ('no_value_no_default_non_null_is_invalid', z3.Implies(z3.And(no_value, default == V.None_, nonnull), z3.And(r == V.Undef, g['coerced_node'] == V.Missing))),
                ('no_value_no_default_nullable_is_skipped', z3.Implies(z3.And(no_value, default == V.None_, z3.Not(nonnull)), z3.And(r != V.Undef, V.is_Other(r), g['coerced_node'] == V.Missing))),
                ('provided_value_is_coerced', z3.Implies(z3.Not(no_value), coerced(attr0(vn, 'value'))))]


CONTRACTS = [IsMissingVariable(), NullAndVariableWrapper(), LiteralNonNull(), LiteralDirectives(), LiteralInputFieldValue()]
LEMMAS = []
