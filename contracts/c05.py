"""C05 / C13 -- argument coercion through literals: the null / variable wrapper, the non-null layer, the directive wrapper and the
per-field rule of input-object literals (GraphQL 6.4.1 CoerceArgumentValues, 3.10 input objects; C13: hook stages on the literal path)."""
import z3
from pyvc.values import *
from pyvc.contracts import Contract, Lemma
from pyvc.symexec import attr0, field0, PyFunc, PyTuple, Raise, KwBundle
from .common import *

L = 'tartiflette/coercers/literals/'


def value_node(n):
    return z3.Or(n == V.None_, n == V.Undef, z3.And(inst(n, 'ValueNode'), ast_node(n)))


def variables_ok(vs):
    return z3.Or(vs == V.None_, V.is_Dict(vs))


def var_name_of(n):
    return attr0(attr0(n, 'name'), 'value')


def variable_node_wf(n):
    return z3.Implies(exact(n, 'VariableNode'), z3.And(exact(attr0(n, 'name'), 'NameNode'), V.oref(attr0(n, 'name')) >= 0, V.is_Str(var_name_of(n))))


def missing_variable(n, vs):
    """the node is a variable without a runtime value: not provided, or provided as the UNDEFINED sentinel"""
    v = lookup(V.ditems(vs), var_name_of(n))
    return z3.And(exact(n, 'VariableNode'), z3.Or(z3.Not(py_truthy(vs)), v == V.Missing, v == V.Undef))


class IsMissingVariable(Contract):
    key = L + 'utils.py::is_missing_variable'
    property_ids = ('C05',)
    params = ['value_node', 'variables']

    def pre(self, A, st):
        return [('node', z3.And(value_node(A['value_node']), variable_node_wf(A['value_node']))), ('variables', variables_ok(A['variables']))]

    def post(self, A, st0, out):
        if out.kind == 'raise':
            return never_raises(out)
        return [('missing_iff_variable_without_value', out.value == V.Bool(missing_variable(A['value_node'], A['variables'])))]


class NullAndVariableWrapper(Contract):
    """null_and_variable_coercer_wrapper.<locals>.wrapper: absent node -> invalid; `null` -> null; a variable -> its runtime value
    (missing, or null at a non-null position -> invalid), never re-coerced; any other literal -> the wrapped coercer"""
    key = L + 'null_and_variable_coercer.py::null_and_variable_coercer_wrapper.<locals>.wrapper'
    property_ids = ('C05', 'C13')
    params = ['parent_node', 'node', 'ctx', 'variables', 'is_non_null_type']

    def args(self, en, names):
        self.A = super().args(en, names)
        self.res = fresh('wrapped_result')
        return self.A

    def pre(self, A, st):
        return [('node', z3.And(value_node(A['node']), variable_node_wf(A['node']))), ('variables', variables_ok(A['variables'])),
                ('flag', V.is_Bool(A['is_non_null_type']))]

    def ghost0(self, A):
        return {'called': z3.BoolVal(False), 'call_variables': V.Missing}

    def extra_env(self, en, A):
        def coercer(en, st, a, kw):
            return [(st.put_ghost('called', z3.BoolVal(True)).put_ghost('call_variables', en.read(kw.get('variables', V.None_), st)), self.res)]
        return {'coercer': PyFunc('coercer', coercer)}

    def post(self, A, st0, out):
        if out.kind == 'raise':
            return never_raises(out)
        n, vs, nn, r, st, g = A['node'], A['variables'], V.b(A['is_non_null_type']), out.value, out.st, out.st.ghost
        val = lookup(V.ditems(vs), var_name_of(n))
        cr = lambda v: z3.And(exact(r, 'CoercionResult'), cr_value(st, r) == v, z3.Not(py_truthy(cr_errors(st, r))), z3.Not(g['called']))
        absent = z3.Or(n == V.None_, n == V.Undef)
        isvar = exact(n, 'VariableNode')
        no_value = z3.Or(z3.Not(py_truthy(vs)), val == V.Missing, val == V.Undef, z3.And(val == V.None_, nn))
        return [('absent_is_invalid', z3.Implies(absent, cr(V.Undef))),
                ('null_literal_is_null', z3.Implies(exact(n, 'NullValueNode'), cr(V.None_))),
                ('variable_without_value_is_invalid', z3.Implies(z3.And(isvar, no_value), cr(V.Undef))),
                ('variable_contributes_its_runtime_value', z3.Implies(z3.And(isvar, z3.Not(no_value)), cr(val))),
                ('other_literals_go_to_the_wrapped_coercer', z3.Implies(z3.Not(z3.Or(absent, exact(n, 'NullValueNode'), isvar)),
                                                                        z3.And(r == self.res, g['called'], g['call_variables'] == vs)))]


class LiteralNonNull(Contract):
    """literal non_null_coercer: `null` is invalid; everything else goes to the inner coercer WITH the non-null flag set"""
    key = L + 'non_null_coercer.py::non_null_coercer'
    property_ids = ('C05',)
    params = ['parent_node', 'node', 'ctx', 'inner_coercer', 'variables', 'path']

    def args(self, en, names):
        self.A = super().args(en, names)
        self.res = fresh('inner_result')
        return self.A

    def pre(self, A, st):
        return [('node', value_node(A['node'])), ('inner', V.is_Fun(A['inner_coercer']))]

    def ghost0(self, A):
        return {'inner_flag': V.Missing, 'inner_vars': V.Missing}

    def call_model(self, en, st, f, a, kw):
        if z3.eq(f, self.A['inner_coercer']):
            st = st.put_ghost('inner_flag', en.read(kw.get('is_non_null_type', V.Bool(False)), st)).put_ghost('inner_vars', en.read(kw.get('variables', V.None_), st))
            return [(st, self.res)]
        return None

    def post(self, A, st0, out):
        if out.kind == 'raise':
            return never_raises(out)
        r, g = out.value, out.st.ghost
        isnull = exact(A['node'], 'NullValueNode')
        return [('null_is_invalid', z3.Implies(isnull, z3.And(exact(r, 'CoercionResult'), cr_value(out.st, r) == V.Undef))),
                ('inner_gets_the_non_null_flag', z3.Implies(z3.Not(isnull), z3.And(r == self.res, g['inner_flag'] == V.Bool(True), g['inner_vars'] == A['variables'])))]


class LiteralDirectives(Contract):
    """literal_directives_coercer: the wrapped coercer sees the same variables, path AND non-null flag; post-input-coercion hooks run on a valid
    value -- except for a top-level variable whose hooks already ran at variable coercion (they do run for input fields)"""
    key = L + 'directives_coercer.py::literal_directives_coercer'
    property_ids = ('C05', 'C13')
    params = ['parent_node', 'node', 'ctx', 'coercer', 'directives', 'variables', 'path', 'is_input_field', 'is_non_null_type']

    def args(self, en, names):
        self.A = super().args(en, names)
        self.inner_val, self.inner_ok = fresh('inner_value'), fresh('inner_ok', BoolS)
        self.hook_val, self.hook_raises = fresh('hooked_value'), fresh('hook_raises', BoolS)
        return self.A

    def pre(self, A, st):
        return [('node', z3.And(value_node(A['node']), A['node'] != V.None_, A['node'] != V.Undef)), ('coercer', V.is_Fun(A['coercer'])),
                ('directives', z3.Or(A['directives'] == V.None_, V.is_Fun(A['directives']))),
                ('flags', z3.And(V.is_Bool(A['is_input_field']), V.is_Bool(A['is_non_null_type'])))]

    def ghost0(self, A):
        return {'inner_flag': V.Missing, 'inner_vars': V.Missing, 'inner_path': V.Missing, 'hook_called': z3.BoolVal(False), 'hook_arg': V.Missing}

    def call_model(self, en, st, f, a, kw):
        A = self.A
        if z3.eq(f, A['coercer']):
            st = st.put_ghost('inner_flag', en.read(kw.get('is_non_null_type', V.Bool(False)), st)).put_ghost('inner_vars', en.read(kw.get('variables', V.None_), st)) \
                   .put_ghost('inner_path', en.read(kw.get('path', V.None_), st))
            st2, cr = new_cr(en, st, self.inner_ok, self.inner_val)
            return [(st2, cr)]
        if z3.eq(f, A['directives']):
            st = st.put_ghost('hook_called', z3.BoolVal(True)).put_ghost('hook_arg', en.read(a[1], st))
            e = V.Obj(fresh('ecls', IntS), fresh('eref', IntS))
            return en.branches(st, [(z3.Not(self.hook_raises), self.hook_val),
                                    (z3.And(self.hook_raises, exc_full_wf(e), V.oref(e) >= 0), Raise(e))])
        return None

    def post(self, A, st0, out):
        if out.kind == 'raise':
            return never_raises(out)
        g, r, st = out.st.ghost, out.value, out.st
        has_dirs = py_truthy(A['directives'])
        top_level_variable = z3.And(exact(A['node'], 'VariableNode'), z3.Not(V.b(A['is_input_field'])))
        valid = z3.And(self.inner_ok, self.inner_val != V.Undef)
        run_hooks = z3.And(has_dirs, z3.Not(top_level_variable), valid)
        return [('coercer_sees_the_same_request', z3.And(g['inner_flag'] == A['is_non_null_type'], g['inner_vars'] == A['variables'], g['inner_path'] == A['path'])),
                ('hooks_run_exactly_when_due', g['hook_called'] == run_hooks),
                ('hooks_get_the_coerced_value', z3.Implies(run_hooks, g['hook_arg'] == self.inner_val)),
                ('hooked_value_is_the_result', z3.Implies(z3.And(run_hooks, z3.Not(self.hook_raises)), z3.And(cr_ok(st, r), cr_value(st, r) == self.hook_val))),
                ('hook_failure_is_an_error', z3.Implies(z3.And(run_hooks, self.hook_raises), z3.Not(cr_ok(st, r)))),
                ('otherwise_unchanged', z3.Implies(z3.Not(run_hooks), z3.And(cr_ok(st, r) == self.inner_ok, z3.Implies(self.inner_ok, cr_value(st, r) == self.inner_val))))]


class LiteralInputFieldValue(Contract):
    """input_field_value_coercer (literal): an entry that is absent OR a variable without runtime value falls back to the field's default,
    else invalid (non-null) / skipped (nullable); otherwise the entry's value node is coerced -- with the same variables and path"""
    key = L + 'input_object_coercer.py::input_field_value_coercer'
    property_ids = ('C05', 'C13')
    params = ['input_field', 'parent_node', 'value_node', 'ctx', 'variables', 'path']

    def args(self, en, names):
        self.A = super().args(en, names)
        self.res = fresh('field_result')
        return self.A

    def pre(self, A, st):
        f, vn = A['input_field'], A['value_node']
        val = attr0(vn, 'value')
        return [('input_field', z3.And(exact(f, 'GraphQLInputField'), V.oref(f) >= 0, V.is_Fun(attr0(f, 'literal_coercer')),
                                       inst(attr0(f, 'graphql_type'), 'GraphQLType'), V.oref(attr0(f, 'graphql_type')) >= 0,
                                       z3.Or(attr0(f, 'default_value') == V.None_, ast_node(attr0(f, 'default_value'))))),
                ('entry', z3.Or(vn == V.Undef, z3.And(exact(vn, 'ObjectFieldNode'), V.oref(vn) >= 0, inst(val, 'ValueNode'), ast_node(val), variable_node_wf(val)))),
                ('variables', variables_ok(A['variables']))]

    def ghost0(self, A):
        return {'coerced_node': V.Missing, 'coerced_vars': V.Missing, 'coerced_path': V.Missing}

    def call_model(self, en, st, f, a, kw):
        if z3.eq(z3.simplify(f), z3.simplify(attr0(self.A['input_field'], 'literal_coercer'))):
            st = st.put_ghost('coerced_node', en.read(a[1], st)).put_ghost('coerced_vars', en.read(kw.get('variables', V.None_), st)) \
                   .put_ghost('coerced_path', en.read(kw.get('path', V.None_), st))
            return [(st, self.res)]
        return None

    def post(self, A, st0, out):
        if out.kind == 'raise':
            return never_raises(out)
        f, vn, vs, g, r = A['input_field'], A['value_node'], A['variables'], out.st.ghost, out.value
        no_value = z3.Or(vn == V.Undef, missing_variable(attr0(vn, 'value'), vs))
        default = attr0(f, 'default_value')
        nonnull = inst(attr0(f, 'graphql_type'), 'GraphQLNonNull')
        coerced = lambda node: z3.And(r == self.res, g['coerced_node'] == node, g['coerced_vars'] == vs, g['coerced_path'] == A['path'])
        return [('no_value_uses_the_default', z3.Implies(z3.And(no_value, default != V.None_), coerced(default))),
                ('no_value_no_default_non_null_is_invalid', z3.Implies(z3.And(no_value, default == V.None_, nonnull), z3.And(r == V.Undef, g['coerced_node'] == V.Missing))),
                ('no_value_no_default_nullable_is_skipped', z3.Implies(z3.And(no_value, default == V.None_, z3.Not(nonnull)), z3.And(r != V.Undef, V.is_Other(r), g['coerced_node'] == V.Missing))),
                ('provided_value_is_coerced', z3.Implies(z3.Not(no_value), coerced(attr0(vn, 'value'))))]



class ArgumentCoercer(Contract):
    """argument_coercer == one iteration of CoerceArgumentValues (GraphQL 6.4.1): which value an argument contributes (literal coerced to the
    declared type, variable -> its coerced runtime value, omitted -> default or absent, null kept distinct from absent), when the field fails
    (null / missing at a non-null argument, ill-typed literal), and that the argument's hook chain runs exactly once on a valid value"""
    key = 'tartiflette/coercers/argument.py::argument_coercer'
    property_ids = ('C05', 'C13')
    params = ['argument_definition', 'node', 'argument_node', 'variable_values', 'ctx', 'directives']
    modifies_fields = ('value', 'errors')

    def args(self, en, names):
        self.A = super().args(en, names)
        self.lit_val, self.lit_ok = fresh('literal_value'), fresh('literal_ok', BoolS)
        self.hook_res = fresh('hooked_result')
        return self.A

    def pre(self, A, st):
        d, an, vs = A['argument_definition'], A['argument_node'], A['variable_values']
        t, val = attr0(d, 'graphql_type'), attr0(an, 'value')
        return [('definition', z3.And(exact(d, 'GraphQLArgument'), V.oref(d) >= 0, V.is_Str(attr0(d, 'name')), inst(t, 'GraphQLType'), V.oref(t) >= 0,
                                      z3.Or(attr0(d, 'default_value') == V.None_, z3.And(inst(attr0(d, 'default_value'), 'ValueNode'), ast_node(attr0(d, 'default_value')))),
                                      V.is_Fun(attr0(d, 'literal_coercer')))),
                ('argument_node', z3.Or(an == V.None_, z3.And(exact(an, 'ArgumentNode'), V.oref(an) >= 0, inst(val, 'ValueNode'), ast_node(val), variable_node_wf(val)))),
                ('node', ast_node(A['node'])),
                ('variables', variables_ok(vs)),
                # coerced variable maps hold no UNDEFINED entry (coerce_variables, C04: invalid values abort the request, missing ones are left out)
                ('variable_value_is_a_value', lookup(V.ditems(vs), var_name_of(val)) != V.Undef),
                ('directives', z3.And(z3.Or(A['directives'] == V.None_, V.is_Fun(A['directives'])), A['directives'] != attr0(d, 'literal_coercer')))]

    def ghost0(self, A):
        return {'lit_calls': z3.IntVal(0), 'lit_args': V.Missing, 'hook_calls': z3.IntVal(0), 'hook_args': V.Missing}

    def call_model(self, en, st, f, a, kw):
        A = self.A
        if z3.eq(z3.simplify(f), z3.simplify(attr0(A['argument_definition'], 'literal_coercer'))):
            shape = len(a) == 3 and set(kw) == {'variables'}
            rec = V.Tuple(mklist(*[en.read(x, st) for x in a], en.read(kw['variables'], st))) if shape else V.Missing
            st = st.put_ghost('lit_calls', st.ghost['lit_calls'] + 1).put_ghost('lit_args', rec)
            st2, cr = new_cr(en, st, self.lit_ok, self.lit_val)
            return [(st2, cr)]
        if z3.eq(f, A['directives']):
            shape = len(a) == 5 and set(kw) == {'context_coercer'}
            rec = V.Tuple(mklist(*[en.read(x, st) for x in a], en.read(kw['context_coercer'], st))) if shape else V.Missing
            return [(st.put_ghost('hook_calls', st.ghost['hook_calls'] + 1).put_ghost('hook_args', rec), self.hook_res)]
        return None

    def post(self, A, st0, out):
        d, an, vs, g, r, st = A['argument_definition'], A['argument_node'], A['variable_values'], out.st.ghost, out.value, out.st
        t, default, lit = attr0(d, 'graphql_type'), attr0(d, 'default_value'), attr0(an, 'value')
        if out.kind == 'raise':
            # the only failure: a SCHEMA default that is ill-typed for its own argument, used because the argument is omitted -- building the error
            # message dereferences the absent argument node (AttributeError); the field still fails, with that exception as its error
            return [('raises_only_for_an_ill_typed_schema_default_of_an_omitted_argument',
                     z3.And(an == V.None_, default != V.None_, self.lit_ok, self.lit_val == V.Undef, exact(out.value, 'AttributeError'), g['hook_calls'] == 0))]
        present = an != V.None_
        isvar = z3.And(present, exact(lit, 'VariableNode'))
        val = lookup(V.ditems(vs), var_name_of(lit))
        has_value = z3.If(isvar, z3.And(py_truthy(vs), val != V.Missing), present)
        is_null = z3.If(isvar, z3.And(has_value, val == V.None_), z3.And(present, exact(lit, 'NullValueNode')))
        nn = inst(t, 'GraphQLNonNull')
        use_default = z3.And(z3.Not(has_value), default != V.None_)
        field_error = z3.And(z3.Not(use_default), z3.Or(z3.Not(has_value), is_null), nn)
        provided = z3.And(z3.Not(use_default), z3.Not(field_error), has_value)
        absent = z3.And(z3.Not(use_default), z3.Not(field_error), z3.Not(has_value))
        literal = z3.And(provided, z3.Not(isvar), z3.Not(exact(lit, 'NullValueNode')))
        coerced = z3.Or(use_default, literal)                                  # the declared type's literal coercer decides the entry
        # the candidate entry before hooks
        c_ok = z3.If(coerced, self.lit_ok, True)
        c_val = z3.If(coerced, self.lit_val, z3.If(isvar, val, V.None_))
        invalid = z3.And(coerced, self.lit_ok, self.lit_val == V.Undef)       # ill-typed literal
        hooks = z3.And(z3.Or(provided, use_default), c_ok, z3.Not(invalid), py_truthy(A['directives']))
        one_error = z3.And(exact(r, 'CoercionResult'), V.is_List(cr_errors(st, r)), length(V.items(cr_errors(st, r))) == 1)
        return [('literal_coercer_runs_exactly_when_a_literal_or_default_is_used', g['lit_calls'] == z3.If(coerced, 1, 0)),
                ('on_the_default_or_the_literal_with_the_request_variables',
                 z3.Implies(coerced, g['lit_args'] == V.Tuple(mklist(attr0(d, 'definition'), z3.If(use_default, default, lit), A['ctx'], vs)))),
                ('omitted_without_default_is_absent', z3.Implies(absent, z3.And(r == V.Undef, g['hook_calls'] == 0))),
                ('null_or_missing_at_non_null_fails_the_field', z3.Implies(field_error, z3.And(one_error, g['hook_calls'] == 0, g['lit_calls'] == 0))),
                ('ill_typed_literal_fails_the_field', z3.Implies(invalid, z3.And(one_error, g['hook_calls'] == 0, an != V.None_))),
                ('coercion_errors_are_kept', z3.Implies(z3.And(coerced, z3.Not(self.lit_ok)), z3.And(exact(r, 'CoercionResult'), z3.Not(cr_ok(st, r)), g['hook_calls'] == 0))),
                ('hooks_run_exactly_once_on_a_valid_value', g['hook_calls'] == z3.If(hooks, 1, 0)),
                ('hooks_get_node_definition_argument_value_and_context',
                 z3.Implies(hooks, z3.And(r == self.hook_res, g['hook_args'] == V.Tuple(mklist(A['node'], attr0(d, 'definition'), an, c_val, A['ctx'], A['ctx']))))),
                ('without_hooks_the_entry_is_the_value', z3.Implies(z3.And(z3.Or(provided, use_default), c_ok, z3.Not(invalid), z3.Not(py_truthy(A['directives']))),
                                                                    z3.And(exact(r, 'CoercionResult'), cr_ok(st, r), cr_value(st, r) == c_val)))]



# ---- coerce_arguments: the dictionary handed to a resolver / hook (GraphQL 6.4.1), pointwise for an arbitrary argument definition
from pyvc.symexec import coro_raises, coro_exc, coro_value, LoopContract, PyMapped     # noqa: E402
from pyvc.values import UNFOLD, ForallList                                             # noqa: E402
from pyvc.builtins import gather_outcomes                                               # noqa: E402

ArgCoro = z3.Function('ArgumentCoercionOf', V, V, V, V, V, V)     # (definition, node, argument node or None, variables, ctx): the un-awaited coroutine


def arg_name_of(n):
    return attr0(attr0(n, 'name'), 'value')


# {argument_node.name.value: argument_node for argument_node in nodes}: later entries win (names are unique in validated documents)
ArgMap = z3.RecFunction('ArgumentNodesByNameUpTo', VL, IntS, VL)
_an = z3.Const('am_nodes', VL)
_ak = z3.Int('am_k')
_argmap = lambda ns, k: z3.If(k <= 0, VL.nil, assoc_set(ArgMap(ns, k - 1), arg_name_of(nth(ns, k - 1)), nth(ns, k - 1)))
z3.RecAddDefinition(ArgMap, [_an, _ak], _argmap(_an, _ak))
UNFOLD['ArgumentNodesByNameUpTo'] = _argmap


def node_for(nodes, name):
    v = lookup(ArgMap(nodes, length(nodes)), name)
    return z3.If(v == V.Missing, V.None_, v)


AllArgNodes = ForallList('argument_node', lambda n: z3.And(exact(n, 'ArgumentNode'), V.oref(n) >= 0, exact(attr0(n, 'name'), 'NameNode'), V.oref(attr0(n, 'name')) >= 0,
                                                           V.is_Str(arg_name_of(n))))


AllArgMapEntries = ForallList('argument_map_entry', lambda p: z3.And(exact(V.snd(p), 'ArgumentNode'), V.oref(V.snd(p)) >= 0))


def arg_coro(p, A):
    d = V.snd(p)
    return ArgCoro(d, A['node'], node_for(V.items(attr0(A['node'], 'arguments')), attr0(d, 'name')), A['variable_values'], A['ctx'])


def arg_def_entry_wf(p, node, vv, ctx):
    d = V.snd(p)
    c = arg_coro(p, {'node': node, 'variable_values': vv, 'ctx': ctx})
    r, e = coro_value(c), coro_exc(c)
    return z3.And(V.is_Pair(p), V.is_Str(V.fst(p)), exact(d, 'GraphQLArgument'), V.oref(d) >= 0, attr0(d, 'name') == V.fst(p), V.is_Fun(attr0(d, 'coercer')),
                  exact(c, 'coroutine'),
                  # what one argument's coercion yields (ArgumentCoercer / the hook chain): UNDEFINED, a CoercionResult, or a hook's own value; or it fails
                  r != V.Missing, z3.Not(inst(r, 'Exception')),
                  z3.Implies(exact(r, 'CoercionResult'), z3.And(V.oref(r) >= 0, z3.Or(attr0(r, 'errors') == V.None_, V.is_List(attr0(r, 'errors'))))),
                  inst(e, 'Exception'), V.oref(e) >= 0, exc_full_wf(e))


AllArgDefs = ForallList('argument_definition_entry', arg_def_entry_wf, param_sorts=[V, V, V])


def arg_outcome(c):
    return z3.If(coro_raises(c), coro_exc(c), coro_value(c))


def arg_fails(c):
    r = coro_value(c)
    return z3.Or(coro_raises(c), z3.And(exact(r, 'CoercionResult'), py_truthy(attr0(r, 'errors'))))


def arg_entry(c):
    """the dictionary entry contributed by one argument: absent (Missing) for UNDEFINED, else the coerced value"""
    r = coro_value(c)
    return z3.If(arg_fails(c), V.Missing, z3.If(r == V.Undef, V.Missing, z3.If(exact(r, 'CoercionResult'), attr0(r, 'value'), r)))


AnyArgFails = z3.RecFunction('SomeArgumentFailsUpTo', VL, V, V, V, IntS, BoolS)
_dl = z3.Const('af_defs', VL)
_nd, _vs, _cx = z3.Consts('af_node af_vars af_ctx', V)
_anyf = lambda dl, nd, vs, cx, k: z3.If(k <= 0, False, z3.Or(AnyArgFails(dl, nd, vs, cx, k - 1), arg_fails(arg_coro(nth(dl, k - 1), {'node': nd, 'variable_values': vs, 'ctx': cx}))))
z3.RecAddDefinition(AnyArgFails, [_dl, _nd, _vs, _cx, _ak], _anyf(_dl, _nd, _vs, _cx, _ak))
UNFOLD['SomeArgumentFailsUpTo'] = _anyf


class CoerceArguments(Contract):
    """coerce_arguments: every argument DEFINITION is coerced exactly once (with the argument node of its own name, or none), and the dictionary
    pairs each definition's name with its own outcome: absent when the coercion says absent, the value otherwise; any failure fails the
    whole field with every error gathered.  Proved for an arbitrary definition index j0 (hence for all)."""
    key = 'tartiflette/coercers/arguments.py::coerce_arguments'
    property_ids = ('C05', 'C08')
    params = ['argument_definitions', 'node', 'variable_values', 'ctx', 'coercer']
    timeout_ms = 30000

    def args(self, en, names):
        self.A = super().args(en, names)
        self.j0 = z3.Int('j0')
        return self.A

    def defs(self, A=None):
        return V.ditems((A or self.A)['argument_definitions'])

    def pre(self, A, st):
        defs, node = self.defs(A), A['node']
        x = z3.Int('ux_')
        return [('node', z3.And(z3.Or(exact(node, 'FieldNode'), exact(node, 'DirectiveNode')), V.oref(node) >= 0, V.is_List(attr0(node, 'arguments')), AllArgNodes(V.items(attr0(node, 'arguments'))))),
                ('definitions', z3.And(V.is_Dict(A['argument_definitions']), AllArgDefs(defs, node, A['variable_values'], A['ctx']))),
                ('strategy', V.is_Fun(A['coercer'])),
                ('arbitrary_position', z3.And(self.j0 >= 0, self.j0 < length(defs))),
                ('dict_keys_unique', z3.ForAll([x], z3.Implies(z3.And(x >= 0, x < length(defs), V.fst(nth(defs, x)) == V.fst(nth(defs, self.j0))), x == self.j0),
                                               patterns=[nth(defs, x)]))]

    def ghost0(self, A):
        return {'strategy_calls': z3.IntVal(0)}

    def call_model(self, en, st, f, a, kw):
        A = self.A
        f = z3.simplify(f)
        if z3.is_app(f) and f.decl().kind() == z3.Z3_OP_SELECT and f.arg(0).eq(field0('coercer')):
            if len(a) != 5 or kw:
                return None
            t = [en.read(x, st) for x in a]
            return [(st, ArgCoro(*t))]          # an un-awaited coroutine object
        if z3.eq(f, A['coercer']):
            # the arguments-coercer strategy (gather_arguments_coercer / sync_arguments_coercer and user replacements): runs every coroutine once and
            # returns their outcomes BY POSITION, failures as exception values (assumed contract of the strategy)
            if len(a) != 1 or not (isinstance(a[0], tuple) and a[0][0] == '*') or kw:
                return None
            star = a[0][1]
            st = st.put_ghost('strategy_calls', st.ghost['strategy_calls'] + 1)
            if isinstance(star, PyMapped):
                R = V.items(star.term)
                res = gather_outcomes(R)
                return [(st.assume(length(res) == star.n), PyMapped(V.List(res), star.n, star.elem))]
            t = en.read(star, st)
            return [(st.assume(V.is_List(t)), V.List(gather_outcomes(V.items(t))))]
        return None

    def _invd(self, en, st, k, st0):
        nodes = V.items(attr0(self.A['node'], 'arguments'))
        d = en.read(st.env['__dictcomp0'], st)
        return {'nodes_by_name': d == V.Dict(ArgMap(nodes, k)), 'entries_are_argument_nodes': AllArgMapEntries(V.ditems(d))}

    def _inv(self, en, st, k, st0):
        A, defs, j0 = self.A, self.defs(), self.j0
        c0 = arg_coro(nth(defs, j0), A)
        cv = V.ditems(en.read(st.env['coerced_values'], st))
        ce = en.read(st.env['coercion_errors'], st)
        return {'own_outcome_under_own_name': lookup(cv, V.fst(nth(defs, j0))) == z3.If(j0 < k, arg_entry(c0), V.Missing),
                'errors_iff_some_argument_failed': z3.And(V.is_List(ce), py_truthy(ce) == AnyArgFails(defs, A['node'], A['variable_values'], A['ctx'], k)),
                'is_map': V.is_Dict(en.read(st.env['coerced_values'], st))}

    @property
    def loops(self):
        return {('dictcomp', 0): LoopContract(self._invd), 0: LoopContract(self._inv)}

    def post(self, A, st0, out):
        defs = self.defs(A)
        anyf = AnyArgFails(defs, A['node'], A['variable_values'], A['ctx'], length(defs))
        if out.kind == 'raise':
            return [('fails_only_when_some_argument_failed', z3.And(exact(out.value, 'MultipleException'), anyf))]
        c0 = arg_coro(nth(defs, self.j0), A)
        r = out.value
        return [('is_map', V.is_Dict(r)), ('no_failure_is_swallowed', z3.Not(anyf)),
                ('each_definition_contributes_its_own_outcome', lookup(V.ditems(r), V.fst(nth(defs, self.j0))) == arg_entry(c0))]



# ---- get_literal_coercer: the literal coercer chain mirrors the declared type, wrapper by wrapper
from specs import inputs as SI                                  # noqa: E402
from pyvc.symexec import fun_id                                 # noqa: E402
from pyvc.builtins import partial_bind                          # noqa: E402

K_LLIST, K_LNONNULL = L + 'list_coercer.py::list_coercer', L + 'non_null_coercer.py::non_null_coercer'
LEAF_LITERAL_CLASSES = [c for c in T.subclasses('GraphQLType') if T.resolve_attr(c, 'literal_coercer') is not None]


def lit_wrapper_of(t):
    """the wrapper get_literal_coercer records for a wrapping type: the list coercer told whether ITS items are non-null, or the non-null coercer"""
    w = SI.wrapped_of(t)
    return z3.If(SI.is_list_t(t), V.Fun(fun_id(K_LLIST), partial_bind(VL.nil, [], [('is_non_null_item_type', V.Bool(SI.is_non_null_type(w)))])),
                 V.Fun(fun_id(K_LNONNULL), VL.nil))


def lit_wrap(w, c):
    """partial(w, inner_coercer=c)"""
    return V.Fun(V.fname(w), partial_bind(V.fbound(w), [], [('inner_coercer', c)]))


LitT = z3.RecFunction('LiteralCoercerOfType', V, V)
TyWfL = z3.RecFunction('TyWfLiteral', V, BoolS)
_lt = z3.Const('lt_', V)
_litT = lambda t: z3.If(SI.is_wrapping_t(t), lit_wrap(lit_wrapper_of(t), LitT(SI.wrapped_of(t))), attr0(t, 'literal_coercer'))
_tywfl = lambda t: z3.And(SI.cls_is(t, 'GraphQLType'), V.oref(t) >= 0,
    z3.If(SI.is_wrapping_t(t),
          z3.And(z3.Or(SI.is_list_t(t), SI.is_non_null_type(t)),
                 z3.Or(SI.cls_is(attr0(t, 'gql_type'), 'GraphQLType'),
                       z3.And(V.is_Str(attr0(t, 'gql_type')), SI.cls_is(attr0(t, '_schema'), 'GraphQLSchema'), V.is_Dict(attr0(attr0(t, '_schema'), 'type_definitions')),
                              SI.find_type(attr0(t, '_schema'), attr0(t, 'gql_type')) != V.Missing)),
                 TyWfL(SI.wrapped_of(t))),
          z3.And(z3.Or(*[z3.And(V.is_Obj(t), V.ocls(t) == T.cid[c]) for c in LEAF_LITERAL_CLASSES]), V.is_Fun(attr0(t, 'literal_coercer')))))
z3.RecAddDefinition(LitT, [_lt], _litT(_lt))
z3.RecAddDefinition(TyWfL, [_lt], _tywfl(_lt))
UNFOLD['LiteralCoercerOfType'] = _litT
UNFOLD['TyWfLiteral'] = _tywfl

RebL = z3.RecFunction('RebuildLiteral', VL, V, V)       # apply the recorded wrappers from the last one outwards
_lws = z3.Const('lws_', VL)
_lc = z3.Const('lc_', V)
_rebl = lambda ws, c: z3.If(length(ws) <= 0, c, RebL(take(ws, length(ws) - 1), lit_wrap(nth(ws, length(ws) - 1), c)))
z3.RecAddDefinition(RebL, [_lws, _lc], _rebl(_lws, _lc))
UNFOLD['RebuildLiteral'] = _rebl
AllLitWrappers = ForallList('literal_wrapper', lambda w: V.is_Fun(w))


class GetLiteralCoercer(Contract):
    """get_literal_coercer(T) is, wrapper by wrapper, the chain the declared type prescribes: a list layer (told whether its ITEMS are non-null)
    for every list wrapper, a non-null layer for every non-null wrapper, in the type's own nesting order, around the named type's baked
    literal coercer"""
    key = L + 'compute.py::get_literal_coercer'
    property_ids = ('C05',)
    params = ['graphql_type']

    def args(self, en, names):
        self.A = super().args(en, names)
        return self.A

    def pre(self, A, st):
        return [('type_wf', TyWfL(A['graphql_type']))]

    def _inv0(self, en, st, k, st0):
        ws = V.items(en.read(st.env['wrapper_coercers'], st))
        inner = st.env['inner_type']
        return {'cursor_wf': TyWfL(inner), 'wrappers': AllLitWrappers(ws), 'rebuild': RebL(ws, LitT(inner)) == LitT(self.A['graphql_type'])}

    def _inv1(self, en, st, k, st0):
        ws = V.items(en.read(st.env['wrapper_coercers'], st))
        c = en.read(st.env['coercer'], st)
        n = length(ws)
        return {'closure': V.is_Fun(c), 'rebuild': RebL(take(ws, n - k), c) == LitT(self.A['graphql_type'])}

    @property
    def loops(self):
        return {0: LoopContract(self._inv0), 1: LoopContract(self._inv1)}

    def post(self, A, st0, out):
        if out.kind == 'raise':
            return never_raises(out)
        return [('mirrors_the_declared_type', out.value == LitT(A['graphql_type']))]



# ---- literal leaf coercers (bodies under the null / variable wrapper)
ScLit_raises = z3.Function('ScalarParseLiteralRaises', V, V, BoolS)     # (scalar type, value node): user / builtin parse_literal (builtin ones: C10)
ScLit_val = z3.Function('ScalarParseLiteralValue', V, V, V)


class LiteralScalarBody(Contract):
    """literal scalar_coercer: the scalar's parse_literal decides; a raise or UNDEFINED is an invalid value, never an exception, never an error list"""
    key = L + 'scalar_coercer.py::scalar_coercer'
    decorators = ['null_and_variable_coercer_wrapper']
    property_ids = ('C05',)
    params = ['parent_node', 'node', 'ctx', 'scalar_type', 'variables', 'path']

    def args(self, en, names):
        self.A = super().args(en, names)
        return self.A

    def pre(self, A, st):
        t = A['scalar_type']
        return [('scalar_type', z3.And(exact(t, 'GraphQLScalarType'), V.oref(t) >= 0)), ('node', z3.And(inst(A['node'], 'ValueNode'), ast_node(A['node'])))]

    def getattr_hook(self, en, st, v, attr):
        if attr == 'parse_literal' and z3.eq(v, self.A['scalar_type']):
            def parse(en, s, a, kw, t=v):
                n = en.read(a[0], s)
                e = V.Obj(fresh('ecls', IntS), fresh('eref', IntS))
                return en.branches(s, [(z3.Not(ScLit_raises(t, n)), ScLit_val(t, n)), (z3.And(ScLit_raises(t, n), en.is_instance_of(e, 'Exception')), Raise(e))])
            return [(st, PyFunc('parse_literal', parse))]
        return None

    def post(self, A, st0, out):
        if out.kind == 'raise':
            return never_raises(out)
        t, n, r = A['scalar_type'], A['node'], out.value
        bad = z3.Or(ScLit_raises(t, n), ScLit_val(t, n) == V.Undef)
        return [('parse_literal_decides', z3.And(exact(r, 'CoercionResult'), cr_ok(out.st, r), cr_value(out.st, r) == z3.If(bad, V.Undef, ScLit_val(t, n))))]


EVLit_raises = z3.Function('EnumValueLiteralHookRaises', V, V, BoolS)   # (enum value definition, name): the value's own hook chain
EVLit_val = z3.Function('EnumValueLiteralHookValue', V, V, V)
AllEnumValues = ForallList('enum_value_entry', lambda p: z3.And(V.is_Pair(p), exact(V.snd(p), 'GraphQLEnumValue'), V.oref(V.snd(p)) >= 0, V.is_Fun(attr0(V.snd(p), 'literal_coercer'))))


class LiteralEnumBody(Contract):
    """literal enum_coercer: only an enum literal naming a declared value is accepted; its value goes through THAT value's hook chain once"""
    key = L + 'enum_coercer.py::enum_coercer'
    decorators = ['null_and_variable_coercer_wrapper']
    property_ids = ('C05', 'C13')
    params = ['parent_node', 'node', 'ctx', 'enum_type', 'variables', 'path']

    def args(self, en, names):
        self.A = super().args(en, names)
        return self.A

    def pre(self, A, st):
        t, n = A['enum_type'], A['node']
        return [('enum_type', z3.And(exact(t, 'GraphQLEnumType'), V.oref(t) >= 0, V.is_Dict(attr0(t, '_value_map')), AllEnumValues(V.ditems(attr0(t, '_value_map'))))),
                ('node', z3.And(inst(n, 'ValueNode'), ast_node(n), z3.Implies(exact(n, 'EnumValueNode'), V.is_Str(attr0(n, 'value')))))]

    def ghost0(self, A):
        return {'hook_calls': z3.IntVal(0), 'hook_args': V.Missing}

    def call_model(self, en, st, f, a, kw):
        f = z3.simplify(f)
        if z3.is_app(f) and f.decl().kind() == z3.Z3_OP_SELECT and f.arg(0).eq(field0('literal_coercer')):
            ev = f.arg(1)
            name = en.read(a[1], st)
            st = st.put_ghost('hook_calls', st.ghost['hook_calls'] + 1).put_ghost('hook_args', V.Tuple(mklist(ev, *[en.read(x, st) for x in a])))
            e = V.Obj(fresh('ecls', IntS), fresh('eref', IntS))
            return en.branches(st, [(z3.Not(EVLit_raises(ev, name)), EVLit_val(ev, name)),
                                    (z3.And(EVLit_raises(ev, name), en.is_instance_of(e, 'Exception'), z3.Not(en.is_instance_of(e, 'KeyError'))), Raise(e))])
        return None

    def post(self, A, st0, out):
        t, n, g = A['enum_type'], A['node'], out.st.ghost
        name = attr0(n, 'value')
        ev = lookup(V.ditems(attr0(t, '_value_map')), name)
        known = z3.And(exact(n, 'EnumValueNode'), ev != V.Missing)
        if out.kind == 'raise':
            return [('only_the_value_hook_fails', z3.And(known, EVLit_raises(ev, name)))]
        r = out.value
        return [('only_declared_enum_literals', z3.Implies(z3.Not(known), z3.And(exact(r, 'CoercionResult'), cr_value(out.st, r) == V.Undef, g['hook_calls'] == 0))),
                ('value_through_its_own_hooks_once', z3.Implies(known, z3.And(exact(r, 'CoercionResult'), cr_ok(out.st, r), cr_value(out.st, r) == EVLit_val(ev, name),
                                                                              g['hook_calls'] == 1, g['hook_args'] == V.Tuple(mklist(ev, A['parent_node'], name, A['ctx'])))))]


class LiteralListItem(Contract):
    """list_item_coercer: a variable item without runtime value is null (invalid for non-null items); any other item goes to the inner coercer with
    the same variables and path"""
    key = L + 'list_coercer.py::list_item_coercer'
    property_ids = ('C05',)
    params = ['parent_node', 'item_node', 'ctx', 'is_non_null_item_type', 'inner_coercer', 'variables', 'path']

    def args(self, en, names):
        self.A = super().args(en, names)
        self.res = fresh('inner_result')
        return self.A

    def pre(self, A, st):
        n = A['item_node']
        return [('item', z3.And(inst(n, 'ValueNode'), ast_node(n), variable_node_wf(n))), ('variables', variables_ok(A['variables'])),
                ('flag', V.is_Bool(A['is_non_null_item_type'])), ('inner', V.is_Fun(A['inner_coercer']))]

    def ghost0(self, A):
        return {'inner_calls': z3.IntVal(0), 'inner_args': V.Missing}

    def call_model(self, en, st, f, a, kw):
        if z3.eq(f, self.A['inner_coercer']):
            shape = len(a) == 3 and set(kw) == {'variables', 'path'}
            rec = V.Tuple(mklist(*[en.read(x, st) for x in a], en.read(kw['variables'], st), en.read(kw['path'], st))) if shape else V.Missing
            return [(st.put_ghost('inner_calls', st.ghost['inner_calls'] + 1).put_ghost('inner_args', rec), self.res)]
        return None

    def post(self, A, st0, out):
        if out.kind == 'raise':
            return never_raises(out)
        n, vs, g, r = A['item_node'], A['variables'], out.st.ghost, out.value
        miss = missing_variable(n, vs)
        return [('missing_variable_item_non_null_is_invalid', z3.Implies(z3.And(miss, V.b(A['is_non_null_item_type'])), z3.And(r == V.Undef, g['inner_calls'] == 0))),
                ('missing_variable_item_nullable_is_null', z3.Implies(z3.And(miss, z3.Not(V.b(A['is_non_null_item_type']))),
                                                                      z3.And(exact(r, 'CoercionResult'), cr_ok(out.st, r), cr_value(out.st, r) == V.None_, g['inner_calls'] == 0))),
                ('other_items_go_to_the_inner_coercer', z3.Implies(z3.Not(miss), z3.And(r == self.res, g['inner_calls'] == 1,
                                                                                         g['inner_args'] == V.Tuple(mklist(A['parent_node'], n, A['ctx'], vs, A['path'])))))]



# ---- literal list coercer: ListValue literals item by item, single values promoted to one-element lists (GraphQL 3.11 input coercion)
Lit_ok = z3.Function('LiteralCoercionOk', V, V, V, BoolS)        # (inner literal coercer closure, value node, variables): no error list
Lit_val = z3.Function('LiteralCoercionValue', V, V, V, V)        # its value (UNDEFINED = invalid literal)


def it_invalid(c, n, vs, nn):
    return z3.If(missing_variable(n, vs), nn, z3.And(Lit_ok(c, n, vs), Lit_val(c, n, vs) == V.Undef))


def it_ok(c, n, vs):
    return z3.If(missing_variable(n, vs), True, Lit_ok(c, n, vs))


def it_val(c, n, vs):
    return z3.If(missing_variable(n, vs), V.None_, Lit_val(c, n, vs))


AnyInv = z3.RecFunction('SomeItemInvalidUpTo', V, VL, V, BoolS, IntS, BoolS)
AllOkL = z3.RecFunction('AllItemsOkUpTo', V, VL, V, IntS, BoolS)
ValsL = z3.RecFunction('ItemValuesUpTo', V, VL, V, IntS, VL)
_c, _vs2 = z3.Consts('li_c li_vs', V)
_ns2 = z3.Const('li_ns', VL)
_nn = z3.Bool('li_nn')
_k2 = z3.Int('li_k')
_anyinv = lambda c, ns, vs, nn, k: z3.If(k <= 0, False, z3.Or(AnyInv(c, ns, vs, nn, k - 1), it_invalid(c, nth(ns, k - 1), vs, nn)))
_allokl = lambda c, ns, vs, k: z3.If(k <= 0, True, z3.And(AllOkL(c, ns, vs, k - 1), it_ok(c, nth(ns, k - 1), vs)))
_valsl = lambda c, ns, vs, k: z3.If(k <= 0, VL.nil, snoc(ValsL(c, ns, vs, k - 1), it_val(c, nth(ns, k - 1), vs)))
z3.RecAddDefinition(AnyInv, [_c, _ns2, _vs2, _nn, _k2], _anyinv(_c, _ns2, _vs2, _nn, _k2))
z3.RecAddDefinition(AllOkL, [_c, _ns2, _vs2, _k2], _allokl(_c, _ns2, _vs2, _k2))
z3.RecAddDefinition(ValsL, [_c, _ns2, _vs2, _k2], _valsl(_c, _ns2, _vs2, _k2))
UNFOLD['SomeItemInvalidUpTo'] = _anyinv
UNFOLD['AllItemsOkUpTo'] = _allokl
UNFOLD['ItemValuesUpTo'] = _valsl
NoInvalidItem = ForallList('item_not_invalid', lambda n, c, vs, nnv: z3.Not(it_invalid(c, n, vs, V.b(nnv))), param_sorts=[V, V, V])
AllItemNodes = ForallList('list_item_node', lambda n: z3.And(inst(n, 'ValueNode'), ast_node(n), variable_node_wf(n)))


class LiteralListBody(Contract):
    """literal list_coercer: a list literal is invalid iff some item is (a missing variable counts as null: invalid only for non-null items);
    otherwise its items' values in order, or their errors; a non-list literal is coerced as the single item of a one-element list"""
    key = L + 'list_coercer.py::list_coercer'
    decorators = ['null_and_variable_coercer_wrapper']
    property_ids = ('C05',)
    params = ['parent_node', 'node', 'ctx', 'is_non_null_item_type', 'inner_coercer', 'variables', 'path']
    inline = (L + 'list_coercer.py::list_item_coercer',)

    def args(self, en, names):
        self.A = super().args(en, names)
        return self.A

    def pre(self, A, st):
        n = A['node']
        return [('node', z3.And(inst(n, 'ValueNode'), ast_node(n), z3.Implies(exact(n, 'ListValueNode'), z3.And(V.is_List(attr0(n, 'values')), AllItemNodes(V.items(attr0(n, 'values'))))))),
                ('variables', variables_ok(A['variables'])), ('flag', V.is_Bool(A['is_non_null_item_type'])), ('inner', V.is_Fun(A['inner_coercer'])),
                ('path', z3.Or(A['path'] == V.None_, z3.And(exact(A['path'], 'Path'), V.oref(A['path']) >= 0)))]

    def call_model(self, en, st, f, a, kw):
        if z3.eq(f, self.A['inner_coercer']):
            if len(a) != 3 or 'variables' not in kw:
                return None
            n, vs = en.read(a[1], st), en.read(kw['variables'], st)
            st2, cr = new_cr(en, st, Lit_ok(f, n, vs), Lit_val(f, n, vs))
            return [(st2, cr)]
        return None

    def _inv(self, en, st, k, st0):
        A = self.A
        c, ns, vs, nn = A['inner_coercer'], V.items(attr0(A['node'], 'values')), A['variables'], V.b(A['is_non_null_item_type'])
        errors = V.items(en.read(st.env['errors'], st))
        vals_ = V.items(en.read(st.env['coerced_values'], st))
        return {'no_invalid_item_so_far': NoInvalidItem(take(ns, k), c, vs, A['is_non_null_item_type']), 'errors_iff_bad_prefix': VL.is_nil(errors) == AllOkL(c, ns, vs, k),
                'values_are_prefix': z3.Implies(VL.is_nil(errors), vals_ == ValsL(c, ns, vs, k))}

    @property
    def loops(self):
        return {0: LoopContract(self._inv)}

    def post(self, A, st0, out):
        if out.kind == 'raise':
            return never_raises(out)
        c, n, vs, nn, r, st = A['inner_coercer'], A['node'], A['variables'], V.b(A['is_non_null_item_type']), out.value, out.st
        ns = V.items(attr0(n, 'values'))
        m = length(ns)
        invalid = z3.And(exact(r, 'CoercionResult'), cr_ok(st, r), cr_value(st, r) == V.Undef)
        is_list = exact(n, 'ListValueNode')
        none_invalid = NoInvalidItem(ns, c, vs, A['is_non_null_item_type'])
        return [('list_literal_invalid_iff_some_item_is', z3.Implies(is_list, invalid == z3.Not(none_invalid))),
                ('list_literal_items_in_order', z3.Implies(z3.And(is_list, none_invalid),
                                                           z3.And(exact(r, 'CoercionResult'), cr_ok(st, r) == AllOkL(c, ns, vs, m),
                                                                  z3.Implies(AllOkL(c, ns, vs, m), cr_value(st, r) == V.List(ValsL(c, ns, vs, m)))))),
                ('single_value_promoted', z3.Implies(z3.Not(is_list), z3.If(z3.And(Lit_ok(c, n, vs), Lit_val(c, n, vs) == V.Undef), invalid,
                                                                            z3.And(exact(r, 'CoercionResult'), cr_ok(st, r) == Lit_ok(c, n, vs),
                                                                                   z3.Implies(Lit_ok(c, n, vs), cr_value(st, r) == V.List(mklist(Lit_val(c, n, vs))))))))]



# ---- literal input-object coercer (GraphQL 3.10): declared fields one by one, undeclared entries make the literal invalid
FieldMap = z3.RecFunction('ObjectFieldNodesByNameUpTo', VL, IntS, VL)       # {field_node.name.value: field_node}
_fmap = lambda ns, k: z3.If(k <= 0, VL.nil, assoc_set(FieldMap(ns, k - 1), arg_name_of(nth(ns, k - 1)), nth(ns, k - 1)))
z3.RecAddDefinition(FieldMap, [_an, _ak], _fmap(_an, _ak))
UNFOLD['ObjectFieldNodesByNameUpTo'] = _fmap


def obj_field_node_wf(n):
    val = attr0(n, 'value')
    return z3.And(exact(n, 'ObjectFieldNode'), V.oref(n) >= 0, exact(attr0(n, 'name'), 'NameNode'), V.oref(attr0(n, 'name')) >= 0, V.is_Str(arg_name_of(n)),
                  inst(val, 'ValueNode'), ast_node(val), variable_node_wf(val))


AllObjFieldNodes = ForallList('object_field_node', obj_field_node_wf)
AllFieldMapEntries = ForallList('object_field_map_entry', lambda p: z3.And(V.is_Pair(p), V.is_Str(V.fst(p)), obj_field_node_wf(V.snd(p))))
AllKnownNames = ForallList('entry_name_is_declared', lambda p, fields: lookup(fields, V.fst(p)) != V.Missing, param_sorts=[VL])


def in_field_wf(p):
    f = V.snd(p)
    return z3.And(V.is_Pair(p), V.is_Str(V.fst(p)), exact(f, 'GraphQLInputField'), V.oref(f) >= 0, V.is_Fun(attr0(f, 'literal_coercer')),
                  inst(attr0(f, 'graphql_type'), 'GraphQLType'), V.oref(attr0(f, 'graphql_type')) >= 0,
                  z3.Or(attr0(f, 'default_value') == V.None_, z3.And(inst(attr0(f, 'default_value'), 'ValueNode'), ast_node(attr0(f, 'default_value')))))


AllInFields = ForallList('literal_input_field_entry', in_field_wf)


def _entry(p, fm):
    v = lookup(fm, V.fst(p))
    return z3.If(v == V.Missing, V.Undef, v)


def fl_no_value(p, fm, vs):
    vn = _entry(p, fm)
    return z3.Or(vn == V.Undef, missing_variable(attr0(vn, 'value'), vs))


def fl_node(p, fm, vs):
    return z3.If(fl_no_value(p, fm, vs), attr0(V.snd(p), 'default_value'), attr0(_entry(p, fm), 'value'))


def fl_coerced(p, fm, vs):
    return z3.Or(z3.Not(fl_no_value(p, fm, vs)), attr0(V.snd(p), 'default_value') != V.None_)


def fl_skip(p, fm, vs):
    return z3.And(z3.Not(fl_coerced(p, fm, vs)), z3.Not(inst(attr0(V.snd(p), 'graphql_type'), 'GraphQLNonNull')))


def _lc(p):
    return attr0(V.snd(p), 'literal_coercer')


def fl_invalid(p, fm, vs):
    n = fl_node(p, fm, vs)
    return z3.If(fl_coerced(p, fm, vs), z3.And(Lit_ok(_lc(p), n, vs), Lit_val(_lc(p), n, vs) == V.Undef), inst(attr0(V.snd(p), 'graphql_type'), 'GraphQLNonNull'))


def fl_ok(p, fm, vs):
    return z3.If(fl_coerced(p, fm, vs), Lit_ok(_lc(p), fl_node(p, fm, vs), vs), True)


NoInvalidField = ForallList('field_not_invalid', lambda p, fm, vs: z3.Not(fl_invalid(p, fm, vs)), param_sorts=[VL, V])
AllFOkL = z3.RecFunction('AllLiteralFieldsOkUpTo', VL, VL, V, IntS, BoolS)
FValsL = z3.RecFunction('LiteralFieldValuesUpTo', VL, VL, V, IntS, VL)
_fl, _fm = z3.Consts('lf_fields lf_map', VL)
_allfok = lambda fl_, fm, vs, k: z3.If(k <= 0, True, z3.And(AllFOkL(fl_, fm, vs, k - 1), fl_ok(nth(fl_, k - 1), fm, vs)))
_fvals = lambda fl_, fm, vs, k: z3.If(k <= 0, VL.nil, z3.If(fl_skip(nth(fl_, k - 1), fm, vs), FValsL(fl_, fm, vs, k - 1),
                                                          assoc_set(FValsL(fl_, fm, vs, k - 1), V.fst(nth(fl_, k - 1)),
                                                                    Lit_val(_lc(nth(fl_, k - 1)), fl_node(nth(fl_, k - 1), fm, vs), vs))))
z3.RecAddDefinition(AllFOkL, [_fl, _fm, _vs2, _k2], _allfok(_fl, _fm, _vs2, _k2))
z3.RecAddDefinition(FValsL, [_fl, _fm, _vs2, _k2], _fvals(_fl, _fm, _vs2, _k2))
UNFOLD['AllLiteralFieldsOkUpTo'] = _allfok
UNFOLD['LiteralFieldValuesUpTo'] = _fvals


class LiteralInputObjectBody(Contract):
    """literal input_object_coercer: only object literals; a literal naming an entry the input type does not declare is invalid (as on the
    variable path); otherwise each DECLARED field contributes by the per-field rule (entry / default / invalid / skipped) and the literal is invalid
    iff some field is; values keyed by field name"""
    key = L + 'input_object_coercer.py::input_object_coercer'
    decorators = ['null_and_variable_coercer_wrapper']
    property_ids = ('C05', 'C13')
    params = ['parent_node', 'node', 'ctx', 'input_object_type', 'variables', 'path']
    inline = (L + 'input_object_coercer.py::input_field_value_coercer',)

    def args(self, en, names):
        self.A = super().args(en, names)
        return self.A

    def pre(self, A, st):
        n, t = A['node'], A['input_object_type']
        return [('node', z3.And(inst(n, 'ValueNode'), ast_node(n), z3.Implies(exact(n, 'ObjectValueNode'), z3.And(V.is_List(attr0(n, 'fields')), AllObjFieldNodes(V.items(attr0(n, 'fields'))))))),
                ('input_object_type', z3.And(exact(t, 'GraphQLInputObjectType'), V.oref(t) >= 0, V.is_Dict(attr0(t, 'input_fields')), AllInFields(V.ditems(attr0(t, 'input_fields'))))),
                ('variables', variables_ok(A['variables'])), ('path', z3.Or(A['path'] == V.None_, z3.And(exact(A['path'], 'Path'), V.oref(A['path']) >= 0)))]

    def call_model(self, en, st, f, a, kw):
        f = z3.simplify(f)
        if z3.is_app(f) and f.decl().kind() == z3.Z3_OP_SELECT and f.arg(0).eq(field0('literal_coercer')):
            if len(a) != 3 or 'variables' not in kw:
                return None
            n, vs = en.read(a[1], st), en.read(kw['variables'], st)
            st2, cr = new_cr(en, st, Lit_ok(f, n, vs), Lit_val(f, n, vs))
            return [(st2, cr)]
        return None

    def _nodes(self):
        return V.items(attr0(self.A['node'], 'fields'))

    def _fm(self):
        ns = self._nodes()
        return FieldMap(ns, length(ns))

    def _fields(self):
        return V.ditems(attr0(self.A['input_object_type'], 'input_fields'))

    def _invd(self, en, st, k, st0):
        d = en.read(st.env['__dictcomp0'], st)
        return {'entries_by_name': d == V.Dict(FieldMap(self._nodes(), k)), 'entries_are_field_nodes': AllFieldMapEntries(V.ditems(d))}

    def _cur_fm(self, en, st):
        return V.ditems(en.read(st.env['field_nodes'], st))      # == FieldMap(nodes, n) by the comprehension's invariant (kept as a path fact)

    def _inv_known(self, en, st, k, st0):
        return {'names_so_far_are_declared': AllKnownNames(take(self._cur_fm(en, st), k), self._fields())}

    def _inv(self, en, st, k, st0):
        fields, fm, vs = self._fields(), self._cur_fm(en, st), self.A['variables']
        errors = V.items(en.read(st.env['errors'], st))
        cv = en.read(st.env['coerced_values'], st)
        return {'no_invalid_field_so_far': NoInvalidField(take(fields, k), fm, vs), 'errors_iff_bad_prefix': VL.is_nil(errors) == AllFOkL(fields, fm, vs, k),
                'values_by_name': z3.Implies(VL.is_nil(errors), cv == V.Dict(FValsL(fields, fm, vs, k)))}

    @property
    def loops(self):
        # the zip loop is the LAST for-loop of the body; a loop before it (the undeclared-entry scan) gets the known-names invariant
        import ast as _ast
        node, _ = T.functions[self.key]
        fors = [x for x in node.body if isinstance(x, _ast.For)]
        if len(fors) >= 2:
            return {('dictcomp', 0): LoopContract(self._invd), 0: LoopContract(self._inv_known), 1: LoopContract(self._inv)}
        return {('dictcomp', 0): LoopContract(self._invd), 0: LoopContract(self._inv)}

    def post(self, A, st0, out):
        if out.kind == 'raise':
            return never_raises(out)
        n, vs, r, st = A['node'], A['variables'], out.value, out.st
        ns = V.items(attr0(n, 'fields'))
        fm = FieldMap(ns, length(ns))
        fields = V.ditems(attr0(A['input_object_type'], 'input_fields'))
        m = length(fields)
        invalid = z3.And(exact(r, 'CoercionResult'), cr_ok(st, r), cr_value(st, r) == V.Undef)
        is_obj = exact(n, 'ObjectValueNode')
        good = z3.And(AllKnownNames(fm, fields), NoInvalidField(fields, fm, vs))
        return [('only_object_literals', z3.Implies(z3.Not(is_obj), invalid)),
                ('invalid_iff_undeclared_entry_or_invalid_field', z3.Implies(is_obj, invalid == z3.Not(good))),
                ('declared_fields_by_name', z3.Implies(z3.And(is_obj, good), z3.And(exact(r, 'CoercionResult'), cr_ok(st, r) == AllFOkL(fields, fm, vs, m),
                                                                                    z3.Implies(AllFOkL(fields, fm, vs, m), cr_value(st, r) == V.Dict(FValsL(fields, fm, vs, m))))))]


CONTRACTS = [ArgumentCoercer(), CoerceArguments(), GetLiteralCoercer(), LiteralScalarBody(), LiteralEnumBody(), LiteralListItem(), LiteralListBody(), LiteralInputObjectBody(), IsMissingVariable(), NullAndVariableWrapper(), LiteralNonNull(), LiteralDirectives(), LiteralInputFieldValue()]
LEMMAS = []
