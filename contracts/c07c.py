"""C07 (context layer of the document builder) -- an inline fragment is registered, for rule 5.5.2.3, under the type of the selection that ENCLOSES it."""
import z3
from pyvc.values import *
from pyvc.values import UNFOLD, ForallList, LEMMA_HOOKS
from pyvc.contracts import Contract, Lemma
from pyvc.symexec import attr0, field0, LoopContract, PyFunc, PyTuple, Raise
from .common import *
from pyvc import symexec as SX

TRF = 'tartiflette/language/parsers/libgraphqlparser/transformers.py::'
NamedTypeOfAst = z3.Function('ParsedNamedType', V, V)        # _parse_named_type(json): a NamedTypeNode
Opaque = z3.Function('ParsedPart', V, V, V)                  # (helper name, json): directives list / selection set / location


def _named_type(en, st, a, kw):
    j = en.read(a[0], st)
    t = NamedTypeOfAst(j)
    return [(st.assume(exact(t, 'NamedTypeNode'), V.oref(t) >= 0, exact(attr0(t, 'name'), 'NameNode'), V.oref(attr0(t, 'name')) >= 0, V.is_Str(attr0(attr0(t, 'name'), 'value'))), t)]


def _opaque(name):
    return lambda en, st, a, kw: [(st, Opaque(S(name), en.read(a[0], st)))]


def _selection_set(en, st, a, kw):
    """parsing the nested selections runs other parse functions on the same context: whatever they record, each of them restores the parent type
    it found (their own contract: this very postcondition), so `parent_type_name` is unchanged; everything else of the context is unknown"""
    vs = en.read(a[1], st)
    c0 = fld(st, 'ctx', vs)
    c1 = fresh('ctx_after_nested', VL)
    st1 = en.setattr(vs, 'ctx', V.Dict(c1), st)
    return [(st1.assume(lookup(c1, S('parent_type_name')) == lookup(V.ditems(c0), S('parent_type_name')), AllStrKeyed(c1),
                        z3.Or(lookup(c1, S('inlined_in')) == V.Missing, z3.And(V.is_Dict(lookup(c1, S('inlined_in'))), AllListValued(V.ditems(lookup(c1, S('inlined_in'))))))),
             Opaque(S('_parse_selection_set'), en.read(a[0], st)))]


AllStrKeyed = ForallList('context_entry', lambda p: z3.And(V.is_Pair(p), V.is_Str(V.fst(p))))
AllListValued = ForallList('inlined_in_entry', lambda p: z3.And(V.is_Pair(p), V.is_List(V.snd(p))))


class ParseInlineFragment(Contract):
    """_parse_inline_fragment: the fragment is appended to ctx["inlined_in"][T] where T is the parent type of the ENCLOSING selection (what
    ctx["parent_type_name"] held at entry) -- that is the type rule 5.5.2.3 must compare the type condition with -- and the parent type is restored"""
    key = TRF + '_parse_inline_fragment'
    property_ids = ('C07',)
    params = ['inline_fragment_ast', 'validators', 'path']
    modifies_fields = ('ctx',)
    callee_models = {TRF + '_parse_named_type': _named_type, TRF + '_parse_directives': _opaque('_parse_directives'), TRF + '_parse_selection_set': _selection_set,
                     TRF + '_parse_location': _opaque('_parse_location')}

    def args(self, en, names):
        self.A = super().args(en, names)
        return self.A

    def pre(self, A, st):
        vs, j = A['validators'], A['inline_fragment_ast']
        c = fld(st, 'ctx', vs)
        ii = lookup(V.ditems(c), S('inlined_in'))
        p0 = lookup(V.ditems(c), S('parent_type_name'))
        return [('validators', z3.And(exact(vs, 'Validators'), V.oref(vs) >= 0, V.is_Dict(c), AllStrKeyed(V.ditems(c)), z3.Or(p0 == V.None_, V.is_Str(p0)),
                                      z3.Or(ii == V.Missing, z3.And(V.is_Dict(ii), AllListValued(V.ditems(ii)))))),
                ('json', z3.And(V.is_Dict(j), *[lookup(V.ditems(j), S(k)) != V.Missing for k in ('typeCondition', 'directives', 'selectionSet', 'loc')],
                                z3.Or(lookup(V.ditems(j), S('typeCondition')) == V.None_, V.is_Dict(lookup(V.ditems(j), S('typeCondition')))))),
                ('path', z3.Or(A['path'] == V.None_, inst(A['path'], 'Path')))]

    def getattr_hook(self, en, st, v, attr):
        if attr == 'validate' and z3.eq(v, self.A['validators']):
            return [(st, PyFunc('validators.validate', lambda en, s, a, kw: [(s, V.None_)]))]      # rule dispatch: records errors, leaves the context alone
        return None

    def post(self, A, st0, out):
        if out.kind == 'raise':
            return never_raises(out)
        vs, j, r, st = A['validators'], A['inline_fragment_ast'], out.value, out.st
        p0 = lookup(V.ditems(fld(st0, 'ctx', vs)), S('parent_type_name'))
        f = V.ditems(fld(st, 'ctx', vs))
        reg = lookup(V.ditems(lookup(f, S('inlined_in'))), p0)
        tc = lookup(V.ditems(j), S('typeCondition'))
        return [('an_inline_fragment_node', z3.And(exact(r, 'InlineFragmentNode'), fld(st, 'type_condition', r) == z3.If(py_truthy(tc), NamedTypeOfAst(tc), V.None_))),
                ('parent_type_restored', lookup(f, S('parent_type_name')) == p0),
                ('registered_under_the_enclosing_type', z3.And(V.is_List(reg), z3.Not(VL.is_nil(V.items(reg))), nth(V.items(reg), length(V.items(reg)) - 1) == r))]


CONTRACTS = [ParseInlineFragment()]
LEMMAS = []


# ---- _parse_field: the sub-selection of a field is parsed (and validated) against the field's own named type; the parent type is restored
FieldTypeName = z3.Function('SchemaFieldTypeName', V, V, V, V)      # get_schema_field_type_name(parent type name, field name, schema)
NameOfAst = z3.Function('ParsedName', V, V)                         # _parse_name(json): a NameNode


def _name(en, st, a, kw):
    j = en.read(a[0], st)
    t = NameOfAst(j)
    return [(st.assume(exact(t, 'NameNode'), V.oref(t) >= 0, V.is_Str(attr0(t, 'value'))), t)]


class ParseField(Contract):
    """_parse_field: while the field's arguments, directives and sub-selection are parsed the context's parent type is the field's own (unwrapped)
    type name, looked up from the parent type AT ENTRY and the field name; afterwards the parent type at entry is back"""
    key = TRF + '_parse_field'
    property_ids = ('C07',)
    params = ['field_ast', 'validators', 'path']
    modifies_fields = ('ctx',)

    def args(self, en, names):
        self.A = super().args(en, names)
        return self.A

    @property
    def callee_models(self):
        def nested(en, st, a, kw):
            vs = en.read(a[1], st)
            st = st.put_ghost('nested_parent', lookup(V.ditems(fld(st, 'ctx', vs)), S('parent_type_name')))
            return _selection_set(en, st, a, kw)
        return {TRF + '_parse_name': _name, TRF + '_parse_arguments': _opaque('_parse_arguments'), TRF + '_parse_directives': _opaque('_parse_directives'),
                TRF + '_parse_selection_set': nested, TRF + '_parse_location': _opaque('_parse_location'),
                'tartiflette/language/validators/query/utils.py::get_schema_field_type_name':
                    lambda en, st, a, kw: [(st, FieldTypeName(en.read(a[0], st), en.read(a[1], st), en.read(a[2], st)))]}

    def pre(self, A, st):
        vs, j = A['validators'], A['field_ast']
        c = fld(st, 'ctx', vs)
        p0 = lookup(V.ditems(c), S('parent_type_name'))
        return [('validators', z3.And(exact(vs, 'Validators'), V.oref(vs) >= 0, V.is_Dict(c), AllStrKeyed(V.ditems(c)), p0 != V.Missing, z3.Or(p0 == V.None_, V.is_Str(p0)))),
                ('json', z3.And(V.is_Dict(j), *[lookup(V.ditems(j), S(k)) != V.Missing for k in ('name', 'alias', 'arguments', 'directives', 'selectionSet', 'loc')])),
                ('path', z3.Or(A['path'] == V.None_, inst(A['path'], 'Path')))]

    def ghost0(self, A):
        return {'nested_parent': V.Missing}

    def getattr_hook(self, en, st, v, attr):
        if attr == 'validate' and z3.eq(v, self.A['validators']):
            return [(st, PyFunc('validators.validate', lambda en, s, a, kw: [(s, V.None_)]))]
        return None

    def post(self, A, st0, out):
        if out.kind == 'raise':
            return never_raises(out)
        vs, j, r, st = A['validators'], A['field_ast'], out.value, out.st
        p0 = lookup(V.ditems(fld(st0, 'ctx', vs)), S('parent_type_name'))
        nm = NameOfAst(lookup(V.ditems(j), S('name')))
        return [('a_field_node_with_its_name', z3.And(exact(r, 'FieldNode'), fld(st, 'name', r) == nm)),
                ('sub_selection_parsed_under_the_field_type', out.st.ghost['nested_parent'] == FieldTypeName(p0, attr0(nm, 'value'), fld(st0, 'schema', vs))),
                ('parent_type_restored', lookup(V.ditems(fld(st, 'ctx', vs)), S('parent_type_name')) == p0)]


CONTRACTS.append(ParseField())


# ---- Validators.validate: the single entry point of rule validation -- no reported error is lost, an aborting rule stops the rest
class ValidatorsValidate(Contract):
    """Validators.validate: unless an earlier aborting rule failed, the named rule is run once with the path, the schema, the call's arguments and
    the whole context; every error it returns is appended to `errors`; the abort flag is raised exactly when an aborting rule reported something"""
    key = 'tartiflette/language/validators/__init__.py::Validators.validate'
    property_ids = ('C07', 'C06')
    params = ['self', 'rule', 'path']
    self_class = 'Validators'
    modifies_fields = ('errors', '_abort')

    def args(self, en, names):
        self.A = A = super().args(en, names)
        self.kwrest = fresh('rule_arguments')
        A['kwargs'] = SX.KwBundle({}, self.kwrest)
        self.rule_errors = fresh('rule_errors')
        return A

    def _rule(self, A):
        return lookup(V.ditems(attr0(A['self'], 'rules')), A['rule'])

    def pre(self, A, st):
        me = A['self']
        r = self._rule(A)
        return [('validators', z3.And(V.oref(me) >= 0, V.is_Dict(attr0(me, 'rules')), V.is_List(fld(st, 'errors', me)), V.is_Bool(fld(st, '_abort', me)), V.is_Dict(attr0(me, 'ctx')))),
                ('rule', z3.And(V.is_Str(A['rule']), r != V.Missing, inst(r, 'ValidationRule'), V.oref(r) >= 0, V.is_Bool(attr0(r, 'abort')))),
                ('rule_result', V.is_List(self.rule_errors))]

    def ghost0(self, A):
        return {'rule_calls': z3.IntVal(0), 'rule_args': V.Missing}

    def getattr_hook(self, en, st, v, attr):
        if attr == 'validate' and not z3.eq(v, self.A['self']):
            def run(en, s, a, kw, v=v):
                ok = len(a) == 0 and set(kw) == {'path', 'schema', '**', '**2'}
                rec = V.Tuple(mklist(v, en.read(kw['path'], s), en.read(kw['schema'], s), en.read(kw['**'], s), en.read(kw['**2'], s))) if ok else V.Missing
                return [(s.put_ghost('rule_calls', s.ghost['rule_calls'] + 1).put_ghost('rule_args', rec), self.rule_errors)]
            return [(st, PyFunc('rule.validate', run))]
        return None

    def post(self, A, st0, out):
        if out.kind == 'raise':
            return never_raises(out)
        me, g, st = A['self'], out.st.ghost, out.st
        r = self._rule(A)
        aborted0 = V.b(fld(st0, '_abort', me))
        e0, e1 = V.items(fld(st0, 'errors', me)), V.items(fld(st, 'errors', me))
        reported = z3.Not(VL.is_nil(V.items(self.rule_errors)))
        return [('nothing_runs_after_an_abort', z3.Implies(aborted0, z3.And(g['rule_calls'] == 0, e1 == e0, V.b(fld(st, '_abort', me))))),
                ('the_rule_runs_once_with_path_schema_arguments_and_context',
                 z3.Implies(z3.Not(aborted0), z3.And(g['rule_calls'] == 1, g['rule_args'] == V.Tuple(mklist(r, A['path'], attr0(me, 'schema'), self.kwrest, attr0(me, 'ctx')))))),
                ('every_reported_error_is_kept', z3.Implies(z3.Not(aborted0), e1 == app(e0, V.items(self.rule_errors)))),
                ('abort_iff_an_aborting_rule_reported', z3.Implies(z3.Not(aborted0), V.b(fld(st, '_abort', me)) == z3.And(V.b(attr0(r, 'abort')), reported)))]


CONTRACTS.append(ValidatorsValidate())


# ---- _parse_definitions: the document-level rules run on EVERY document, whatever it contains
DOCUMENT_RULES = [('fragment-spreads-must-not-form-cycles', 'fragments'), ('operation-name-uniqueness', 'operations'), ('lone-anonymous-operation', 'operations'),
                  ('single-root-field', 'definitions'), ('fragment-name-uniqueness', 'fragments'), ('fragment-spread-target-defined', 'fragments'),
                  ('fragment-must-be-used', 'fragments'), ('fragment-spread-is-possible', 'fragments'), ('all-variable-uses-defined', 'operations'),
                  ('all-variables-used', 'operations'), ('all-variable-usages-are-allowed', 'operations')]
ParsedDef = z3.Function('ParsedDefinition', V, V)           # _parse_definition(json): the definition node
AllDefAsts = ForallList('definition_json', lambda j: z3.And(V.is_Dict(j), z3.Or(lookup(V.ditems(j), S('kind')) == S('FragmentDefinition'), lookup(V.ditems(j), S('kind')) == S('OperationDefinition'))))


class ParseDefinitions(Contract):
    """_parse_definitions: after the definitions are parsed, each of the eleven document-level rules is run exactly once, in the documented order, on
    the whole list of fragment definitions / operation definitions -- unconditionally (a document without fragment definitions still has spreads to
    check, one without operations still has fragments to check)"""
    key = TRF + '_parse_definitions'
    property_ids = ('C07', 'C06')
    params = ['definitions_ast', 'validators', 'path']
    callee_models = {TRF + '_parse_definition': lambda en, st, a, kw: [(st, ParsedDef(en.read(a[0], st)))]}

    def args(self, en, names):
        self.A = super().args(en, names)
        return self.A

    def pre(self, A, st):
        d = A['definitions_ast']
        return [('validators', z3.And(exact(A['validators'], 'Validators'), V.oref(A['validators']) >= 0)),
                ('json', z3.Or(d == V.None_, z3.And(V.is_List(d), AllDefAsts(V.items(d)))))]

    def ghost0(self, A):
        return {'rules': V.List(VL.nil)}

    def getattr_hook(self, en, st, v, attr):
        if attr == 'validate' and z3.eq(v, self.A['validators']):
            def run(en, s, a, kw):
                rule = en.read(kw['rule'], s)
                subject = [en.read(kw[k], s) for k in ('fragments', 'operations', 'definitions') if k in kw]
                entry = V.Tuple(mklist(rule, subject[0] if len(subject) == 1 and not a else V.Missing))
                return [(s.put_ghost('rules', V.List(snoc(V.items(s.ghost['rules']), entry))), V.None_)]
            return [(st, PyFunc('validators.validate', run))]
        return None

    def _inv(self, en, st, k, st0):
        d = en.read(st.env['parsed_def'], st)
        return {'two_lists': z3.And(V.is_Dict(d), V.is_List(lookup(V.ditems(d), S('FragmentDefinition'))), V.is_List(lookup(V.ditems(d), S('OperationDefinition'))),
                                    length(V.ditems(d)) == 2),
                'no_rule_yet': st.ghost['rules'] == V.List(VL.nil)}

    @property
    def loops(self):
        return {0: LoopContract(self._inv)}

    def post(self, A, st0, out):
        if out.kind == 'raise':
            return never_raises(out)
        ran = V.items(out.st.ghost['rules'])
        cl = [('eleven_document_rules_ran', length(ran) == len(DOCUMENT_RULES))]
        for i, (rule, what) in enumerate(DOCUMENT_RULES):
            cl.append((f"rule_{i}_{rule.replace('-', '_')}", z3.And(nth(ran, i) != V.Missing, nth(V.titems(nth(ran, i)), 0) == S(rule),
                                                                   nth(V.titems(nth(ran, i)), 1) != V.Missing)))
        return cl


CONTRACTS.append(ParseDefinitions())
