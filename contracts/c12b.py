"""C12 (continued) -- the aggregator `_validate` and further schema rule validators."""
import z3
from pyvc.values import *
from pyvc.values import UNFOLD, ForallList, LEMMA_HOOKS
from pyvc.contracts import Contract, Lemma
from pyvc.symexec import attr0, field0, LoopContract, PyFunc, PyTuple, Raise, fun_id
from .common import *
from .c12 import S_, schema_types_wf, AllTypeEntries

VALIDATORS = ['_validate_schema_named_types', '_validate_object_follow_interfaces', '_validate_schema_root_types_exist', '_validate_non_empty_object',
              '_validate_union_is_acceptable', '_validate_all_scalars_have_implementations', '_validate_enum_values_are_unique',
              '_validate_arguments_have_valid_type', '_validate_input_type_composed_of_input_type', '_validate_directive_implementation']
ErrorsOf = z3.Function('ErrorsReportedBy', V, V, V)       # (schema, rule name): the list that rule validator returns (each has / will have its own contract)


EXTENSION_VALIDATORS = ['_validate_enum_extensions', '_validate_input_object_extensions', '_validate_object_extensions', '_validate_interface_extensions',
                        '_validate_scalar_extensions', '_validate_union_extensions', '_validate_schema_extensions']


class ValidateAggregator(Contract):
    """GraphQLSchema._validate / _validate_extensions: every rule validator of the list runs, and the schema is refused (GraphQLSchemaError) exactly
    when at least one of them reported an error -- no reported violation is dropped on the way to Engine.cook"""
    key = S_ + '_validate'
    property_ids = ('C12',)
    params = ['self']
    self_class = 'GraphQLSchema'
    validators = VALIDATORS
    returns_true = True

    def __init__(self, key=None, validators=None, returns_true=True):
        if key is not None:
            self.key, self.validators, self.returns_true = key, validators, returns_true
    unroll_limit = 16          # the loop over the literal list of rule validators is unrolled
    # message text is opaque (string formatting of a list of str never raises)
    callee_models = {'tartiflette/schema/schema.py::_format_schema_error_message': lambda en, st, a, kw: [(st, V.Str(fresh('msg', IntS)))]}

    def args(self, en, names):
        self.A = super().args(en, names)
        return self.A

    def pre(self, A, st):
        s = A['self']
        return [('schema', z3.And(exact(s, 'GraphQLSchema'), V.oref(s) >= 0))] + [(f"rule_{v}", V.is_List(ErrorsOf(s, S(v)))) for v in self.validators]

    def ghost0(self, A):
        return {'ran': V.List(VL.nil)}

    def _run(self, attr):
        def run(en, s, a, kw, attr=attr):
            return [(s.put_ghost('ran', V.List(snoc(V.items(s.ghost['ran']), S(attr)))), ErrorsOf(self.A['self'], S(attr)))]
        return run

    def getattr_hook(self, en, st, v, attr):
        if z3.eq(v, self.A['self']) and attr.startswith('_validate_'):
            # a bound method object: a callable value naming the rule (stored in the validators list, called from it)
            return [(st, PyFunc(attr, self._run(attr), term=V.Fun(z3.IntVal(-7), mklist(V.Pair(S('rule'), S(attr))))))]
        return None

    def call_model(self, en, st, f, a, kw):
        f = z3.simplify(f)
        out = []
        for v in self.validators:
            q = en.fork(st, f == V.Fun(z3.IntVal(-7), mklist(V.Pair(S('rule'), S(v)))))
            if q is not None:
                out += self._run(v)(en, q, a, kw)
        return out or None

    def post(self, A, st0, out):
        s = A['self']
        some = z3.Or(*[z3.Not(VL.is_nil(V.items(ErrorsOf(s, S(v))))) for v in self.validators])
        ran = ('every_checked_rule_ran_once', out.st.ghost['ran'] == V.List(mklist(*[S(v) for v in self.validators])))
        if out.kind == 'raise':
            return [ran, ('refused_only_for_a_reported_violation', z3.And(some, exact(out.value, 'GraphQLSchemaError')))]
        return [ran, ('accepted_only_without_any_reported_violation', z3.And(z3.Not(some), out.value == (V.Bool(True) if self.returns_true else V.None_)))]


class ValidateRootTypes(Contract):
    """_validate_schema_root_types_exist: the query root type must be defined; a mutation / subscription root type declared under a non-default
    name must be defined too"""
    key = S_ + '_validate_schema_root_types_exist'
    property_ids = ('C12',)
    params = ['self']
    self_class = 'GraphQLSchema'

    def pre(self, A, st):
        s = A['self']
        return [('schema', z3.And(exact(s, 'GraphQLSchema'), V.oref(s) >= 0, V.is_Dict(attr0(s, 'type_definitions')), V.is_Str(attr0(s, 'query_operation_name')),
                                  V.is_Str(attr0(s, 'mutation_operation_name')), V.is_Str(attr0(s, 'subscription_operation_name'))))]

    def post(self, A, st0, out):
        if out.kind == 'raise':
            return never_raises(out)
        s = A['self']
        defined = lambda n: lookup(V.ditems(attr0(s, 'type_definitions')), n) != V.Missing
        q, m, su = attr0(s, 'query_operation_name'), attr0(s, 'mutation_operation_name'), attr0(s, 'subscription_operation_name')
        ok = z3.And(defined(q), z3.Or(m == S('Mutation'), defined(m)), z3.Or(su == S('Subscription'), defined(su)))
        return [('reports_iff_a_root_type_is_missing', z3.And(V.is_List(out.value), VL.is_nil(V.items(out.value)) == ok))]


def scalar_complete(t):
    return z3.And(attr0(t, 'coerce_output') != V.None_, attr0(t, 'coerce_input') != V.None_, attr0(t, 'parse_literal') != V.None_)


ScalarsOk = z3.RecFunction('ScalarsImplementedUpTo', VL, IntS, BoolS)
_tl = z3.Const('sc_tl', VL)
_k = z3.Int('sc_k')
_scok = lambda tl, k: z3.If(k <= 0, True, z3.And(ScalarsOk(tl, k - 1), z3.Implies(exact(V.snd(nth(tl, k - 1)), 'GraphQLScalarType'), scalar_complete(V.snd(nth(tl, k - 1))))))
z3.RecAddDefinition(ScalarsOk, [_tl, _k], _scok(_tl, _k))
UNFOLD['ScalarsImplementedUpTo'] = _scok


class ValidateScalarsImplemented(Contract):
    """_validate_all_scalars_have_implementations: reports iff some scalar type lacks coerce_output, coerce_input or parse_literal"""
    key = S_ + '_validate_all_scalars_have_implementations'
    property_ids = ('C12',)
    params = ['self']
    self_class = 'GraphQLSchema'

    def args(self, en, names):
        self.A = super().args(en, names)
        return self.A

    def pre(self, A, st):
        return [('schema', schema_types_wf(A['self']))]

    def _inv(self, en, st, k, st0):
        errors = V.items(en.read(st.env['errors'], st))
        return {'errors_iff_incomplete_scalar_so_far': VL.is_nil(errors) == ScalarsOk(V.ditems(attr0(self.A['self'], 'type_definitions')), k)}

    @property
    def loops(self):
        return {0: LoopContract(self._inv)}

    def post(self, A, st0, out):
        if out.kind == 'raise':
            return never_raises(out)
        tl = V.ditems(attr0(A['self'], 'type_definitions'))
        return [('reports_iff_some_scalar_is_incomplete', z3.And(V.is_List(out.value), VL.is_nil(V.items(out.value)) == ScalarsOk(tl, length(tl))))]


NotIn = z3.RecFunction('NameNotAmongUpTo', V, VL, IntS, BoolS)
_nm = z3.Const('un_name', V)
_notin = lambda nm, l, k: z3.If(k <= 0, True, z3.And(NotIn(nm, l, k - 1), nth(l, k - 1) != nm))
z3.RecAddDefinition(NotIn, [_nm, _tl, _k], _notin(_nm, _tl, _k))
UNFOLD['NameNotAmongUpTo'] = _notin


def union_self_free2(p):
    t = V.snd(p)
    ms = V.items(attr0(t, 'types'))
    return z3.Implies(exact(t, 'GraphQLUnionType'), NotIn(V.fst(p), ms, length(ms)))


UnionsOk2 = z3.RecFunction('UnionsAcceptableUpTo2', VL, IntS, BoolS)
_unok2 = lambda tl, k: z3.If(k <= 0, True, z3.And(UnionsOk2(tl, k - 1), union_self_free2(nth(tl, k - 1))))
z3.RecAddDefinition(UnionsOk2, [_tl, _k], _unok2(_tl, _k))
UNFOLD['UnionsAcceptableUpTo2'] = _unok2
AllUnionEntries = ForallList('union_entry', lambda p: z3.Implies(exact(V.snd(p), 'GraphQLUnionType'), V.is_List(attr0(V.snd(p), 'types'))))


class ValidateUnions(Contract):
    """_validate_union_is_acceptable: reports iff some union type lists itself as a member"""
    key = S_ + '_validate_union_is_acceptable'
    property_ids = ('C12',)
    params = ['self']
    self_class = 'GraphQLSchema'

    def args(self, en, names):
        self.A = super().args(en, names)
        return self.A

    def pre(self, A, st):
        tl = V.ditems(attr0(A['self'], 'type_definitions'))
        return [('schema', schema_types_wf(A['self'])), ('unions', AllUnionEntries(tl))]

    def _outer(self, en, st, k, st0):
        errors = V.items(en.read(st.env['errors'], st))
        return {'errors_iff_self_containing_union_so_far': VL.is_nil(errors) == UnionsOk2(V.ditems(attr0(self.A['self'], 'type_definitions')), k)}

    def _inner(self, en, st, j, st0):
        errors = V.items(en.read(st.env['errors'], st))
        e0 = V.items(en.read(st0.env['errors'], st0))
        ms = V.items(attr0(st.env['gql_type'], 'types'))
        return {'errors_iff_self_among_members_so_far': VL.is_nil(errors) == z3.And(VL.is_nil(e0), NotIn(st.env['type_name'], ms, j))}

    @property
    def loops(self):
        return {0: LoopContract(self._outer), 1: LoopContract(self._inner)}

    def post(self, A, st0, out):
        if out.kind == 'raise':
            return never_raises(out)
        tl = V.ditems(attr0(A['self'], 'type_definitions'))
        return [('reports_iff_some_union_contains_itself', z3.And(V.is_List(out.value), VL.is_nil(V.items(out.value)) == UnionsOk2(tl, length(tl))))]


CONTRACTS = [ValidateAggregator(), ValidateAggregator(S_ + '_validate_extensions', EXTENSION_VALIDATORS, False), ValidateRootTypes(), ValidateScalarsImplemented(), ValidateUnions()]
LEMMAS = []


# ---- directive implementations: every documented hook a directive implements must be awaitable (docs/api/directive.md lists the hooks)
FUNCTION_HOOKS = ['on_post_bake', 'on_pre_output_coercion', 'on_introspection', 'on_post_input_coercion', 'on_argument_execution', 'on_field_execution',
                  'on_field_collection', 'on_fragment_spread_collection', 'on_inline_fragment_collection', 'on_schema_execution']
GENERATOR_HOOKS = ['on_schema_subscription']
HookOf = z3.Function('DirectiveHookAttribute', V, V, V)         # getattr(implementation, hook name, None)
IsCoro = z3.Function('IsCoroutineFunction', V, BoolS)           # is_valid_coroutine (inspect: external)
IsAsyncGen = z3.Function('IsAsyncGeneratorFunction', V, BoolS)  # is_valid_async_generator


def directive_ok(d):
    impl = attr0(d, 'implementation')
    return z3.And(*[z3.Implies(py_truthy(HookOf(impl, S(h))), IsCoro(HookOf(impl, S(h)))) for h in FUNCTION_HOOKS],
                  *[z3.Implies(py_truthy(HookOf(impl, S(h))), IsAsyncGen(HookOf(impl, S(h)))) for h in GENERATOR_HOOKS])


DirsOk = z3.RecFunction('DirectiveImplementationsOkUpTo', VL, IntS, BoolS)
_dirsok = lambda dl, k: z3.If(k <= 0, True, z3.And(DirsOk(dl, k - 1), directive_ok(V.snd(nth(dl, k - 1)))))
z3.RecAddDefinition(DirsOk, [_tl, _k], _dirsok(_tl, _k))
UNFOLD['DirectiveImplementationsOkUpTo'] = _dirsok
def _hooks_are_attributes(d):
    impl = attr0(d, 'implementation')
    hs = [HookOf(impl, S(h)) for h in FUNCTION_HOOKS + GENERATOR_HOOKS]
    return z3.And(*[z3.Or(h == V.None_, V.is_Fun(h)) for h in hs])       # a class attribute that is a function / method, or the None default


AllDirectiveDefs = ForallList('directive_definition_entry', lambda p: z3.And(V.is_Pair(p), exact(V.snd(p), 'GraphQLDirective'), V.oref(V.snd(p)) >= 0, V.is_Str(attr0(V.snd(p), 'name')),
                                                                             _hooks_are_attributes(V.snd(p))))


class ValidateDirectiveImplementation(Contract):
    """_validate_directive_implementation: reports iff some registered directive implements one of the documented hooks with something that is not
    awaitable (function hooks) / not an async generator (on_schema_subscription)"""
    key = S_ + '_validate_directive_implementation'
    property_ids = ('C12', 'C13')
    params = ['self']
    self_class = 'GraphQLSchema'
    unroll_limit = 16
    merge_ifs = 'always'        # one path through the eleven hook tests
    callee_models = {'tartiflette/utils/callables.py::is_valid_coroutine': lambda en, st, a, kw: [(st, V.Bool(IsCoro(en.read(a[0], st))))],
                     'tartiflette/utils/callables.py::is_valid_async_generator': lambda en, st, a, kw: [(st, V.Bool(IsAsyncGen(en.read(a[0], st))))]}

    def args(self, en, names):
        self.A = super().args(en, names)
        return self.A

    def pre(self, A, st):
        s = A['self']
        return [('schema', z3.And(exact(s, 'GraphQLSchema'), V.oref(s) >= 0, V.is_Dict(attr0(s, '_directive_definitions')), AllDirectiveDefs(V.ditems(attr0(s, '_directive_definitions')))))]

    def extra_env(self, en, A):
        def getattr3(en, st, a, kw):
            if len(a) != 3:
                return None
            return [(st, HookOf(en.read(a[0], st), en.read(a[1], st)))]
        return {'getattr': PyFunc('getattr', getattr3)}

    def _inv(self, en, st, k, st0):
        errors = V.items(en.read(st.env['errors'], st))
        return {'errors_iff_bad_implementation_so_far': VL.is_nil(errors) == DirsOk(V.ditems(attr0(self.A['self'], '_directive_definitions')), k)}

    @property
    def loops(self):
        return {0: LoopContract(self._inv)}

    def post(self, A, st0, out):
        if out.kind == 'raise':
            return never_raises(out)
        dl = V.ditems(attr0(A['self'], '_directive_definitions'))
        return [('reports_iff_some_documented_hook_is_not_awaitable', z3.And(V.is_List(out.value), VL.is_nil(V.items(out.value)) == DirsOk(dl, length(dl))))]


CONTRACTS.append(ValidateDirectiveImplementation())


# ---- SDL extensions: every `extend ...` definition is registered on the schema with everything it declares, so the extension validators see it
TR = 'tartiflette/schema/transformer.py::'
Parsed = z3.Function('ParsedBy', V, V, V, V)          # (helper name, AST sub-node(s), schema): result of the transformer helper (their own subject: C11)
_HELPERS = ['parse_name', 'parse_fields_definition', 'parse_implements_interfaces', 'parse_enum_values_definition', 'parse_input_fields_definition', 'parse_union_member_types']
_HELPER_MODELS = {TR + h: (lambda en, st, a, kw, h=h: [(st, Parsed(S(h), en.read(a[0], st), en.read(a[1], st)))]) for h in _HELPERS}


class ExtensionParse(Contract):
    """parse_*_type_extension: ONE extension object of the right class is built from the node -- name, directives and every declared member list,
    whichever of them are empty -- appended to schema.extensions, and returned"""
    property_ids = ('C12',)
    params = None
    callee_models = _HELPER_MODELS
    modifies_fields = ('extensions',)
    inline = (S_ + 'add_extension',)

    def __init__(self, fn, node_param, node_class, ext_class, members):
        self.key = TR + fn
        self.params = [node_param, 'schema']
        self.node_param, self.node_class, self.ext_class, self.members = node_param, node_class, ext_class, members

    def pre(self, A, st):
        n, s = A[self.node_param], A['schema']
        members = [Parsed(S(h), attr0(n, a), s) for (_, h, a) in self.members]
        return [('node', z3.And(exact(n, self.node_class), V.oref(n) >= 0)), ('schema', z3.And(exact(s, 'GraphQLSchema'), V.oref(s) >= 0, V.is_List(attr0(s, 'extensions')))),
                ('helpers_return_collections', z3.And(*[z3.Or(m == V.None_, V.is_List(m), V.is_Dict(m)) for m in members]))]

    def post(self, A, st0, out):
        if out.kind == 'raise':
            return never_raises(out)
        n, s, r, st = A[self.node_param], A['schema'], out.value, out.st
        cl = [('an_extension_object_is_returned', z3.And(exact(r, self.ext_class), V.oref(r) < 0)),
              ('registered_on_the_schema', fld(st, 'extensions', s) == V.List(snoc(V.items(attr0(s, 'extensions')), r))),
              ('named_after_the_node', fld(st, 'name', r) == Parsed(S('parse_name'), attr0(n, 'name'), s)),
              ('carries_the_directives', fld(st, 'directives', r) == attr0(n, 'directives'))]
        for (ext_attr, helper, node_attr) in self.members:
            p = Parsed(S(helper), attr0(n, node_attr), s)
            got = fld(st, ext_attr, r)
            cl.append((f"carries_the_declared_{ext_attr}", z3.If(py_truthy(p), got == p, z3.Or(got == V.List(VL.nil), got == V.Dict(VL.nil)))))
        return cl


CONTRACTS += [
    ExtensionParse('parse_object_type_extension', 'object_type_extension_node', 'ObjectTypeExtensionNode', 'GraphQLObjectTypeExtension',
                   [('fields', 'parse_fields_definition', 'fields'), ('interfaces', 'parse_implements_interfaces', 'interfaces')]),
    ExtensionParse('parse_interface_type_extension', 'interface_type_extension_node', 'InterfaceTypeExtensionNode', 'GraphQLInterfaceTypeExtension',
                   [('fields', 'parse_fields_definition', 'fields')]),
    ExtensionParse('parse_enum_type_extension', 'enum_type_extension_node', 'EnumTypeExtensionNode', 'GraphQLEnumTypeExtension',
                   [('values', 'parse_enum_values_definition', 'values')]),
    ExtensionParse('parse_input_object_type_extension', 'input_object_type_extension_node', 'InputObjectTypeExtensionNode', 'GraphQLInputObjectTypeExtension',
                   [('input_fields', 'parse_input_fields_definition', 'fields')]),
    ExtensionParse('parse_union_type_extension', 'union_type_extension_node', 'UnionTypeExtensionNode', 'GraphQLUnionTypeExtension',
                   [('types', 'parse_union_member_types', 'types')]),
    ExtensionParse('parse_scalar_type_extension', 'scalar_type_extension_node', 'ScalarTypeExtensionNode', 'GraphQLScalarTypeExtension', []),
]


# ---- input positions refer to input types
from .c12 import Reduce, gql_type_wf        # noqa: E402


def is_input_type_ref(s, g):
    """the (unwrapped) named type is registered as an input type (scalar, enum, input object) of the schema"""
    return mem(V.items(attr0(s, '_input_types')), Reduce(g))


class ValidateTypeIsInputType(Contract):
    """_validate_type_is_an_input_types: reports iff the unwrapped type of the argument / input field is not one of the schema's input types"""
    key = S_ + '_validate_type_is_an_input_types'
    property_ids = ('C12',)
    params = ['self', 'obj', 'message_prefix']
    self_class = 'GraphQLSchema'

    def pre(self, A, st):
        s, o = A['self'], A['obj']
        return [('schema', z3.And(exact(s, 'GraphQLSchema'), V.oref(s) >= 0, V.is_List(attr0(s, '_input_types')))),
                ('typed_member', z3.And(z3.Or(exact(o, 'GraphQLArgument'), exact(o, 'GraphQLInputField')), V.oref(o) >= 0, gql_type_wf(attr0(o, 'gql_type'))))]

    def post(self, A, st0, out):
        if out.kind == 'raise':
            return never_raises(out)
        return [('reports_iff_not_an_input_type', z3.And(V.is_List(out.value), VL.is_nil(V.items(out.value)) == is_input_type_ref(A['self'], attr0(A['obj'], 'gql_type'))))]


def input_fields_ok(s, t):
    fl = V.ditems(attr0(t, 'input_fields'))
    return z3.Implies(exact(t, 'GraphQLInputObjectType'), FieldsAreInputs(vals(fl), s))


FieldsAreInputs = ForallList('input_field_has_an_input_type', lambda f, s: is_input_type_ref(s, attr0(f, 'gql_type')), param_sorts=[V])
InputObjectsOk = ForallList('input_object_is_composed_of_input_types', lambda name, s: input_fields_ok(s, lookup(V.ditems(attr0(s, 'type_definitions')), name)), param_sorts=[V])
AllInputFieldDefs = ForallList('schema_input_field', lambda f: z3.And(exact(f, 'GraphQLInputField'), V.oref(f) >= 0, gql_type_wf(attr0(f, 'gql_type')), V.is_Str(attr0(f, 'name'))))
AllInputTypeNames = ForallList('registered_input_type_name', lambda name, s: (lambda t: z3.And(V.is_Str(name), t != V.Missing, inst(t, 'GraphQLType'), V.oref(t) >= 0,
                                                                                             z3.Implies(exact(t, 'GraphQLInputObjectType'),
                                                                                                        z3.And(V.is_Dict(attr0(t, 'input_fields')), AllInputFieldDefs(vals(V.ditems(attr0(t, 'input_fields'))))))))
                               (lookup(V.ditems(attr0(s, 'type_definitions')), name)), param_sorts=[V])


class ValidateInputTypeComposition(Contract):
    """_validate_input_type_composed_of_input_type: reports iff some field of some registered input object type is not of an input type"""
    key = S_ + '_validate_input_type_composed_of_input_type'
    property_ids = ('C12',)
    params = ['self']
    self_class = 'GraphQLSchema'

    def args(self, en, names):
        self.A = super().args(en, names)
        return self.A

    def pre(self, A, st):
        s = A['self']
        return [('schema', z3.And(exact(s, 'GraphQLSchema'), V.oref(s) >= 0, V.is_Dict(attr0(s, 'type_definitions')), V.is_List(attr0(s, '_input_types')),
                                  AllInputTypeNames(V.items(attr0(s, '_input_types')), s)))]

    def _outer(self, en, st, k, st0):
        s = self.A['self']
        errors = V.items(en.read(st.env['errors'], st))
        return {'errors_iff_bad_input_object_so_far': VL.is_nil(errors) == InputObjectsOk(take(V.items(attr0(s, '_input_types')), k), s)}

    def _inner(self, en, st, j, st0):
        s = self.A['self']
        errors = V.items(en.read(st.env['errors'], st))
        e0 = V.items(en.read(st0.env['errors'], st0))
        fl = vals(V.ditems(attr0(st.env['gqltype'], 'input_fields')))
        return {'errors_iff_bad_field_so_far': VL.is_nil(errors) == z3.And(VL.is_nil(e0), FieldsAreInputs(take(fl, j), s))}

    @property
    def loops(self):
        return {0: LoopContract(self._outer), 1: LoopContract(self._inner)}

    def post(self, A, st0, out):
        if out.kind == 'raise':
            return never_raises(out)
        s = A['self']
        return [('reports_iff_some_input_field_has_a_non_input_type', z3.And(V.is_List(out.value), VL.is_nil(V.items(out.value)) == InputObjectsOk(V.items(attr0(s, '_input_types')), s)))]


CONTRACTS += [ValidateTypeIsInputType(), ValidateInputTypeComposition()]


# ---- object types declare at least one (non-meta) field
from pyvc.builtins import str_dunder        # noqa: E402

NameIsMeta = ForallList('field_name_starts_with_two_underscores', lambda n: str_dunder(V.s(n)))
NameIsOwn = ForallList('field_name_is_not_meta', lambda n: z3.Not(str_dunder(V.s(n))))


def object_non_empty(p):
    t = V.snd(p)
    return z3.Implies(exact(t, 'GraphQLObjectType'), z3.Not(NameIsMeta(keys(V.ditems(attr0(t, 'implemented_fields'))))))


ObjectsNonEmpty = ForallList('object_type_has_an_own_field', object_non_empty)
AllStrKeys = ForallList('string_key_entry', lambda p: z3.And(V.is_Pair(p), V.is_Str(V.fst(p))))
AllObjEntries = ForallList('object_type_entry', lambda p: z3.And(V.is_Pair(p), V.is_Str(V.fst(p)), V.is_Obj(V.snd(p)),
                                                                 z3.Implies(exact(V.snd(p), 'GraphQLObjectType'), z3.And(V.oref(V.snd(p)) >= 0, V.is_Dict(attr0(V.snd(p), 'implemented_fields')),
                                                                                                                        AllStrKeys(V.ditems(attr0(V.snd(p), 'implemented_fields')))))))


class ValidateNonEmptyObject(Contract):
    """_validate_non_empty_object: reports iff some object type declares no field besides the injected meta fields (names starting with `__`)"""
    key = S_ + '_validate_non_empty_object'
    property_ids = ('C12',)
    params = ['self']
    self_class = 'GraphQLSchema'

    def args(self, en, names):
        self.A = super().args(en, names)
        return self.A

    @property
    def filter_specs(self):
        return {0: (NameIsOwn, NameIsMeta, lambda en: [])}

    def pre(self, A, st):
        s = A['self']
        return [('schema', z3.And(exact(s, 'GraphQLSchema'), V.oref(s) >= 0, V.is_Dict(attr0(s, 'type_definitions')), AllObjEntries(V.ditems(attr0(s, 'type_definitions')))))]

    def _inv(self, en, st, k, st0):
        errors = V.items(en.read(st.env['errors'], st))
        return {'errors_iff_empty_object_so_far': VL.is_nil(errors) == ObjectsNonEmpty(take(V.ditems(attr0(self.A['self'], 'type_definitions')), k))}

    @property
    def loops(self):
        return {0: LoopContract(self._inv)}

    def post(self, A, st0, out):
        if out.kind == 'raise':
            return never_raises(out)
        return [('reports_iff_some_object_type_has_no_own_field', z3.And(V.is_List(out.value), VL.is_nil(V.items(out.value)) == ObjectsNonEmpty(V.ditems(attr0(A['self'], 'type_definitions')))))]


CONTRACTS.append(ValidateNonEmptyObject())


# ---- objects follow their interfaces (per interface field)
from .c12 import Compat, GqlTypeWf, field_entry_wf, AllFieldEntries        # noqa: E402

ArgsFollow = z3.Function('FieldArgumentsFollowInterface', V, V, BoolS)     # _validated_field_args_are_same_as_interface_args reports nothing (own subject)


def _args_model(en, st, a, kw):
    of, iff, errs = en.read(a[1], st), en.read(a[3], st), a[4]
    cur = en.read(errs, st)
    more = fresh('argument_errors', VL)
    ok = en.fork(st, ArgsFollow(of, iff))
    bad = en.fork(st, z3.Not(ArgsFollow(of, iff)))
    out = []
    if ok is not None:
        out.append((ok, V.None_))
    if bad is not None:
        out.append((en.mutate(errs, bad.assume(z3.Not(VL.is_nil(more))), V.List(app(V.items(cur), more))), V.None_))
    return out


def field_follows(s, object_type, iface_field):
    of = lookup(V.ditems(attr0(object_type, 'implemented_fields')), attr0(iface_field, 'name'))
    return z3.And(of != V.Missing, Compat(s, attr0(of, 'gql_type'), attr0(iface_field, 'gql_type')), ArgsFollow(of, iface_field))


class ValidateFieldFollowsInterface(Contract):
    """_validate_field_follow_interface: an error is added exactly when the object type lacks the interface's field, declares it with a type that
    does not honour the interface field's type, or its arguments do not follow; the error list only grows"""
    key = S_ + '_validate_field_follow_interface'
    property_ids = ('C12',)
    params = ['self', 'iface_name', 'object_type', 'iface_field', 'errors']
    self_class = 'GraphQLSchema'
    mutable = {'errors': 'list'}
    callee_models = {'tartiflette/schema/schema.py::_validated_field_args_are_same_as_interface_args': _args_model}

    def pre(self, A, st):
        s, ot, iff = A['self'], A['object_type'], A['iface_field']
        ift = attr0(iff, 'gql_type')
        iface = lookup(V.ditems(attr0(s, 'type_definitions')), ift)
        return [('schema', z3.And(exact(s, 'GraphQLSchema'), V.oref(s) >= 0, V.is_Dict(attr0(s, 'type_definitions')))),
                ('object_type', z3.And(exact(ot, 'GraphQLObjectType'), V.oref(ot) >= 0, V.is_Str(attr0(ot, 'name')), V.is_Dict(attr0(ot, 'implemented_fields')),
                                       AllFieldEntries(V.ditems(attr0(ot, 'implemented_fields'))))),
                ('interface_field', z3.And(exact(iff, 'GraphQLField'), V.oref(iff) >= 0, V.is_Str(attr0(iff, 'name')), GqlTypeWf(ift))),
                ('interface_field_type_defined', z3.Implies(V.is_Str(ift), z3.And(iface != V.Missing, inst(iface, 'GraphQLType'), V.oref(iface) >= 0))),
                ('errors', V.is_List(st.heap[A['errors'].loc]))]

    def post(self, A, st0, out):
        if out.kind == 'raise':
            return never_raises(out)
        before = V.items(st0.heap[A['errors'].loc])
        after = V.items(out.st.heap[A['errors'].loc])
        follows = field_follows(A['self'], A['object_type'], A['iface_field'])
        return [('errors_only_grow', length(after) >= length(before)),
                ('reports_iff_the_field_does_not_follow', (length(after) == length(before)) == follows)]


CONTRACTS.append(ValidateFieldFollowsInterface())



# ---- GraphQLSchema.bake: no schema gets baked past a refusing validator
class SchemaBake(Contract):
    """GraphQLSchema.bake: the extension rules are validated before anything is merged, the schema rules after the types are baked; bake completes
    only if BOTH aggregators accepted -- a GraphQLSchemaError of either propagates to the caller (Engine.cook), whatever the baking steps in between
    swallow"""
    key = S_ + 'bake'
    property_ids = ('C12',)
    params = ['self', 'custom_default_resolver', 'custom_default_type_resolver', 'custom_default_arguments_coercer', 'coerce_list_concurrently', 'coerce_parent_concurrently']
    self_class = 'GraphQLSchema'
    modifies_fields = ('default_type_resolver', 'default_arguments_coercer', 'coerce_list_concurrently', 'coerce_parent_concurrently', '_operation_types', 'queryType',
                       'mutationType', 'subscriptionType', 'directives', 'types')
    merge_ifs = 'always'

    @property
    def loops(self):
        return {0: LoopContract(lambda en, st, k, st0: {'types_is_a_list': V.is_List(fld(st, 'types', self.A['self']))}, modifies_fields=('types',))}

    def args(self, en, names):
        self.A = super().args(en, names)
        self.ext_refused, self.rules_refused = fresh('extension_rules_refuse', BoolS), fresh('schema_rules_refuse', BoolS)
        return self.A

    def pre(self, A, st):
        s = A['self']
        return [('schema', z3.And(exact(s, 'GraphQLSchema'), V.oref(s) >= 0, V.is_Dict(attr0(s, 'type_definitions')), AllStrKeys(V.ditems(attr0(s, 'type_definitions'))),
                                  V.is_Dict(attr0(s, '_directive_definitions')), V.is_List(attr0(s, 'types')),
                                  V.is_Str(attr0(s, 'query_operation_name')), V.is_Str(attr0(s, 'mutation_operation_name')), V.is_Str(attr0(s, 'subscription_operation_name')))),
                ('flags', z3.And(*[z3.Or(A[p] == V.None_, V.is_Bool(A[p])) for p in ('coerce_list_concurrently', 'coerce_parent_concurrently')])),
                ('callables', z3.And(*[z3.Or(A[p] == V.None_, V.is_Fun(A[p])) for p in ('custom_default_resolver', 'custom_default_type_resolver', 'custom_default_arguments_coercer')]))]

    def ghost0(self, A):
        return {'steps': V.List(VL.nil)}

    def _step(self, name, refuse=None, may_fail=False):
        def run(en, s, a, kw):
            s = s.put_ghost('steps', V.List(snoc(V.items(s.ghost['steps']), S(name))))
            e = V.Obj(fresh('ecls', IntS), fresh('eref', IntS))
            if refuse is not None:
                return en.branches(s, [(z3.Not(refuse), V.None_), (z3.And(refuse, exact(e, 'GraphQLSchemaError'), V.oref(e) >= 0), Raise(e))])
            if may_fail:
                fails = fresh(name + '_fails', BoolS)
                return en.branches(s, [(z3.Not(fails), V.None_), (z3.And(fails, inst(e, 'Exception'), V.oref(e) >= 0), Raise(e))])
            return [(s, V.None_)]
        return run

    def getattr_hook(self, en, st, v, attr):
        if z3.eq(v, self.A['self']):
            table_ = {'_inject_introspection_fields': self._step('_inject_introspection_fields'), '_validate_extensions': self._step('_validate_extensions', self.ext_refused),
                      '_bake_extensions': self._step('_bake_extensions', may_fail=True), '_bake_types': self._step('_bake_types', may_fail=True),
                      '_validate': self._step('_validate', self.rules_refused)}
            if attr in table_:
                return [(st, PyFunc(attr, table_[attr]))]
        return None

    callee_models = {'tartiflette/schema/registry.py::SchemaRegistry.bake_registered_objects': lambda en, st, a, kw: [(st.put_ghost('steps', V.List(snoc(V.items(st.ghost['steps']), S('bake_registered_objects')))), V.None_)]}

    def post(self, A, st0, out):
        steps = out.st.ghost['steps']
        order = ['_inject_introspection_fields', '_validate_extensions', '_bake_extensions', 'bake_registered_objects', '_bake_types', '_validate']
        if out.kind == 'raise':
            return [('only_a_refusing_validator_stops_the_bake', z3.And(z3.Or(self.ext_refused, self.rules_refused), exact(out.value, 'GraphQLSchemaError'))),
                    ('nothing_is_merged_after_a_refused_extension', z3.Implies(self.ext_refused, steps == V.List(mklist(*[S(x) for x in order[:2]]))))]
        me, st = A['self'], out.st
        fnv = lambda key: V.Fun(fun_id(key), VL.nil)
        pick = lambda custom, key: z3.If(py_truthy(custom), custom, fnv(key))
        flag = lambda x: z3.If(x != V.None_, x, V.Bool(True))
        return [('both_rule_sets_accepted', z3.And(z3.Not(self.ext_refused), z3.Not(self.rules_refused))),
                ('validated_in_order', steps == V.List(mklist(*[S(x) for x in order]))),
                ('schema_defaults', z3.And(fld(st, 'default_type_resolver', me) == pick(A['custom_default_type_resolver'], 'tartiflette/resolver/default.py::default_type_resolver'),
                                           fld(st, 'default_arguments_coercer', me) == pick(A['custom_default_arguments_coercer'], 'tartiflette/resolver/default.py::gather_arguments_coercer'),
                                           fld(st, 'coerce_list_concurrently', me) == flag(A['coerce_list_concurrently']),
                                           fld(st, 'coerce_parent_concurrently', me) == flag(A['coerce_parent_concurrently'])))]


CONTRACTS.append(SchemaBake())


# ---- enum values are unique
NoDup = z3.RecFunction('NoDuplicates', VL, BoolS)        # recursion from the end: no element occurs among the ones before it
_nd = z3.Const('nd_l', VL)
_nodup = lambda l: z3.If(length(l) <= 0, True, z3.And(NoDup(take(l, length(l) - 1)), z3.Not(mem(take(l, length(l) - 1), nth(l, length(l) - 1)))))
z3.RecAddDefinition(NoDup, [_nd], _nodup(_nd))
UNFOLD['NoDuplicates'] = _nodup


class ValueUniqueness(Contract):
    """_value_uniqueness: returns the values that occur more than once -- an empty list exactly when the values are pairwise different"""
    key = 'tartiflette/schema/schema.py::_value_uniqueness'
    property_ids = ('C12',)
    params = ['values']

    def args(self, en, names):
        self.A = super().args(en, names)
        return self.A

    def pre(self, A, st):
        return [('values', V.is_List(A['values']))]

    def _inv(self, en, st, k, st0):
        vs = V.items(self.A['values'])
        seen = V.items(en.read(st.env['seen'], st))
        double = V.items(en.read(st.env['double'], st))
        return {'seen_is_the_prefix': seen == take(vs, k), 'doubles_iff_a_repeat_so_far': VL.is_nil(double) == NoDup(take(vs, k))}

    @property
    def loops(self):
        return {0: LoopContract(self._inv)}

    def post(self, A, st0, out):
        if out.kind == 'raise':
            return never_raises(out)
        return [('empty_iff_pairwise_different', z3.And(V.is_List(out.value), VL.is_nil(V.items(out.value)) == NoDup(V.items(A['values']))))]


CONTRACTS.append(ValueUniqueness())


from pyvc.values import MapList            # noqa: E402
from pyvc.builtins import str_of           # noqa: E402

EnumValueTexts = MapList('enum_value_text', lambda ev: str_of(attr0(ev, 'value')))


def enum_values_unique(p):
    t = V.snd(p)
    return z3.Implies(exact(t, 'GraphQLEnumType'), NoDup(EnumValueTexts(V.items(attr0(t, 'values')))))


EnumsUnique = ForallList('enum_type_has_unique_values', enum_values_unique)
AllEnumValueObjects = ForallList('enum_value_object', lambda ev: z3.And(exact(ev, 'GraphQLEnumValue'), V.oref(ev) >= 0))
AllEnumEntries = ForallList('enum_type_entry', lambda p: z3.And(V.is_Pair(p), V.is_Str(V.fst(p)), V.is_Obj(V.snd(p)),
                                                               z3.Implies(exact(V.snd(p), 'GraphQLEnumType'), z3.And(V.oref(V.snd(p)) >= 0, V.is_List(attr0(V.snd(p), 'values')),
                                                                                                                     AllEnumValueObjects(V.items(attr0(V.snd(p), 'values')))))))


class ValidateEnumValuesUnique(Contract):
    """_validate_enum_values_are_unique: reports iff some enum type declares the same value (by its text) twice"""
    key = S_ + '_validate_enum_values_are_unique'
    property_ids = ('C12',)
    params = ['self']
    self_class = 'GraphQLSchema'
    comp_maps = {0: (EnumValueTexts, lambda en: [])}

    def args(self, en, names):
        self.A = super().args(en, names)
        return self.A

    def pre(self, A, st):
        s = A['self']
        return [('schema', z3.And(exact(s, 'GraphQLSchema'), V.oref(s) >= 0, V.is_Dict(attr0(s, 'type_definitions')), AllEnumEntries(V.ditems(attr0(s, 'type_definitions')))))]

    def _outer(self, en, st, k, st0):
        errors = V.items(en.read(st.env['errors'], st))
        return {'errors_iff_a_duplicated_enum_value_so_far': VL.is_nil(errors) == EnumsUnique(take(V.ditems(attr0(self.A['self'], 'type_definitions')), k))}

    def _inner(self, en, st, j, st0):
        errors = V.items(en.read(st.env['errors'], st))
        e0 = V.items(en.read(st0.env['errors'], st0))
        return {'one_error_per_duplicate': VL.is_nil(errors) == z3.And(VL.is_nil(e0), j <= 0)}

    @property
    def loops(self):
        return {0: LoopContract(self._outer), 1: LoopContract(self._inner)}

    def post(self, A, st0, out):
        if out.kind == 'raise':
            return never_raises(out)
        tl = V.ditems(attr0(A['self'], 'type_definitions'))
        return [('reports_iff_some_enum_repeats_a_value', z3.And(V.is_List(out.value), VL.is_nil(V.items(out.value)) == EnumsUnique(tl)))]


CONTRACTS.append(ValidateEnumValuesUnique())
