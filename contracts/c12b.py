"""C12 (continued) -- the aggregator `_validate` and further schema rule validators."""
import z3
from pyvc.values import *
from pyvc.values import UNFOLD, ForallList, LEMMA_HOOKS
from pyvc.contracts import Contract, Lemma
from pyvc.symexec import attr0, field0, LoopContract, PyFunc, PyTuple, Raise
from .common import *
from .c12 import S_, schema_types_wf, AllTypeEntries

VALIDATORS = ['_validate_schema_named_types', '_validate_object_follow_interfaces', '_validate_schema_root_types_exist', '_validate_non_empty_object',
              '_validate_union_is_acceptable', '_validate_all_scalars_have_implementations', '_validate_enum_values_are_unique',
              '_validate_arguments_have_valid_type', '_validate_input_type_composed_of_input_type', '_validate_directive_implementation']
ErrorsOf = z3.Function('ErrorsReportedBy', V, V, V)       # (schema, rule name): the list that rule validator returns (each has / will have its own contract)


class ValidateAggregator(Contract):
    """GraphQLSchema._validate: every rule validator runs, and the schema is refused (GraphQLSchemaError) exactly when at least one of them reported
    an error -- no reported violation is dropped on the way to Engine.cook"""
    key = S_ + '_validate'
    property_ids = ('C12',)
    params = ['self']
    self_class = 'GraphQLSchema'
    unroll_limit = 16          # the loop over the literal list of rule validators is unrolled
    # message text is opaque (string formatting of a list of str never raises)
    callee_models = {'tartiflette/schema/schema.py::_format_schema_error_message': lambda en, st, a, kw: [(st, V.Str(fresh('msg', IntS)))]}

    def args(self, en, names):
        self.A = super().args(en, names)
        return self.A

    def pre(self, A, st):
        s = A['self']
        return [('schema', z3.And(exact(s, 'GraphQLSchema'), V.oref(s) >= 0))] + [(f"rule_{v}", V.is_List(ErrorsOf(s, S(v)))) for v in VALIDATORS]

    def ghost0(self, A):
        return {'ran': V.List(VL.nil)}

    def _run(self, attr):
        def run(en, s, a, kw, attr=attr):
            return [(s.put_ghost('ran', V.List(snoc(V.items(s.ghost['ran']), S(attr)))), ErrorsOf(self.A['self'], S(attr)))]
        return run

    def getattr_hook(self, en, st, v, attr):
        if z3.eq(v, self.A['self']) and attr.startswith('_validate_'):
            # a bound method object: a callable value naming the rule (stored in the validators list, called from it)
            return [(st, PyFunc(attr, self._run(attr), term=V.Fun(z3.IntVal(-7), mklist(V.Pair(S('rule'), S(attr))))))]
        return None

    def call_model(self, en, st, f, a, kw):
        f = z3.simplify(f)
        out = []
        for v in VALIDATORS:
            q = en.fork(st, f == V.Fun(z3.IntVal(-7), mklist(V.Pair(S('rule'), S(v)))))
            if q is not None:
                out += self._run(v)(en, q, a, kw)
        return out or None

    def post(self, A, st0, out):
        s = A['self']
        some = z3.Or(*[z3.Not(VL.is_nil(V.items(ErrorsOf(s, S(v))))) for v in VALIDATORS])
        ran = ('every_checked_rule_ran_once', out.st.ghost['ran'] == V.List(mklist(*[S(v) for v in VALIDATORS])))
        if out.kind == 'raise':
            return [ran, ('refused_only_for_a_reported_violation', z3.And(some, exact(out.value, 'GraphQLSchemaError')))]
        return [ran, ('accepted_only_without_any_reported_violation', z3.And(z3.Not(some), out.value == V.Bool(True)))]


class ValidateRootTypes(Contract):
    """_validate_schema_root_types_exist: the query root type must be defined; a mutation / subscription root type declared under a non-default
    name must be defined too"""
    key = S_ + '_validate_schema_root_types_exist'
    property_ids = ('C12',)
    params = ['self']
    self_class = 'GraphQLSchema'

    def pre(self, A, st):
        s = A['self']
        return [('schema', z3.And(exact(s, 'GraphQLSchema'), V.oref(s) >= 0, V.is_Dict(attr0(s, 'type_definitions')), V.is_Str(attr0(s, 'query_operation_name')),
                                  V.is_Str(attr0(s, 'mutation_operation_name')), V.is_Str(attr0(s, 'subscription_operation_name'))))]

    def post(self, A, st0, out):
        if out.kind == 'raise':
            return never_raises(out)
        s = A['self']
        defined = lambda n: lookup(V.ditems(attr0(s, 'type_definitions')), n) != V.Missing
        q, m, su = attr0(s, 'query_operation_name'), attr0(s, 'mutation_operation_name'), attr0(s, 'subscription_operation_name')
        ok = z3.And(defined(q), z3.Or(m == S('Mutation'), defined(m)), z3.Or(su == S('Subscription'), defined(su)))
        return [('reports_iff_a_root_type_is_missing', z3.And(V.is_List(out.value), VL.is_nil(V.items(out.value)) == ok))]


def scalar_complete(t):
    return z3.And(attr0(t, 'coerce_output') != V.None_, attr0(t, 'coerce_input') != V.None_, attr0(t, 'parse_literal') != V.None_)


ScalarsOk = z3.RecFunction('ScalarsImplementedUpTo', VL, IntS, BoolS)
_tl = z3.Const('sc_tl', VL)
_k = z3.Int('sc_k')
_scok = lambda tl, k: z3.If(k <= 0, True, z3.And(ScalarsOk(tl, k - 1), z3.Implies(exact(V.snd(nth(tl, k - 1)), 'GraphQLScalarType'), scalar_complete(V.snd(nth(tl, k - 1))))))
z3.RecAddDefinition(ScalarsOk, [_tl, _k], _scok(_tl, _k))
UNFOLD['ScalarsImplementedUpTo'] = _scok


class ValidateScalarsImplemented(Contract):
    """_validate_all_scalars_have_implementations: reports iff some scalar type lacks coerce_output, coerce_input or parse_literal"""
    key = S_ + '_validate_all_scalars_have_implementations'
    property_ids = ('C12',)
    params = ['self']
    self_class = 'GraphQLSchema'

    def args(self, en, names):
        self.A = super().args(en, names)
        return self.A

    def pre(self, A, st):
        return [('schema', schema_types_wf(A['self']))]

    def _inv(self, en, st, k, st0):
        errors = V.items(en.read(st.env['errors'], st))
        return {'errors_iff_incomplete_scalar_so_far': VL.is_nil(errors) == ScalarsOk(V.ditems(attr0(self.A['self'], 'type_definitions')), k)}

    @property
    def loops(self):
        return {0: LoopContract(self._inv)}

    def post(self, A, st0, out):
        if out.kind == 'raise':
            return never_raises(out)
        tl = V.ditems(attr0(A['self'], 'type_definitions'))
        return [('reports_iff_some_scalar_is_incomplete', z3.And(V.is_List(out.value), VL.is_nil(V.items(out.value)) == ScalarsOk(tl, length(tl))))]


NotIn = z3.RecFunction('NameNotAmongUpTo', V, VL, IntS, BoolS)
_nm = z3.Const('un_name', V)
_notin = lambda nm, l, k: z3.If(k <= 0, True, z3.And(NotIn(nm, l, k - 1), nth(l, k - 1) != nm))
z3.RecAddDefinition(NotIn, [_nm, _tl, _k], _notin(_nm, _tl, _k))
UNFOLD['NameNotAmongUpTo'] = _notin


def union_self_free2(p):
    t = V.snd(p)
    ms = V.items(attr0(t, 'types'))
    return z3.Implies(exact(t, 'GraphQLUnionType'), NotIn(V.fst(p), ms, length(ms)))


UnionsOk2 = z3.RecFunction('UnionsAcceptableUpTo2', VL, IntS, BoolS)
_unok2 = lambda tl, k: z3.If(k <= 0, True, z3.And(UnionsOk2(tl, k - 1), union_self_free2(nth(tl, k - 1))))
z3.RecAddDefinition(UnionsOk2, [_tl, _k], _unok2(_tl, _k))
UNFOLD['UnionsAcceptableUpTo2'] = _unok2
AllUnionEntries = ForallList('union_entry', lambda p: z3.Implies(exact(V.snd(p), 'GraphQLUnionType'), V.is_List(attr0(V.snd(p), 'types'))))


class ValidateUnions(Contract):
    """_validate_union_is_acceptable: reports iff some union type lists itself as a member"""
    key = S_ + '_validate_union_is_acceptable'
    property_ids = ('C12',)
    params = ['self']
    self_class = 'GraphQLSchema'

    def args(self, en, names):
        self.A = super().args(en, names)
        return self.A

    def pre(self, A, st):
        tl = V.ditems(attr0(A['self'], 'type_definitions'))
        return [('schema', schema_types_wf(A['self'])), ('unions', AllUnionEntries(tl))]

    def _outer(self, en, st, k, st0):
        errors = V.items(en.read(st.env['errors'], st))
        return {'errors_iff_self_containing_union_so_far': VL.is_nil(errors) == UnionsOk2(V.ditems(attr0(self.A['self'], 'type_definitions')), k)}

    def _inner(self, en, st, j, st0):
        errors = V.items(en.read(st.env['errors'], st))
        e0 = V.items(en.read(st0.env['errors'], st0))
        ms = V.items(attr0(st.env['gql_type'], 'types'))
        return {'errors_iff_self_among_members_so_far': VL.is_nil(errors) == z3.And(VL.is_nil(e0), NotIn(st.env['type_name'], ms, j))}

    @property
    def loops(self):
        return {0: LoopContract(self._outer), 1: LoopContract(self._inner)}

    def post(self, A, st0, out):
        if out.kind == 'raise':
            return never_raises(out)
        tl = V.ditems(attr0(A['self'], 'type_definitions'))
        return [('reports_iff_some_union_contains_itself', z3.And(V.is_List(out.value), VL.is_nil(V.items(out.value)) == UnionsOk2(tl, length(tl))))]


CONTRACTS = [ValidateAggregator(), ValidateRootTypes(), ValidateScalarsImplemented(), ValidateUnions()]
LEMMAS = []
