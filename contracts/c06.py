"""C06 / C07 -- validation rules (rule layer, DESIGN Appendix A): `violations == [] <=> the June-2018 condition holds` for the
functions that decide rule 5.8.5 (all variable usages are allowed) and rule 5.5.2.3 (fragment spread is possible).
no_false_accept serves C07, no_false_reject serves C06."""
import z3
from pyvc.values import *
from pyvc.values import UNFOLD, ForallList, LEMMA_HOOKS
from pyvc.contracts import Contract, Lemma
from pyvc.symexec import attr0, field0, LoopContract, PyFunc, PyTuple, Raise
from pyvc.builtins import str_of
from .common import *
from .c12 import GqlTypeWf

Q = 'tartiflette/language/validators/query/'
U = Q + 'all_variable_usages_are_allowed.py::'

# ---- 5.8.5 AreTypesCompatible(variableType, locationType)  (type nodes of the document vs type references of the schema)
TypeNodeWf = z3.RecFunction('TypeNodeWf', V, BoolS)
_n = z3.Const('tn_', V)
_tnwf = lambda n: z3.And(V.oref(n) >= 0, z3.Or(
    z3.And(exact(n, 'NamedTypeNode'), exact(attr0(n, 'name'), 'NameNode'), V.oref(attr0(n, 'name')) >= 0, V.is_Str(attr0(attr0(n, 'name'), 'value'))),
    z3.And(z3.Or(exact(n, 'ListTypeNode'), exact(n, 'NonNullTypeNode')), TypeNodeWf(attr0(n, 'type')))))
z3.RecAddDefinition(TypeNodeWf, [_n], _tnwf(_n))
UNFOLD['TypeNodeWf'] = _tnwf

ATC = z3.RecFunction('AreTypesCompatible', V, V, BoolS)
_vt, _st = z3.Consts('vt_ st_', V)


def _atc(vt, st):
    return z3.If(exact(st, 'GraphQLNonNull'), z3.And(exact(vt, 'NonNullTypeNode'), ATC(attr0(vt, 'type'), attr0(st, 'gql_type'))),
           z3.If(exact(vt, 'NonNullTypeNode'), ATC(attr0(vt, 'type'), st),
           z3.If(exact(st, 'GraphQLList'), z3.And(exact(vt, 'ListTypeNode'), ATC(attr0(vt, 'type'), attr0(st, 'gql_type'))),
           z3.If(exact(vt, 'ListTypeNode'), False, V.Str(V.s(attr0(attr0(vt, 'name'), 'value'))) == str_of(st)))))


z3.RecAddDefinition(ATC, [_vt, _st], _atc(_vt, _st))
UNFOLD['AreTypesCompatible'] = _atc


class TypeCompatibility(Contract):
    key = U + '_validate_type_compatibility'
    property_ids = ('C06', 'C07', 'C05')
    params = ['var_type', 'schema_type']
    recursive = True

    def pre(self, A, st):
        return [('variable_type', TypeNodeWf(A['var_type'])), ('location_type', GqlTypeWf(A['schema_type']))]

    def post(self, A, st0, out):
        if out.kind == 'raise':
            return never_raises(out)
        return [('are_types_compatible', out.value == V.Bool(ATC(A['var_type'], A['schema_type'])))]


def usage_allowed(arg, var):
    """IsVariableUsageAllowed(variableDefinition, variableUsage) of 5.8.5"""
    lt, vt = attr0(arg, 'gql_type'), attr0(var, 'type')
    dv = attr0(var, 'default_value')
    has_var_default = z3.And(dv != V.None_, z3.Not(exact(dv, 'NullValueNode')))
    has_loc_default = attr0(arg, 'default_value') != V.None_
    return z3.If(z3.And(exact(lt, 'GraphQLNonNull'), z3.Not(exact(vt, 'NonNullTypeNode'))),
                 z3.And(z3.Or(has_var_default, has_loc_default), ATC(vt, attr0(lt, 'gql_type'))),
                 ATC(vt, lt))


def var_def_node_wf(v):
    dv = attr0(v, 'default_value')
    return z3.And(exact(v, 'VariableDefinitionNode'), V.oref(v) >= 0, TypeNodeWf(attr0(v, 'type')), z3.Or(dv == V.None_, ast_node(dv)),
                  exact(attr0(v, 'variable'), 'VariableNode'), V.oref(attr0(v, 'variable')) >= 0,
                  exact(attr0(attr0(v, 'variable'), 'name'), 'NameNode'), V.oref(attr0(attr0(v, 'variable'), 'name')) >= 0,
                  V.is_Str(attr0(attr0(attr0(v, 'variable'), 'name'), 'value')))


def schema_arg_wf(a):
    return z3.And(exact(a, 'GraphQLArgument'), V.oref(a) >= 0, GqlTypeWf(attr0(a, 'gql_type')),
                  z3.Or(attr0(a, 'default_value') == V.None_, ast_node(attr0(a, 'default_value'))))


class ValidateUsage(Contract):
    key = U + '_validate_usage'
    property_ids = ('C06', 'C07', 'C05')
    params = ['schema_argument', 'variable_used']

    def pre(self, A, st):
        return [('argument', schema_arg_wf(A['schema_argument'])), ('variable', var_def_node_wf(A['variable_used']))]

    def post(self, A, st0, out):
        if out.kind == 'raise':
            return never_raises(out)
        return [('is_variable_usage_allowed', out.value == V.Bool(usage_allowed(A['schema_argument'], A['variable_used'])))]


# ---- the variable a usage refers to: the definition of that name in THIS operation
def var_name(v):
    return attr0(attr0(attr0(v, 'variable'), 'name'), 'value')


FindVar = z3.RecFunction('FirstVariableNamedFrom', VL, V, IntS, V)      # first definition named `name` at index >= i, else None
_vs = z3.Const('vs_', VL)
_nm = z3.Const('nm_', V)
_k = z3.Int('fvk_')
_fv = lambda vs, nm, i: z3.If(z3.Or(i < 0, i >= length(vs)), V.None_, z3.If(var_name(nth(vs, i)) == nm, nth(vs, i), FindVar(vs, nm, i + 1)))
z3.RecAddDefinition(FindVar, [_vs, _nm, _k], _fv(_vs, _nm, _k))
UNFOLD['FirstVariableNamedFrom'] = _fv
AllVarDefNodes = ForallList('variable_definition_node', var_def_node_wf)


class FindVariableByName(Contract):
    key = U + '_find_variable_by_name'
    property_ids = ('C06', 'C07')
    params = ['variables', 'name']

    def args(self, en, names):
        self.A = super().args(en, names)
        return self.A

    def pre(self, A, st):
        return [('definitions', z3.And(V.is_List(A['variables']), AllVarDefNodes(V.items(A['variables'])))), ('name', V.is_Str(A['name']))]

    def _inv(self, en, st, k, st0):
        vs = V.items(self.A['variables'])
        return {'answer_is_still_ahead': FindVar(vs, self.A['name'], k) == FindVar(vs, self.A['name'], 0)}

    @property
    def loops(self):
        return {0: LoopContract(self._inv)}

    def post(self, A, st0, out):
        if out.kind == 'raise':
            return never_raises(out)
        vs = V.items(A['variables'])
        return [('first_definition_of_that_name_in_this_list', out.value == FindVar(vs, A['name'], 0))]


# ---- rule 5.5.2.3: a spread / inline fragment is possible iff the possible types of its condition and of the parent type intersect
F = Q + 'fragment_spread_is_possible.py::'
PossibleSet = z3.Function('possible_types_set_of', V, V)            # the set of possible object type names of a composite type


def Overlap(ct, pts):
    from pyvc.builtins import set_inter
    return z3.Not(VL.is_nil(set_inter(V.sitems(PossibleSet(ct)), z3.If(V.is_Set(pts), V.sitems(pts), V.items(pts)))))


class ValidateNode(Contract):
    key = F + '_validate_node'
    property_ids = ('C06', 'C07')
    params = ['node', 'schema', 'possible_types_set']

    def args(self, en, names):
        self.A = super().args(en, names)
        return self.A

    def pre(self, A, st):
        n, tc = A['node'], attr0(A['node'], 'type_condition')
        return [('node', z3.And(z3.Or(exact(n, 'InlineFragmentNode'), exact(n, 'FragmentDefinitionNode')), V.oref(n) >= 0,
                                z3.Or(tc == V.None_, z3.And(exact(tc, 'NamedTypeNode'), V.oref(tc) >= 0, exact(attr0(tc, 'name'), 'NameNode'),
                                                           V.oref(attr0(tc, 'name')) >= 0, V.is_Str(attr0(attr0(tc, 'name'), 'value')))))),
                ('schema', z3.And(exact(A['schema'], 'GraphQLSchema'), V.oref(A['schema']) >= 0, V.is_Dict(attr0(A['schema'], 'type_definitions'))))]

    def cond_type(self, A):
        return lookup(V.ditems(attr0(A['schema'], 'type_definitions')), attr0(attr0(attr0(A['node'], 'type_condition'), 'name'), 'value'))

    def elem_preds(self, A):
        return []

    def getattr_hook(self, en, st, v, attr):
        if attr == 'possible_types_set' and not z3.eq(v, self.A['schema']):
            return [(st.assume(V.is_Set(PossibleSet(v))), PossibleSet(v))]
        return None

    def post(self, A, st0, out):
        if out.kind == 'raise':
            return never_raises(out)
        tc = attr0(A['node'], 'type_condition')
        ct = self.cond_type(A)
        impossible = z3.And(tc != V.None_, ct != V.Missing, inst(ct, 'GraphQLCompositeType'), z3.Not(Overlap(ct, A['possible_types_set'])))
        return [('possible_iff_types_overlap', out.value == V.Bool(z3.Not(impossible)))]


SprFrags = z3.Function('SpreadedFragments', V, V, V)                 # (fragment definitions, spreads of one parent type) -> their fragment definitions
SpreadsPossible = z3.Function('AllSpreadsPossible', V, V, V, BoolS)    # (parent type name, fragment definitions, spread sites): rule holds for these sites
PossUpTo = z3.RecFunction('SpreadsPossibleUpTo', V, VL, IntS, BoolS)   # (fragments, spreaded_in items, k)
_fr = z3.Const('fr_', V)
_si = z3.Const('si_', VL)
_sk = z3.Int('sk_')
_poss = lambda fr, si, k: z3.If(k <= 0, True, z3.And(PossUpTo(fr, si, k - 1),
                                                    SpreadsPossible(V.fst(nth(si, k - 1)), SprFrags(fr, V.snd(nth(si, k - 1))), V.snd(nth(si, k - 1)))))
z3.RecAddDefinition(PossUpTo, [_fr, _si, _sk], _poss(_fr, _si, _sk))
UNFOLD['SpreadsPossibleUpTo'] = _poss


def spread_site(x):
    sp = lookup(V.ditems(x), S('spread'))
    return z3.And(V.is_Dict(x), exact(sp, 'FragmentSpreadNode'), V.oref(sp) >= 0, exact(attr0(sp, 'name'), 'NameNode'), V.oref(attr0(sp, 'name')) >= 0,
                  V.is_Str(attr0(attr0(sp, 'name'), 'value')), lookup(V.ditems(x), S('path')) != V.Missing,
                  z3.Or(lookup(V.ditems(x), S('path')) == V.None_, PathWf(lookup(V.ditems(x), S('path')))))


AllSites = ForallList('spread_site', spread_site)
AllSiteEntries = ForallList('spread_site_entry', lambda p: z3.And(V.is_Pair(p), V.is_Str(V.fst(p)), V.is_List(V.snd(p)), AllSites(V.items(V.snd(p)))))


class ValidateSpreads(Contract):
    """_validate_spreads: every parent type's spread sites are checked -- all of them, under that parent type (a fragment spread at two
    places is checked at both: possibility depends on the parent type of the site)"""
    key = F + 'FragmentSpreadIsPossible._validate_spreads'
    property_ids = ('C06', 'C07')
    params = ['self', 'fragments', 'spreaded_in', 'path', 'schema']
    self_class = 'FragmentSpreadIsPossible'

    def args(self, en, names):
        self.A = super().args(en, names)
        return self.A

    def pre(self, A, st):
        return [('spreaded_in', z3.And(V.is_Dict(A['spreaded_in']), AllSiteEntries(V.ditems(A['spreaded_in']))))]

    def extra_env(self, en, A):
        return {'_get_spreaded_fragment': PyFunc('_get_spreaded_fragment', lambda en, st, a, kw: [(st, SprFrags(en.read(a[0], st), en.read(a[1], st)))])}

    def getattr_hook(self, en, st, v, attr):
        if z3.eq(v, self.A['self']) and attr == '_validate_is_possible':
            def vip(en, st, a, kw):
                ok = SpreadsPossible(en.read(kw['type_name'], st), en.read(kw['nodes'], st), en.read(kw['locations'], st))
                errs = fresh('site_errors', VL)
                return [(st.assume(VL.is_nil(errs) == ok), V.List(errs))]
            return [(st, PyFunc('_validate_is_possible', vip))]
        return None

    def _inv(self, en, st, k, st0):
        errors = V.items(en.read(st.env['errors'], st))
        return {'errors_iff_some_site_impossible': VL.is_nil(errors) == PossUpTo(self.A['fragments'], V.ditems(self.A['spreaded_in']), k)}

    @property
    def loops(self):
        return {0: LoopContract(self._inv)}

    def post(self, A, st0, out):
        if out.kind == 'raise':
            return never_raises(out)
        si = V.ditems(A['spreaded_in'])
        return [('reports_iff_some_site_is_impossible', z3.And(V.is_List(out.value), VL.is_nil(V.items(out.value)) == PossUpTo(A['fragments'], si, length(si))))]


def frag_node_wf(n):
    tc = attr0(n, 'type_condition')
    return z3.And(z3.Or(exact(n, 'InlineFragmentNode'), z3.And(exact(n, 'FragmentDefinitionNode'), exact(attr0(n, 'name'), 'NameNode'), V.oref(attr0(n, 'name')) >= 0,
                                                                V.is_Str(attr0(attr0(n, 'name'), 'value')))),
                  V.oref(n) >= 0,
                  z3.Or(tc == V.None_, z3.And(exact(tc, 'NamedTypeNode'), V.oref(tc) >= 0, exact(attr0(tc, 'name'), 'NameNode'), V.oref(attr0(tc, 'name')) >= 0,
                                             V.is_Str(attr0(attr0(tc, 'name'), 'value')))))


AllFragNodes = ForallList('fragment_node', frag_node_wf)


def node_possible(schema, node, parent_type):
    """5.5.2.3 for one spread / inline fragment under a composite parent type"""
    tc = attr0(node, 'type_condition')
    ct = lookup(V.ditems(attr0(schema, 'type_definitions')), attr0(attr0(tc, 'name'), 'value'))
    return z3.Not(z3.And(tc != V.None_, ct != V.Missing, inst(ct, 'GraphQLCompositeType'), z3.Not(Overlap(ct, PossibleSet(parent_type)))))


NodesPossible = z3.RecFunction('NodesPossibleUpTo', V, VL, V, IntS, BoolS)      # schema, nodes, parent type, k
_sc, _pt = z3.Consts('np_schema np_parent', V)
_nl = z3.Const('np_nodes', VL)
_nk = z3.Int('np_k')
_np = lambda sc, nl, pt, k: z3.If(k <= 0, True, z3.And(NodesPossible(sc, nl, pt, k - 1), node_possible(sc, nth(nl, k - 1), pt)))
z3.RecAddDefinition(NodesPossible, [_sc, _nl, _pt, _nk], _np(_sc, _nl, _pt, _nk))
UNFOLD['NodesPossibleUpTo'] = _np


class ValidateIsPossible(Contract):
    """_validate_is_possible (with the private helper _validate_node executed in place, so that the pair is checked as one unit and a
    refactoring of the helper's signature does not make the contract stale): an error is reported exactly when some node's condition
    is an existing composite type whose possible types do not overlap those of the (existing, composite) parent type"""
    key = F + 'FragmentSpreadIsPossible._validate_is_possible'
    property_ids = ('C06', 'C07')
    params = ['self', 'type_name', 'nodes', 'message', 'path', 'schema', 'locations']
    self_class = 'FragmentSpreadIsPossible'
    inline = (F + '_validate_node',)
    timeout_ms = 20000

    def args(self, en, names):
        self.A = super().args(en, names)
        return self.A

    def pre(self, A, st):
        sc = A['schema']
        return [('schema', z3.And(exact(sc, 'GraphQLSchema'), V.oref(sc) >= 0, V.is_Dict(attr0(sc, 'type_definitions')))),
                ('type_name', V.is_Str(A['type_name'])), ('nodes', z3.And(V.is_List(A['nodes']), AllFragNodes(V.items(A['nodes'])))),
                ('message', z3.Or(A['message'] == S('inline'), z3.And(A['message'] == S('spread'), V.is_List(A['locations']), AllSites(V.items(A['locations'])),
                                                                        length(V.items(A['locations'])) == length(V.items(A['nodes'])),
                                                                        AllNamedFrags(V.items(A['nodes']))))),
                ('self', V.oref(A['self']) >= 0), ('path', z3.Or(A['path'] == V.None_, PathWf(A['path'])))]

    def parent(self, A=None):
        A = A or self.A
        return lookup(V.ditems(attr0(A['schema'], 'type_definitions')), A['type_name'])

    def getattr_hook(self, en, st, v, attr):
        if attr == 'possible_types_set' and not z3.eq(v, self.A['schema']):
            return [(st.assume(V.is_Set(PossibleSet(v))), PossibleSet(v))]
        return None

    def _inv(self, en, st, k, st0):
        errors = V.items(en.read(st.env['errors'], st))
        pth = en.read(st.env['path'], st)
        return {'errors_iff_some_node_impossible': VL.is_nil(errors) == NodesPossible(self.A['schema'], V.items(self.A['nodes']), self.parent(), k),
                'path_is_a_path': z3.Or(pth == V.None_, PathWf(pth))}

    @property
    def loops(self):
        return {0: LoopContract(self._inv)}

    def post(self, A, st0, out):
        if out.kind == 'raise':
            return never_raises(out)
        pt = self.parent(A)
        nl = V.items(A['nodes'])
        checked = z3.And(pt != V.Missing, inst(pt, 'GraphQLCompositeType'))
        return [('is_list', V.is_List(out.value)),
                ('reports_iff_some_node_is_impossible', VL.is_nil(V.items(out.value)) == z3.Or(z3.Not(checked), NodesPossible(A['schema'], nl, pt, length(nl))))]


AllNamedFrags = ForallList('named_fragment', lambda n: z3.And(exact(n, 'FragmentDefinitionNode'), ast_node(attr0(n, 'type_condition'))))
CONTRACTS = [TypeCompatibility(), ValidateUsage(), FindVariableByName(), ValidateNode(), ValidateSpreads(), ValidateIsPossible()]
LEMMAS = []


