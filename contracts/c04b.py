"""C04 (continued) -- how a VariableDefinitionNode becomes the executable definition coerce_variables works on: the class invariant `baked_var_def`
that CoerceVariables assumes is established here, at its source."""
import z3
from pyvc.values import *
from pyvc.contracts import Contract, Lemma
from pyvc.symexec import attr0, field0, PyFunc, fun_id
from pyvc.builtins import partial_bind
from specs import inputs as SI
from .common import *
from .c04 import baked_var_def

TypeFromAst = z3.Function('SchemaTypeFromAst', V, V, V)          # schema_type_from_ast(schema, type node)
InCoercerT = z3.Function('InputCoercerBuiltFor', V, V)           # get_input_coercer(type): its own contract (denotes BehT(type))
LitCoercerT = z3.Function('LiteralCoercerBuiltFor', V, V)        # get_literal_coercer(type): its own contract (C05)


def _assume_fun(t):
    return lambda en, st, a, kw: [(st.assume(V.is_Fun(t(en.read(a[0], st)))), t(en.read(a[0], st)))]


class VariableDefinitionToExecutable(Contract):
    """variable_definition_node_to_executable: name, declared type, default (or UNDEFINED) and definition are taken from the node; the coercer is
    variable_coercer bound to THIS definition, to the input coercer of the declared type (given the node) and to the literal coercer of that type"""
    key = 'tartiflette/execution/nodes/variable_definition.py::variable_definition_node_to_executable'
    property_ids = ('C04',)
    params = ['schema', 'variable_definition_node']
    callee_models = {'tartiflette/utils/type_from_ast.py::schema_type_from_ast': lambda en, st, a, kw: [(st, TypeFromAst(en.read(a[0], st), en.read(a[1], st)))],
                     'tartiflette/coercers/inputs/compute.py::get_input_coercer': _assume_fun(InCoercerT),
                     'tartiflette/coercers/literals/compute.py::get_literal_coercer': _assume_fun(LitCoercerT)}

    def pre(self, A, st):
        n, s = A['variable_definition_node'], A['schema']
        v = attr0(n, 'variable')
        t = TypeFromAst(s, attr0(n, 'type'))
        return [('node', z3.And(exact(n, 'VariableDefinitionNode'), V.oref(n) >= 0, exact(v, 'VariableNode'), V.oref(v) >= 0, exact(attr0(v, 'name'), 'NameNode'),
                                V.oref(attr0(v, 'name')) >= 0, V.is_Str(attr0(attr0(v, 'name'), 'value')),
                                z3.Or(attr0(n, 'default_value') == V.None_, ast_node(attr0(n, 'default_value'))))),
                ('declared_type_resolves', z3.And(inst(t, 'GraphQLType'), V.oref(t) >= 0))]       # variables-are-input-types / known types hold for validated documents

    def post(self, A, st0, out):
        if out.kind == 'raise':
            return never_raises(out)
        n, s, d, st = A['variable_definition_node'], A['schema'], out.value, out.st
        t = TypeFromAst(s, attr0(n, 'type'))
        dv = attr0(n, 'default_value')
        ic = V.Fun(V.fname(InCoercerT(t)), partial_bind(V.fbound(InCoercerT(t)), [n], []))
        return [('fields_from_the_node', z3.And(exact(d, 'ExecutableVariableDefinition'), fld(st, 'name', d) == attr0(attr0(attr0(n, 'variable'), 'name'), 'value'),
                                                fld(st, 'graphql_type', d) == t, fld(st, 'default_value', d) == z3.If(dv == V.None_, V.Undef, dv), fld(st, 'definition', d) == n)),
                ('coercer_bound_to_this_definition', z3.And(V.fname(fld(st, 'coercer', d)) == fun_id(SI.K_VARCOERCER), lookup(V.fbound(fld(st, 'coercer', d)), V.Int(0)) == d)),
                ('input_coercer_of_the_declared_type_given_the_node', lookup(V.fbound(fld(st, 'coercer', d)), S('input_coercer')) == ic),
                ('literal_coercer_of_the_declared_type', lookup(V.fbound(fld(st, 'coercer', d)), S('literal_coercer')) == LitCoercerT(t))]


CONTRACTS = [VariableDefinitionToExecutable()]
LEMMAS = []
