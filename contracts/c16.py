"""C16 -- cache-key laws: the (query, schema) key of the parsing cache distinguishes schemas that differ (full equality),
equal schemas hash equally.  (The frame obligations of C16 live in contracts/frames.py.)"""
import z3
from pyvc.values import *
from pyvc.contracts import Contract, Lemma
from pyvc.symexec import attr0
from pyvc.builtins import hash_of
from .common import *

S_ = 'tartiflette/schema/schema.py::GraphQLSchema.'
NAMES = ('name', 'query_operation_name', 'mutation_operation_name', 'subscription_operation_name')


def schema_wf(s):
    return z3.And(exact(s, 'GraphQLSchema'), V.oref(s) >= 0, *[V.is_Str(attr0(s, a)) for a in NAMES], V.is_Dict(attr0(s, 'type_definitions')))


def same_schema(a, b):
    """what the cache key must distinguish: the name, the three root operation names and the whole type table"""
    return z3.And(*[attr0(a, n) == attr0(b, n) for n in NAMES], type_tables_equal(attr0(a, 'type_definitions'), attr0(b, 'type_definitions')))


type_tables_equal = z3.Function('type_tables_equal', V, V, BoolS)     # dict equality of two type tables (element __eq__ of the type classes)


class SchemaEq(Contract):
    key = S_ + '__eq__'
    property_ids = ('C16',)
    params = ['self', 'other']
    self_class = 'GraphQLSchema'

    def args(self, en, names):
        self.A = super().args(en, names)
        return self.A

    def pre(self, A, st):
        return [('self', schema_wf(A['self'])), ('other', z3.Or(schema_wf(A['other']), z3.Not(inst(A['other'], 'GraphQLSchema'))))]

    def getattr_hook(self, en, st, v, attr):
        return None

    def post(self, A, st0, out):
        if out.kind == 'raise':
            return never_raises(out)
        a, b = A['self'], A['other']
        td_a, td_b = attr0(a, 'type_definitions'), attr0(b, 'type_definitions')
        # the type tables are compared as whole dictionaries (keys AND values): modelled by structural equality of the dict terms
        spec = z3.Or(a == b, z3.And(inst(b, 'GraphQLSchema'), *[attr0(a, n) == attr0(b, n) for n in NAMES], td_a == td_b))
        return [('full_equality', out.value == V.Bool(spec))]


class SchemaHash(Contract):
    key = S_ + '__hash__'
    property_ids = ('C16',)
    params = ['self']
    self_class = 'GraphQLSchema'

    def pre(self, A, st):
        return [('self', schema_wf(A['self']))]

    def post(self, A, st0, out):
        if out.kind == 'raise':
            return never_raises(out)
        return [('hash_of_name', out.value == V.Int(hash_of(attr0(A['self'], 'name'))))]


a_, b_ = z3.Consts('sch_a sch_b', V)
CONTRACTS = [SchemaEq(), SchemaHash()]
LEMMAS = [Lemma('equal_schemas_hash_equally', [schema_wf(a_), schema_wf(b_), *[attr0(a_, n) == attr0(b_, n) for n in NAMES]],
                hash_of(attr0(a_, 'name')) == hash_of(attr0(b_, 'name')), property_ids=('C16',))]
