"""C04 -- variable values are coerced exactly as the specification prescribes (input coercers, variables).
Every coercer is verified against the oracle of specs/inputs.py relative to the behaviour its closure denotes."""
import z3
from pyvc.values import *
from pyvc.values import ForallList
from pyvc.contracts import Contract, Lemma
from pyvc.symexec import attr0, fun_id, LoopContract, PyRef, PyMapped
from specs import inputs as SI
from specs.inputs import Beh, Sem_ok, Sem_val, denote
from .common import *

F = 'tartiflette/coercers/inputs/'


def value_ok(v):
    """JSON values reaching a coercer (recursive well-formedness: no internal sentinels, string-keyed maps, IEEE floats)"""
    return SI.JsonWf(v)


def callable_or_none(d):
    return z3.Or(d == V.None_, V.is_Fun(d))


def input_call(en, st, f, value):
    """behavioural type InputCoercer: calling closure f on `value` returns the CoercionResult the oracle prescribes
    for the behaviour f denotes; raises nothing (DESIGN 2.5).  This is the induction hypothesis on closure structure."""
    b = denote(f)
    st2, cr = new_cr(en, st, Sem_ok(b, value), Sem_val(b, value))
    return [(st2, cr)]


class InputCoercer(Contract):
    """shape shared by the coercers of tartiflette/coercers/inputs: result == oracle(own denotation, value)"""
    property_ids = ('C04',)
    inner_params = ()          # parameters holding inner coercer closures (InputCoercer behaviour)
    body_value_not_none = False  # body verified for value != None (the null_coercer_wrapper decorator handles None)

    def beh(self, A):
        raise NotImplementedError

    def pre(self, A, st):
        return [('value', value_ok(A['value'])), ('node', node_or_none(A['node']))] + [(f"{p}_callable", V.is_Fun(A[p])) for p in self.inner_params]

    def call_model(self, en, st, f, a, kw):
        for p in self.inner_params:
            if z3.eq(f, self.A[p]):
                return input_call(en, st, f, en.read(a[2], st))
        return None

    def args(self, en, names):
        self.A = super().args(en, names)
        return self.A

    def post(self, A, st0, out):
        if out.kind == 'raise':
            return never_raises(out)
        b, j, r, st = self.beh(A), A['value'], out.value, out.st
        return [('result_wf', cr_wf(st, r)), ('accepts_iff_spec', cr_ok(st, r) == Sem_ok(b, j)),
                ('value_is_spec', z3.Implies(Sem_ok(b, j), cr_value(st, r) == Sem_val(b, j)))]


class Decorated(InputCoercer):
    """function decorated with @null_coercer_wrapper: the body is verified for value != None; callers see the decorated
    function (all values) -- justified by the contract of null_coercer_wrapper.<locals>.wrapper and the oracle's null rule"""
    decorators = ['null_coercer_wrapper']

    def pre_body(self, A, st):
        return [('not_none', A['value'] != V.None_)]


class NonNull(InputCoercer):
    key = F + 'non_null_coercer.py::non_null_coercer'
    params = ['parent_node', 'node', 'value', 'ctx', 'graphql_type', 'inner_coercer', 'path']
    inner_params = ('inner_coercer',)

    def beh(self, A):
        return Beh.NonNullB(denote(A['inner_coercer']))


class ListC(Decorated):
    key = F + 'list_coercer.py::list_coercer'
    params = ['parent_node', 'node', 'value', 'ctx', 'inner_coercer', 'path']
    inner_params = ('inner_coercer',)

    def beh(self, A):
        return Beh.ListB(denote(A['inner_coercer']))

    def _inv(self, en, st, k, st0):
        A = self.A
        b = denote(A['inner_coercer'])
        items = V.items(A['value'])
        errors = V.items(en.read(st.env['errors'], st))
        vals_ = V.items(en.read(st.env['coerced_values'], st))
        return {'errors_iff_bad_prefix': VL.is_nil(errors) == SI.AllOk(b, items, k),
                'values_are_prefix': z3.Implies(VL.is_nil(errors), vals_ == SI.Vals(b, items, k))}

    @property
    def loops(self):
        return {0: LoopContract(self._inv)}


class NullWrapper(Contract):
    """null_coercer_wrapper.<locals>.wrapper: None -> CoercionResult(None); otherwise the wrapped coercer's result"""
    key = F + 'null_coercer.py::null_coercer_wrapper.<locals>.wrapper'
    property_ids = ('C04',)
    params = ['parent_node', 'node', 'value', 'ctx']

    def args(self, en, names):
        A = super().args(en, names)
        self.A = A
        self.res_ok, self.res_val = fresh('wrapped_ok', BoolS), fresh('wrapped_val')
        return A

    def extra_env(self, en, A):
        def coercer(en, st, a, kw):
            st2, cr = new_cr(en, st, self.res_ok, self.res_val)
            return [(st2.put_ghost('called_with', en.read(a[2], st)), cr)]
        return {'coercer': PyFunc('coercer', coercer)}

    def pre(self, A, st):
        return [('value', value_ok(A['value']))]

    def post(self, A, st0, out):
        if out.kind == 'raise':
            return never_raises(out)
        r, st, j = out.value, out.st, A['value']
        return [('result_wf', cr_wf(st, r)),
                ('null_stays_null', z3.Implies(j == V.None_, z3.And(cr_ok(st, r), cr_value(st, r) == V.None_))),
                ('otherwise_wrapped', z3.Implies(j != V.None_, z3.And(cr_ok(st, r) == self.res_ok, z3.Implies(self.res_ok, cr_value(st, r) == self.res_val))))]


class ScalarC(Decorated):
    key = F + 'scalar_coercer.py::scalar_coercer'
    params = ['parent_node', 'node', 'value', 'ctx', 'scalar_type', 'path']

    def beh(self, A):
        return Beh.ScalarB(A['scalar_type'])

    def pre(self, A, st):
        t = A['scalar_type']
        return super().pre(A, st) + [('scalar_type', z3.And(exact(t, 'GraphQLScalarType'), V.oref(t) >= 0, V.is_Str(attr0(t, 'name'))))]

    def call_model(self, en, st, f, a, kw):
        t = self.A['scalar_type']
        if z3.eq(f, z3.Select(st.fields.get('coerce_input', field0('coerce_input')), t)) or z3.eq(f, attr0(t, 'coerce_input')):
            j = en.read(a[0], st)
            e = V.Obj(fresh('ecls', IntS), fresh('eref', IntS))
            return en.branches(st, [(z3.Not(SI.ScIn_raises(t, j)), SI.ScIn_val(t, j)),
                                    (z3.And(SI.ScIn_raises(t, j), en.is_instance_of(e, 'Exception')), Raise(e))])
        return None


class DirectivesC(InputCoercer):
    property_ids = ('C04', 'C13')
    key = F + 'directives_coercer.py::input_directives_coercer'
    params = ['parent_node', 'node', 'value', 'ctx', 'coercer', 'directives', 'path']
    inner_params = ('coercer',)

    def beh(self, A):
        return Beh.DirB(denote(A['coercer']), A['directives'])

    def pre(self, A, st):
        return super().pre(A, st) + [('directives', callable_or_none(A['directives'])), ('node_given', ast_node(A['node']))]

    def call_model(self, en, st, f, a, kw):
        A = self.A
        if z3.eq(f, A['directives']):
            v = en.read(a[1], st)
            e = V.Obj(fresh('ecls', IntS), fresh('eref', IntS))
            return en.branches(st, [(z3.Not(SI.Dir_raises(f, v)), SI.Dir_val(f, v)),
                                    (z3.And(SI.Dir_raises(f, v), en.is_instance_of(e, 'Exception'), z3.Not(en.is_instance_of(e, 'MultipleException'))), Raise(e)),
                                    (z3.And(SI.Dir_raises(f, v), exact(e, 'MultipleException'), V.oref(e) >= 0, exc_full_wf(e)), Raise(e))])
        return super().call_model(en, st, f, a, kw)


class DidYouMean(Contract):
    key = 'tartiflette/utils/errors.py::did_you_mean'
    property_ids = ('C04', 'C05')
    params = ['suggestion_list']
    mutable = {'suggestion_list': 'list'}

    def pre(self, A, st):
        v = A.get('suggestion_list@0', A['suggestion_list'])
        return [('is_list', V.is_List(v))] if z3.is_expr(v) else []

    def post(self, A, st0, out):
        if out.kind == 'raise':
            return never_raises(out)
        return [('returns_text', V.is_Str(out.value))]


def enum_value_wf(ev):
    return z3.And(exact(ev, 'GraphQLEnumValue'), V.oref(ev) >= 0, V.is_Fun(attr0(ev, 'input_coercer')))


class EnumC(Decorated):
    key = F + 'enum_coercer.py::enum_coercer'
    params = ['parent_node', 'node', 'value', 'ctx', 'enum_type', 'path']

    def beh(self, A):
        return Beh.EnumB(A['enum_type'])

    def pre(self, A, st):
        t = A['enum_type']
        ev = SI.enum_value_of(t, A['value'])
        return super().pre(A, st) + [
            ('enum_type', z3.And(exact(t, 'GraphQLEnumType'), V.oref(t) >= 0, V.is_Dict(attr0(t, '_value_map')), V.is_List(attr0(t, 'values')), V.is_Str(attr0(t, 'name')))),
            # instance of the class invariant of GraphQLEnumType established by bake_enum_values: the map holds baked enum values
            ('value_map_entry', z3.Or(ev == V.Missing, enum_value_wf(ev)))]

    def elem_preds(self, A):
        return [(V.items(attr0(A['enum_type'], 'values')), lambda x: z3.And(exact(x, 'GraphQLEnumValue'), V.oref(x) >= 0))]

    def call_model(self, en, st, f, a, kw):
        A = self.A
        ev = SI.enum_value_of(A['enum_type'], A['value'])
        if z3.eq(z3.simplify(f), z3.simplify(attr0(ev, 'input_coercer'))):
            v = en.read(a[1], st)
            e = V.Obj(fresh('ecls', IntS), fresh('eref', IntS))
            return en.branches(st, [(z3.Not(SI.EnumHook_raises(ev, v)), SI.EnumHook_val(ev, v)),
                                    (z3.And(SI.EnumHook_raises(ev, v), en.is_instance_of(e, 'Exception')), Raise(e))])
        return None


def input_field_wf(f):
    return z3.And(exact(f, 'GraphQLInputField'), V.oref(f) >= 0, V.is_Fun(attr0(f, 'input_coercer')), V.is_Fun(attr0(f, 'literal_coercer')),
                  inst(attr0(f, 'graphql_type'), 'GraphQLType'), V.oref(attr0(f, 'graphql_type')) >= 0,
                  z3.Or(attr0(f, 'default_value') == V.None_, ast_node(attr0(f, 'default_value'))))


class InputFieldValue(Contract):
    """input_field_value_coercer: one declared field of an input object against the provided value (Undef = absent)"""
    key = F + 'input_object_coercer.py::input_field_value_coercer'
    property_ids = ('C04',)
    params = ['parent_node', 'node', 'value', 'ctx', 'input_field', 'path']

    def args(self, en, names):
        self.A = super().args(en, names)
        return self.A

    def pre(self, A, st):
        return [('value', z3.Or(A['value'] == V.Undef, SI.JsonWf(A['value']))),
                ('node', node_or_none(A['node'])), ('input_field', input_field_wf(A['input_field']))]

    def call_model(self, en, st, f, a, kw):
        fl = self.A['input_field']
        f = z3.simplify(f)
        if z3.eq(f, z3.simplify(attr0(fl, 'input_coercer'))):
            return input_call(en, st, f, en.read(a[2], st))
        if z3.eq(f, z3.simplify(attr0(fl, 'literal_coercer'))):
            # the literal world (C05): result of coercing the field's default literal -- opaque here, shared with the oracle
            st2, cr = new_cr(en, st, SI.DefLit_ok(fl), SI.DefLit_val(fl))
            return [(st2, cr)]
        return None

    def post(self, A, st0, out):
        if out.kind == 'raise':
            return never_raises(out)
        f, j, r, st = A['input_field'], A['value'], out.value, out.st
        tag = SI.F_tag(f, j)
        return [('omitted_iff_spec', (r == V.Undef) == (tag == 2)),
                ('result_wf', z3.Implies(tag != 2, cr_wf(st, r))),
                ('accepts_iff_spec', z3.Implies(tag != 2, cr_ok(st, r) == (tag == 0))),
                ('value_is_spec', z3.Implies(tag == 0, cr_value(st, r) == SI.F_val(f, j)))]


class InputObjectC(Decorated):
    key = F + 'input_object_coercer.py::input_object_coercer'
    params = ['parent_node', 'node', 'value', 'ctx', 'input_object_type', 'path']

    def beh(self, A):
        return Beh.InObjB(A['input_object_type'])

    def pre(self, A, st):
        t = A['input_object_type']
        return super().pre(A, st) + [('input_object_type', z3.And(exact(t, 'GraphQLInputObjectType'), V.oref(t) >= 0, V.is_Dict(attr0(t, 'input_fields')), V.is_Str(attr0(t, 'name')))),
                                     ('json_keys_are_strings', z3.BoolVal(True))]

    def elem_preds(self, A):
        t = A['input_object_type']
        return [(SI.inobj_fields(t), lambda p: z3.And(V.is_Pair(p), V.is_Str(V.fst(p)), input_field_wf(V.snd(p)))),
                ]

    def _fields(self):
        return SI.inobj_fields(self.A['input_object_type']), V.ditems(self.A['value'])

    def _inv0(self, en, st, k, st0):
        fields, jit = self._fields()
        errors = V.items(en.read(st.env['errors'], st))
        vals_ = V.ditems(en.read(st.env['coerced_values'], st))
        return {'errors_iff_bad_prefix': VL.is_nil(errors) == SI.FOk(fields, jit, k),
                'values_are_prefix': z3.Implies(VL.is_nil(errors), vals_ == SI.FVal(fields, jit, k))}

    def _inv1(self, en, st, k, st0):
        fields, jit = self._fields()
        errors = V.items(en.read(st.env['errors'], st))
        return {'errors_iff_bad_or_unknown': VL.is_nil(errors) == z3.And(SI.FOk(fields, jit, length(fields)), SI.Known(jit, fields, k))}

    @property
    def loops(self):
        return {0: LoopContract(self._inv0), 1: LoopContract(self._inv1)}


def var_def_wf(d):
    return z3.And(exact(d, 'ExecutableVariableDefinition'), V.oref(d) >= 0, V.is_Str(attr0(d, 'name')),
                  inst(attr0(d, 'graphql_type'), 'GraphQLType'), V.oref(attr0(d, 'graphql_type')) >= 0,
                  ast_node(attr0(d, 'definition')),
                  z3.Or(attr0(d, 'default_value') == V.Undef, ast_node(attr0(d, 'default_value'))))


def raw_variables_wf(raw):
    return z3.And(V.is_Dict(raw), SI.JsonItemsWf(V.ditems(raw)))


class VariableCoercer(Contract):
    """variable_coercer: one step of CoerceVariableValues (GraphQL 6.1.2) with the exact case order"""
    key = 'tartiflette/coercers/variables.py::variable_coercer'
    property_ids = ('C04',)
    params = ['executable_variable_definition', 'raw_variable_values', 'ctx', 'input_coercer', 'literal_coercer']
    modifies_fields = ('message',)

    def args(self, en, names):
        self.A = super().args(en, names)
        return self.A

    def pre(self, A, st):
        return [('definition', var_def_wf(A['executable_variable_definition'])), ('variables', raw_variables_wf(A['raw_variable_values'])),
                ('input_coercer', V.is_Fun(A['input_coercer'])), ('literal_coercer', V.is_Fun(A['literal_coercer']))]

    def call_model(self, en, st, f, a, kw):
        A = self.A
        d = A['executable_variable_definition']
        if z3.eq(f, A['input_coercer']):
            j = en.read(a[1], st)
            b = SI.InBeh(f)
            st2, cr = new_cr(en, st, Sem_ok(b, j), Sem_val(b, j))
            # errors produced by the input coercers are exception objects (the loop below reads their class)
            return [(st2, cr)]
        if z3.eq(f, A['literal_coercer']):
            st2, cr = new_cr(en, st, SI.VDef_ok(f, d), SI.VDef_val(f, d))
            return [(st2, cr)]
        return None

    def elem_preds(self, A):
        return []

    def post(self, A, st0, out):
        if out.kind == 'raise':
            return never_raises(out)
        d, raw, ic, lc = A['executable_variable_definition'], A['raw_variable_values'], A['input_coercer'], A['literal_coercer']
        tag, r, st = SI.VarTag(d, raw, ic, lc), out.value, out.st
        return [('absent_iff_spec', (r == V.Undef) == (tag == 2)),
                ('result_wf', z3.Implies(tag != 2, cr_wf(st, r))),
                ('refused_iff_spec', z3.Implies(tag != 2, cr_ok(st, r) == (tag == 0))),
                ('value_is_spec', z3.Implies(tag == 0, cr_value(st, r) == SI.VarVal(d, raw, ic, lc)))]


def baked_var_def(d):
    """class invariant of ExecutableVariableDefinition.__init__: coercer == partial(<variable_coercer closure>, self)"""
    c = attr0(d, 'coercer')
    return z3.And(var_def_wf(d), V.is_Fun(c), V.fname(c) == fun_id(SI.K_VARCOERCER), lookup(V.fbound(c), V.Int(0)) == d,
                  V.is_Fun(SI.def_ic(d)), V.is_Fun(SI.def_lc(d)))


AllBakedVarDefs = ForallList('baked_var_def', baked_var_def)


class CoerceVariables(Contract):
    """coerce_variables: the coerced map is exactly the spec map; errors non-empty iff some definition refuses, one or more per offender"""
    key = 'tartiflette/coercers/variables.py::coerce_variables'
    property_ids = ('C04', 'C08')
    params = ['executable_variable_definitions', 'raw_variable_values', 'ctx']
    ignore_fields = ('message',)
    modifies_fields = ('message',)

    def args(self, en, names):
        self.A = super().args(en, names)
        return self.A

    def pre(self, A, st):
        return [('definitions', z3.And(V.is_List(A['executable_variable_definitions']), AllBakedVarDefs(V.items(A['executable_variable_definitions'])))), ('variables', raw_variables_wf(A['raw_variable_values']))]


    def call_model(self, en, st, f, a, kw):
        # executable_variable_definition.coercer(raw, ctx): by the class invariant this is variable_coercer(d, raw, ctx, ic, lc);
        # the callee is used through its contract (VariableCoercer)
        f = z3.simplify(f)
        if z3.is_app(f) and f.decl().kind() == z3.Z3_OP_SELECT and f.arg(0).eq(field0('coercer')):
            d = f.arg(1)
            reg = en.registry.get(SI.K_VARCOERCER)
            return reg.summary(en, st, [d, a[0], a[1]], {'input_coercer': SI.def_ic(d), 'literal_coercer': SI.def_lc(d)})
        return None

    def _inv(self, en, st, k, st0):
        defs, raw = V.items(self.A['executable_variable_definitions']), self.A['raw_variable_values']
        errors = V.items(en.read(st.env['coercion_errors'], st))
        vals_ = V.ditems(en.read(st.env['coerced_values'], st))
        return {'errors_iff_refused': VL.is_nil(errors) == SI.NoBad(defs, raw, k),
                'one_error_per_offender': length(errors) >= SI.CountBad(defs, raw, k),
                'map_is_spec': vals_ == SI.VarMap(defs, raw, k)}

    @property
    def loops(self):
        return {0: LoopContract(self._inv)}

    def post(self, A, st0, out):
        if out.kind == 'raise':
            return never_raises(out)
        defs, raw = V.items(A['executable_variable_definitions']), A['raw_variable_values']
        n = length(defs)
        vals_, errors = nth(V.titems(out.value), 0), nth(V.titems(out.value), 1)
        return [('is_pair', z3.And(V.is_Tuple(out.value), length(V.titems(out.value)) == 2, V.is_Dict(vals_), V.is_List(errors))),
                ('refused_iff_some_offender', VL.is_nil(V.items(errors)) == SI.NoBad(defs, raw, n)),
                ('every_offender_reported', length(V.items(errors)) >= SI.CountBad(defs, raw, n)),
                ('coerced_map_is_spec', vals_ == V.Dict(SI.VarMap(defs, raw, n)))]


class GetInputCoercer(Contract):
    """get_input_coercer(T): the returned closure denotes exactly the behaviour the specification prescribes for T"""
    key = F + 'compute.py::get_input_coercer'
    property_ids = ('C04', 'C13')
    params = ['graphql_type']

    def args(self, en, names):
        self.A = super().args(en, names)
        return self.A

    def pre(self, A, st):
        return [('type_wf', SI.TyWf(A['graphql_type']))]

    def _inv0(self, en, st, k, st0):
        ws = V.items(en.read(st.env['wrapper_coercers'], st))
        inner = st.env['inner_type']
        return {'cursor_wf': SI.TyWf(inner), 'wrappers_ok': SI.WsOk(ws),
                'rebuild': SI.RebR(ws, SI.BehT(inner)) == SI.BehT(self.A['graphql_type'])}

    def _inv1(self, en, st, k, st0):
        ws = V.items(en.read(st.env['wrapper_coercers'], st))
        c = en.read(st.env['coercer'], st)
        n = length(ws)
        return {'closure': V.is_Fun(c), 'wrappers_ok': SI.WsOk(take(ws, n - k)),
                'rebuild': SI.RebR(take(ws, n - k), denote(c)) == SI.BehT(self.A['graphql_type'])}

    @property
    def loops(self):
        return {0: LoopContract(self._inv0), 1: LoopContract(self._inv1)}

    def post(self, A, st0, out):
        if out.kind == 'raise':
            return never_raises(out)
        return [('is_closure', V.is_Fun(out.value)), ('denotes_type', denote(out.value) == SI.BehT(A['graphql_type']))]


CONTRACTS = COMMON_CONTRACTS + [GetInputCoercer(), VariableCoercer(), CoerceVariables(), DidYouMean(), EnumC(), InputFieldValue(), InputObjectC(), NonNull(), ListC(), NullWrapper(), ScalarC(), DirectivesC()]
from pyvc import listlib as _LL   # noqa: E402
LEMMAS = list(_LL.LEMMAS)
