"""C01 -- request results equal the GraphQL execution algorithm: CollectFields (6.3.2), ExecuteSelectionSet ordering (6.3),
field resolution, serial mutations (C09), positional merge (C08)."""
import z3
from pyvc.values import *
from pyvc.values import UNFOLD, ForallList, LEMMA_HOOKS
from pyvc.contracts import Contract, Lemma
from pyvc.symexec import attr0, field0, fun_id, LoopContract, CompEffect, PyRef, PyFunc, PyTuple, Raise
from specs import execution as SE
from specs.execution import CF, CSF, Inc, CondMatch, P
from .common import *

C = 'tartiflette/execution/collect.py::'

# ---- well-formed selection sets (what document_from_ast_json builds; validated documents: every spread names a defined fragment)
SelSetWf = z3.RecFunction('SelSetWf', V, V, BoolS)           # (selection set node, execution context)


def name_node(n):
    return z3.And(exact(n, 'NameNode'), V.oref(n) >= 0, V.is_Str(attr0(n, 'value')))


def dirs_ok(n):
    d = attr0(n, 'directives')
    return z3.Or(d == V.None_, V.is_List(d))


def sel_wf(sel, ctx):
    ss = attr0(sel, 'selection_set')
    frag = lookup(V.ditems(attr0(ctx, 'fragments')), attr0(attr0(sel, 'name'), 'value'))
    return z3.And(V.oref(sel) >= 0, dirs_ok(sel), z3.Or(
        z3.And(exact(sel, 'FieldNode'), name_node(attr0(sel, 'name')), z3.Or(attr0(sel, 'alias') == V.None_, name_node(attr0(sel, 'alias'))),
               z3.Or(ss == V.None_, SelSetWf(ss, ctx))),
        z3.And(exact(sel, 'InlineFragmentNode'), SelSetWf(ss, ctx)),
        z3.And(exact(sel, 'FragmentSpreadNode'), name_node(attr0(sel, 'name')), frag != V.Missing)))


AllSelWf = ForallList('selection_wf', sel_wf, (V,))
_ss, _cx = z3.Consts('ss_ cx_', V)
_selset_body = lambda ss, ctx: z3.And(exact(ss, 'SelectionSetNode'), V.oref(ss) >= 0, V.is_List(attr0(ss, 'selections')), AllSelWf(V.items(attr0(ss, 'selections')), ctx))
z3.RecAddDefinition(SelSetWf, [_ss, _cx], _selset_body(_ss, _cx))
UNFOLD['SelSetWf'] = _selset_body


def frag_entry_wf(p, ctx):
    f = V.snd(p)
    return z3.And(V.is_Pair(p), V.is_Str(V.fst(p)), z3.Or(f == V.None_, z3.And(exact(f, 'FragmentDefinitionNode'), V.oref(f) >= 0, SelSetWf(attr0(f, 'selection_set'), ctx))))


AllFragWf = ForallList('fragment_entry_wf', frag_entry_wf, (V,))


def exec_ctx_wf(ctx):
    return z3.And(exact(ctx, 'ExecutionContext'), V.oref(ctx) >= 0, V.is_Dict(attr0(ctx, 'fragments')), AllFragWf(V.ditems(attr0(ctx, 'fragments')), ctx))


class ShouldIncludeNode(Contract):
    """should_include_node: no directive -> included; otherwise included iff the collection hook chain returns normally
    (SkipCollection or any other exception excludes the node).  Its outcome is the oracle's Inc(ctx, node)."""
    key = C + 'should_include_node'
    property_ids = ('C01',)
    params = ['execution_context', 'node']

    def args(self, en, names):
        self.A = super().args(en, names)
        self.hook_raises = fresh('hook_raises', BoolS)
        return self.A

    def pre(self, A, st):
        n = A['node']
        return [('node', z3.And(z3.Or(exact(n, 'FieldNode'), exact(n, 'InlineFragmentNode'), exact(n, 'FragmentSpreadNode')), V.oref(n) >= 0, dirs_ok(n))),
                ('context', z3.And(exact(A['execution_context'], 'ExecutionContext'), V.oref(A['execution_context']) >= 0))]

    def extra_env(self, en, A):
        def compute_directive_nodes(en, st, a, kw):
            return [(st, fresh('directive_nodes'))]

        def wraps(en, st, a, kw):
            def chain(en2, s2, a2, kw2):
                e = V.Obj(fresh('ecls', IntS), fresh('eref', IntS))
                return en2.branches(s2, [(z3.Not(self.hook_raises), fresh('hooked')), (z3.And(self.hook_raises, inst(e, 'Exception'), V.oref(e) >= 0), Raise(e))])
            return [(st, PyFunc('hook_chain', chain))]
        return {'compute_directive_nodes': PyFunc('compute_directive_nodes', compute_directive_nodes), 'wraps_with_directives': PyFunc('wraps_with_directives', wraps)}

    def post(self, A, st0, out):
        if out.kind == 'raise':
            return never_raises(out)
        has = py_truthy(attr0(A['node'], 'directives'))
        return [('included_iff_hooks_pass', out.value == V.Bool(z3.Or(z3.Not(has), z3.Not(self.hook_raises))))]

    def summary(self, en, st, a, kw):
        # callers see the oracle's name for this outcome
        ctx, node = en.read(a[0], st), en.read(a[1], st)
        return [(st, V.Bool(Inc(ctx, node)))]


class ConditionMatch(Contract):
    """does_fragment_condition_match: its outcome is the oracle's CondMatch(ctx, node, runtime type); no condition always matches"""
    key = C + 'does_fragment_condition_match'
    property_ids = ('C01',)
    params = ['execution_context', 'fragment_node', 'graphql_object_type']

    def args(self, en, names):
        self.A = super().args(en, names)
        self.ct = fresh('conditional_type')
        return self.A

    def pre(self, A, st):
        n = A['fragment_node']
        tc = attr0(n, 'type_condition')
        return [('node', z3.And(z3.Or(exact(n, 'InlineFragmentNode'), exact(n, 'FragmentDefinitionNode')), V.oref(n) >= 0, z3.Or(tc == V.None_, ast_node(tc)))),
                ('context', z3.And(exact(A['execution_context'], 'ExecutionContext'), V.oref(A['execution_context']) >= 0)),
                ('conditional_type', z3.And(inst(self.ct, 'GraphQLType'), V.oref(self.ct) >= 0))]

    def extra_env(self, en, A):
        return {'schema_type_from_ast': PyFunc('schema_type_from_ast', lambda en, st, a, kw: [(st, self.ct)])}

    def getattr_hook(self, en, st, v, attr):
        if z3.eq(v, self.ct) and attr == 'is_possible_type':
            return [(st, PyFunc('is_possible_type', lambda en, s, a, kw: [(s, V.Bool(IsPossible(self.ct, en.read(a[0], s))))]))]
        return None

    def post(self, A, st0, out):
        if out.kind == 'raise':
            return never_raises(out)
        tc = attr0(A['fragment_node'], 'type_condition')
        rt = A['graphql_object_type']
        spec = z3.Or(z3.Not(py_truthy_obj(tc)), self.ct == rt, z3.And(inst(self.ct, 'GraphQLAbstractType'), IsPossible(self.ct, rt)))
        return [('applies_iff_same_or_possible', out.value == V.Bool(spec))]

    def summary(self, en, st, a, kw):
        return [(st, V.Bool(CondMatch(en.read(a[0], st), en.read(a[1], st), en.read(a[2], st))))]


IsPossible = z3.Function('IsPossibleType', V, V, BoolS)


def py_truthy_obj(v):
    return v != V.None_


class CollectFields(Contract):
    """collect_fields == CollectFields of 6.3.2 (accumulator form): exactly `fields` and `visited_fragment_names` are extended"""
    key = C + 'collect_fields'
    property_ids = ('C01',)
    params = ['execution_context', 'runtime_type', 'selection_set', 'fields', 'visited_fragment_names']
    mutable = {'fields': 'dict', 'visited_fragment_names': 'set'}
    recursive = True
    timeout_ms = 20000

    def args(self, en, names):
        self.A = super().args(en, names)
        return self.A

    def sels(self, A):
        return SE.sels_of(A['selection_set'])

    def pre(self, A, st):
        cl = [('context', exec_ctx_wf(A['execution_context'])), ('selection_set', SelSetWf(A['selection_set'], A['execution_context'])),
              ('runtime_type', z3.And(inst(A['runtime_type'], 'GraphQLType'), V.oref(A['runtime_type']) >= 0))]
        for n, test in (('fields', V.is_Dict), ('visited_fragment_names', V.is_Set)):
            v = A.get(n + '@0')
            if v is None and isinstance(A.get(n), PyRef):
                v = st.heap.get(A[n].loc)
            if v is not None:
                cl.append((f"{n}_container", test(v)))
        return cl

    def _contents(self, A, st, which):
        v = A[which]
        if isinstance(v, PyRef):
            return st.heap[v.loc]
        return None

    def _init(self, A, st0):
        def items(which, sel):
            c = self._contents(A, st0, which)
            if c is not None:
                return sel(c)
            v = A[which]
            return z3.If(v == V.None_, VL.nil, sel(v)) if z3.is_expr(v) else VL.nil
        return items('fields', V.ditems), items('visited_fragment_names', V.sitems)

    def _inv(self, en, st, k, st0):
        A = self.A
        f0, v0 = self._init(A, st0)
        f = en.read(st.env['fields'], st)
        v = en.read(st.env['visited_fragment_names'], st)
        return {'prefix_collected': V.Pair(f, v) == CF(A['execution_context'], A['runtime_type'], self.sels(A), k, f0, v0),
                'containers': z3.And(V.is_Dict(f), V.is_Set(v))}

    @property
    def loops(self):
        return {0: LoopContract(self._inv)}

    def post(self, A, st0, out):
        if out.kind == 'raise':
            return never_raises(out)
        f0, v0 = self._init(A, st0)
        n = length(self.sels(A))
        spec = CF(A['execution_context'], A['runtime_type'], self.sels(A), n, f0, v0)
        cl = [('returns_the_grouped_fields', out.value == V.fst(spec))]
        f1 = self._contents(A, out.st, 'fields')
        v1 = self._contents(A, out.st, 'visited_fragment_names')
        if f1 is not None:
            cl.append(('fields_extended_as_specified', f1 == V.fst(spec)))
        if v1 is not None:
            cl.append(('visited_extended_as_specified', v1 == V.snd(spec)))
        return cl


class CollectFieldsFresh(CollectFields):
    """entry call without accumulators (execute_operation): the same algorithm starting from empty containers"""
    mutable = {}

    def pre(self, A, st):
        return super().pre(A, st) + [('no_accumulators', z3.And(A['fields'] == V.None_, A['visited_fragment_names'] == V.None_))]


class CollectSubfields(Contract):
    """collect_subfields: the merged sub-selection of all field nodes of one response key, sharing one visited set"""
    key = C + 'collect_subfields'
    property_ids = ('C01',)
    params = ['execution_context', 'return_type', 'field_nodes']
    timeout_ms = 20000

    def args(self, en, names):
        self.A = super().args(en, names)
        return self.A

    def pre(self, A, st):
        return [('context', exec_ctx_wf(A['execution_context'])), ('return_type', z3.And(inst(A['return_type'], 'GraphQLType'), V.oref(A['return_type']) >= 0)),
                ('field_nodes', z3.And(V.is_List(A['field_nodes']), AllSelWf(V.items(A['field_nodes']), A['execution_context']), AllFields(V.items(A['field_nodes']))))]

    def _inv(self, en, st, k, st0):
        A = self.A
        f = en.read(st.env['subfield_nodes'], st)
        v = en.read(st.env['visited_fragment_names'], st)
        return {'prefix_merged': V.Pair(f, v) == CSF(A['execution_context'], A['return_type'], V.items(A['field_nodes']), k), 'containers': z3.And(V.is_Dict(f), V.is_Set(v))}

    @property
    def loops(self):
        return {0: LoopContract(self._inv)}

    def post(self, A, st0, out):
        if out.kind == 'raise':
            return never_raises(out)
        nodes = V.items(A['field_nodes'])
        return [('merged_subselection', out.value == V.fst(CSF(A['execution_context'], A['return_type'], nodes, length(nodes))))]


AllFields = ForallList('is_field_node', lambda x: exact(x, 'FieldNode'))

CONTRACTS = [ShouldIncludeNode(), ConditionMatch(), CollectFields(), CollectFieldsFresh(C + 'collect_fields'), CollectSubfields()]
LEMMAS = []


# ---- execute_operation: executor choice by operation type (C09), an escaped failure nulls `data` and is recorded (C02)
class ExecuteOperation(Contract):
    key = 'tartiflette/execution/execute.py::execute_operation'
    property_ids = ('C09', 'C01', 'C02')
    params = ['execution_context', 'operation', 'root_value']
    modifies_fields = ('errors',)

    def args(self, en, names):
        self.A = super().args(en, names)
        self.root_type, self.fields = fresh('root_type'), fresh('collected_fields')
        self.data = fresh('data')
        self.fails = fresh('executor_fails', BoolS)
        return self.A

    def pre(self, A, st):
        op, ctx = A['operation'], A['execution_context']
        ss = attr0(op, 'selection_set')
        return [('operation', z3.And(exact(op, 'OperationDefinitionNode'), V.oref(op) >= 0, V.is_Str(attr0(op, 'operation_type')),
                                     exact(ss, 'SelectionSetNode'), V.oref(ss) >= 0, V.is_List(attr0(ss, 'selections')))),
                ('context', z3.And(exact(ctx, 'ExecutionContext'), V.oref(ctx) >= 0, exact(attr0(ctx, 'schema'), 'GraphQLSchema'), V.oref(attr0(ctx, 'schema')) >= 0,
                                   V.is_List(attr0(ctx, 'errors'))))]

    def ghost0(self, A):
        return {'serial': z3.BoolVal(False), 'parallel': z3.BoolVal(False), 'executed_fields': V.Missing, 'executed_type': V.Missing, 'collected_from': V.Missing,
                'recorded': V.Missing}

    def _executor(self, which):
        def run(en, st, a, kw):
            st = st.put_ghost(which, z3.BoolVal(True)).put_ghost('executed_fields', en.read(a[4], st)).put_ghost('executed_type', en.read(a[1], st))
            e = V.Obj(fresh('ecls', IntS), fresh('eref', IntS))
            return en.branches(st, [(z3.Not(self.fails), self.data), (z3.And(self.fails, exc_full_wf(e), V.oref(e) >= 0), Raise(e))])
        return PyFunc(which, run)

    def extra_env(self, en, A):
        def collect(en, st, a, kw):
            return [(st.put_ghost('collected_from', en.read(a[2], st)), self.fields)]
        return {'collect_fields': PyFunc('collect_fields', collect), 'execute_fields_serially': self._executor('serial'), 'execute_fields': self._executor('parallel')}

    def getattr_hook(self, en, st, v, attr):
        if attr == 'get_operation_root_type':
            return [(st, PyFunc('get_operation_root_type', lambda en, s, a, kw: [(s, self.root_type)]))]
        if attr == 'add_error' and z3.eq(v, self.A['execution_context']):
            return [(st, PyFunc('add_error', lambda en, s, a, kw: [(s.put_ghost('recorded', en.read(a[0], s)), V.None_)]))]
        return None

    def post(self, A, st0, out):
        if out.kind == 'raise':
            return never_raises(out)
        g = out.st.ghost
        is_mut = attr0(A['operation'], 'operation_type') == S('mutation')
        return [('mutations_run_serially', g['serial'] == is_mut), ('others_run_with_execute_fields', g['parallel'] == z3.Not(is_mut)),
                ('on_the_collected_root_fields', z3.And(g['executed_fields'] == self.fields, g['executed_type'] == self.root_type,
                                                        g['collected_from'] == attr0(A['operation'], 'selection_set'))),
                ('data_or_null_with_error', z3.If(self.fails, z3.And(out.value == V.None_, g['recorded'] != V.Missing), z3.And(out.value == self.data, g['recorded'] == V.Missing)))]


CONTRACTS.append(ExecuteOperation())


# ---- execute_fields_serially (C09): one await per collected root field, in collection order; results keyed in that order
FO = z3.Function('FieldOutcome', V, V, V)            # (field nodes, response key) -> what resolving + completing that field returns
FRaises = z3.Function('FieldRaises', V, V, BoolS)    # ... or it raises (failure at a non-null position)
SerMap = z3.RecFunction('SerialResultsUpTo', VL, IntS, VL)
_it = z3.Const('sm_items', VL)
_sk = z3.Int('sm_k')
_ser_body = lambda items, k: z3.If(k <= 0, VL.nil, z3.If(FO(V.snd(nth(items, k - 1)), V.fst(nth(items, k - 1))) == V.Undef, SerMap(items, k - 1),
                                                        assoc_set(SerMap(items, k - 1), V.fst(nth(items, k - 1)), FO(V.snd(nth(items, k - 1)), V.fst(nth(items, k - 1))))))
z3.RecAddDefinition(SerMap, [_it, _sk], _ser_body(_it, _sk))
UNFOLD['SerialResultsUpTo'] = _ser_body
AllFieldEntries = ForallList('field_entry', lambda p: z3.And(V.is_Pair(p), V.is_Str(V.fst(p)), V.is_List(V.snd(p))))


class ExecuteFieldsSerially(Contract):
    key = 'tartiflette/execution/execute.py::execute_fields_serially'
    property_ids = ('C09', 'C01')
    params = ['execution_context', 'parent_type', 'source_value', 'path', 'fields']

    def args(self, en, names):
        self.A = super().args(en, names)
        return self.A

    def items(self):
        return V.ditems(self.A['fields'])

    def pre(self, A, st):
        return [('fields', z3.And(V.is_Dict(A['fields']), AllFieldEntries(self.items())))]

    def ghost0(self, A):
        return {'started': V.List(VL.nil), 'running': z3.BoolVal(False)}

    def extra_env(self, en, A):
        def resolve_field(en, st, a, kw):
            nodes = en.read(a[3], st)
            key = attr0(en.read(a[4], st), 'key')
            started = st.ghost['started']
            st = st.put_ghost('started', V.List(snoc(V.items(started), key)))
            e = V.Obj(fresh('ecls', IntS), fresh('eref', IntS))
            return en.branches(st, [(z3.Not(FRaises(nodes, key)), FO(nodes, key)), (z3.And(FRaises(nodes, key), inst(e, 'Exception'), V.oref(e) >= 0), Raise(e))])
        return {'resolve_field': PyFunc('resolve_field', resolve_field)}

    def _inv(self, en, st, k, st0):
        res = V.ditems(en.read(st.env['results'], st))
        return {'started_in_order_once_each': st.ghost['started'] == V.List(take(keys(self.items()), k)), 'results_in_order': res == SerMap(self.items(), k)}

    @property
    def loops(self):
        return {0: LoopContract(self._inv, modifies_ghost=('started',))}

    def post(self, A, st0, out):
        g = out.st.ghost
        n = length(self.items())
        if out.kind == 'raise':
            return [('a_failure_stops_the_later_fields', V.is_List(g['started']))]
        return [('every_root_field_once_in_collection_order', g['started'] == V.List(keys(self.items()))), ('results_keyed_in_collection_order', out.value == V.Dict(SerMap(self.items(), n)))]


CONTRACTS.append(ExecuteFieldsSerially())


# ---- execute_fields (C01 / C08): positional merge of sequentially awaited and gathered sibling results
from pyvc.symexec import coro_raises, coro_exc, coro_value     # noqa: E402
from specs.outputs import exc_full_wf as _exc_full_wf            # noqa: E402
from .c02 import AllFOV, NotME, failure_or_value                 # noqa: E402

FDof = z3.Function('FieldDefinitionOf', V, V)        # get_field_definition(schema, parent type, name): the field definition or None
CoroOf = z3.Function('ResolutionOf', V, V, V)        # (field nodes, response key): the coroutine resolving and completing that field


def _fname(nodes):
    return attr0(attr0(nth(V.items(nodes), 0), 'name'), 'value')


def _fd(p):
    return FDof(_fname(V.snd(p)))


def _co(p):
    return CoroOf(V.snd(p), V.fst(p))


def _conc(p):
    return py_truthy(attr0(_fd(p), 'parent_concurrently'))


def _outcome(c):
    return z3.If(coro_raises(c), coro_exc(c), coro_value(c))


def slot_final(p):
    """what ends up at the position of entry p: UNDEFINED for an unknown field, else the outcome of its own resolution"""
    return z3.If(_fd(p) == V.None_, V.Undef, _outcome(_co(p)))


def slot_first_pass(p):
    return z3.If(_fd(p) == V.None_, V.Undef, z3.If(_conc(p), V.None_, coro_value(_co(p))))


def exec_entry_wf(p):
    nodes, fd, c = V.snd(p), _fd(p), _co(p)
    first = nth(V.items(nodes), 0)
    return z3.And(V.is_Pair(p), V.is_Str(V.fst(p)), V.is_List(nodes), z3.Not(VL.is_nil(V.items(nodes))), exact(first, 'FieldNode'), V.oref(first) >= 0,
                  exact(attr0(first, 'name'), 'NameNode'), V.oref(attr0(first, 'name')) >= 0, V.is_Str(_fname(nodes)),
                  z3.Or(fd == V.None_, z3.And(exact(fd, 'GraphQLField'), V.oref(fd) >= 0, V.is_Fun(attr0(fd, 'resolver')),
                                              z3.Or(V.is_Bool(attr0(fd, 'parent_concurrently')), attr0(fd, 'parent_concurrently') == V.None_))),
                  # what a field's resolution yields (C02 contracts): a completed value that is no exception and no sentinel, or a well-formed MultipleException
                  exact(c, 'coroutine'), z3.Not(inst(coro_value(c), 'Exception')), coro_value(c) != V.Undef, coro_value(c) != V.Missing,
                  exact(coro_exc(c), 'MultipleException'), _exc_full_wf(coro_exc(c)))


AllExecEntries = ForallList('execute_fields_entry', exec_entry_wf)
AllAwaitEntries = ForallList('to_await_entry', lambda p, items: z3.And(V.is_Pair(p), V.is_Int(V.fst(p)), V.i(V.fst(p)) >= 0, V.i(V.fst(p)) < length(items),
                                                                        V.snd(p) == _co(nth(items, V.i(V.fst(p)))), _conc(nth(items, V.i(V.fst(p)))),
                                                                        _fd(nth(items, V.i(V.fst(p)))) != V.None_), (VL,))


class ExecuteFields(Contract):
    """execute_fields: whatever the per-field concurrency flags, position j of the result list ends up holding the outcome of field j's own
    resolution (positional merge after the gather), unknown fields are dropped, any failure is re-raised as a gathered MultipleException,
    the response map pairs each key with its own result, and any two keys appear in the map in their collection order (first-appearance
    order).  Proved for arbitrary indices i0 < j0 (hence for all pairs)."""
    key = 'tartiflette/execution/execute.py::execute_fields'
    property_ids = ('C08', 'C01', 'C02')
    params = ['execution_context', 'parent_type', 'source_value', 'path', 'fields', 'is_introspection_context']
    timeout_ms = 60000        # generous: the dict-comprehension obligations take 5-10 s on an idle machine and were seen to exceed 15 s under load
    prune_ms = 1000

    def args(self, en, names):
        self.A = super().args(en, names)
        self.j0, self.i0 = z3.Int('j0'), z3.Int('i0')
        return self.A

    def items(self, A=None):
        return V.ditems((A or self.A)['fields'])

    def _unique(self, items, idx):
        x = z3.Int('ux_')
        return z3.ForAll([x], z3.Implies(z3.And(x >= 0, x < length(items), V.fst(nth(items, x)) == V.fst(nth(items, idx))), x == idx), patterns=[nth(items, x)])

    def pre(self, A, st):
        items = self.items(A)
        return [('fields', z3.And(V.is_Dict(A['fields']), AllExecEntries(items))),
                ('context', z3.And(exact(A['execution_context'], 'ExecutionContext'), V.oref(A['execution_context']) >= 0)),
                ('arbitrary_positions', z3.And(self.i0 >= 0, self.i0 < self.j0, self.j0 < length(items))),
                # dict keys are unique (well-formedness of a Python dict)
                ('dict_keys_unique', z3.And(self._unique(items, self.j0), self._unique(items, self.i0)))]

    def extra_env(self, en, A):
        return {'get_field_definition': PyFunc('get_field_definition', lambda en, st, a, kw: [(st, FDof(en.read(a[2], st)))])}

    def call_model(self, en, st, f, a, kw):
        f = z3.simplify(f)
        if z3.is_app(f) and f.decl().kind() == z3.Z3_OP_SELECT and f.arg(0).eq(field0('resolver')):
            nodes = en.read(a[3], st)
            key = attr0(en.read(a[4], st), 'key')
            return [(st, CoroOf(nodes, key))]      # an un-awaited coroutine object
        return None

    def _p(self, idx):
        return nth(self.items(), idx)

    def _both(self, fn):
        """the per-position clauses are stated for both arbitrary positions"""
        out = {}
        for tag, idx in (('j0', self.j0), ('i0', self.i0)):
            for name, g in fn(idx).items():
                out[f"{name}[{tag}]"] = g
        return out

    def _inv0(self, en, st, k, st0):
        items = self.items()
        res = V.items(en.read(st.env['results'], st))
        ta = V.ditems(en.read(st.env['to_await'], st))

        def at(idx):
            p0 = self._p(idx)
            return {'first_pass_slot': z3.Implies(idx < k, nth(res, idx) == slot_first_pass(p0)),
                    'sequential_ones_did_not_fail': z3.Implies(z3.And(idx < k, _fd(p0) != V.None_, z3.Not(_conc(p0))), z3.Not(coro_raises(_co(p0)))),
                    'pending_by_position': lookup(ta, V.Int(idx)) == z3.If(z3.And(idx < k, _fd(p0) != V.None_, _conc(p0)), _co(p0), V.Missing)}
        return {'positional': length(res) == k, 'pending_entries': AllAwaitEntries(ta, items), 'results_are_values': AllFOV(res), **self._both(at)}

    def _inv1(self, en, st, m, st0):
        items = self.items()
        res = V.items(en.read(st.env['results'], st))
        ta = V.ditems(en.read(st.env['to_await'], st))

        def at(idx):
            p0 = self._p(idx)
            done = lookup(take(ta, m), V.Int(idx)) != V.Missing
            return {'merged_by_position': nth(res, idx) == z3.If(done, _outcome(_co(p0)), slot_first_pass(p0))}
        return {'positional': length(res) == length(items), 'results_are_values_or_failures': AllFOV(res), **self._both(at)}

    def _invd(self, en, st, k, st0):
        d = V.ditems(en.read(st.env['__dictcomp0'], st))
        pi, pj = self._p(self.i0), self._p(self.j0)

        def at(idx):
            p0 = self._p(idx)
            return {'key_paired_with_its_own_result': lookup(d, V.fst(p0)) == z3.If(z3.And(idx < k, slot_final(p0) != V.Undef), slot_final(p0), V.Missing),
                    'not_yet_stored_before_its_turn': z3.Implies(k <= idx, index_of(d, V.fst(p0)) == length(d))}
        return {**self._both(at),
                'collection_order_kept': z3.Implies(z3.And(self.j0 < k, slot_final(pi) != V.Undef, slot_final(pj) != V.Undef), index_of(d, V.fst(pi)) < index_of(d, V.fst(pj)))}

    @property
    def loops(self):
        return {0: LoopContract(self._inv0), 1: LoopContract(self._inv1), ('dictcomp', 0): LoopContract(self._invd)}

    def post(self, A, st0, out):
        items = self.items(A)
        pi, p0 = nth(items, self.i0), nth(items, self.j0)
        if out.kind == 'raise':
            return [('a_gathered_or_immediate_failure', z3.And(exact(out.value, 'MultipleException'), _exc_full_wf(out.value)))]
        r = out.value
        return [('is_map', V.is_Dict(r)),
                ('each_key_paired_with_its_own_result', lookup(V.ditems(r), V.fst(p0)) == z3.If(slot_final(p0) != V.Undef, slot_final(p0), V.Missing)),
                ('no_failure_is_swallowed', z3.Implies(_fd(p0) != V.None_, z3.Not(coro_raises(_co(p0))))),
                ('first_appearance_order', z3.Implies(z3.And(slot_final(pi) != V.Undef, slot_final(p0) != V.Undef), index_of(V.ditems(r), V.fst(pi)) < index_of(V.ditems(r), V.fst(p0))))]


CONTRACTS.append(ExecuteFields())


O = 'tartiflette/coercers/outputs/'


# ---- resolve_field, abstract types, default resolver (C01: "completed according to the declared type and, for abstract types, the runtime object
# type chosen by the most specific type resolver"; "each resolver is called exactly once per collected response key and parent object")
class GetTypeResolver(Contract):
    """get_type_resolver: a resolver registered for this very field wins over the abstract type's own, which wins over the schema default"""
    key = 'tartiflette/types/type.py::GraphQLAbstractType.get_type_resolver'
    property_ids = ('C01',)
    params = ['self', 'field_name', 'default_type_resolver']
    self_class = 'GraphQLAbstractType'

    def pre(self, A, st):
        me = A['self']
        return [('self', z3.And(V.oref(me) >= 0, V.is_Dict(attr0(me, '_fields_type_resolvers')), z3.Or(attr0(me, 'type_resolver') == V.None_, V.is_Fun(attr0(me, 'type_resolver'))))),
                ('field_name', V.is_Str(A['field_name'])), ('default', V.is_Fun(A['default_type_resolver']))]

    def post(self, A, st0, out):
        if out.kind == 'raise':
            return never_raises(out)
        me = A['self']
        own = lookup(V.ditems(attr0(me, '_fields_type_resolvers')), A['field_name'])
        return [('most_specific_type_resolver', out.value == z3.If(own != V.Missing, own, z3.If(attr0(me, 'type_resolver') != V.None_, attr0(me, 'type_resolver'), A['default_type_resolver'])))]


class ResolveField(Contract):
    """resolve_field: one ResolveInfo for this field; the resolver stage runs once on (context, definition, nodes, resolver, source, info); its
    outcome is completed once against the DECLARED type of the field with the baked output coercer; that completion is the result"""
    key = 'tartiflette/resolver/factory.py::resolve_field'
    property_ids = ('C01', 'C13')
    params = ['execution_context', 'parent_type', 'source', 'field_nodes', 'path', 'is_introspection_context', 'field_definition', 'resolver', 'output_coercer']

    def args(self, en, names):
        self.A = super().args(en, names)
        self.info, self.resolved, self.completed = fresh('resolve_info'), fresh('resolved_or_error'), fresh('completed')
        self.completion_raises = fresh('completion_raises', BoolS)
        return self.A

    def pre(self, A, st):
        fd = A['field_definition']
        return [('definition', z3.And(exact(fd, 'GraphQLField'), V.oref(fd) >= 0))]

    def ghost0(self, A):
        return {'info_args': V.Missing, 'resolve_calls': z3.IntVal(0), 'resolve_args': V.Missing, 'complete_calls': z3.IntVal(0), 'complete_args': V.Missing}

    @property
    def callee_models(self):
        def info(en, st, a, kw):
            return [(st.put_ghost('info_args', V.Tuple(mklist(*[en.read(x, st) for x in a]))), self.info)]

        def resolve(en, st, a, kw):
            return [(st.put_ghost('resolve_calls', st.ghost['resolve_calls'] + 1).put_ghost('resolve_args', V.Tuple(mklist(*[en.read(x, st) for x in a]))), self.resolved)]

        def complete(en, st, a, kw):
            st = st.put_ghost('complete_calls', st.ghost['complete_calls'] + 1).put_ghost('complete_args', V.Tuple(mklist(*[en.read(x, st) for x in a])))
            e = V.Obj(fresh('ecls', IntS), fresh('eref', IntS))
            return en.branches(st, [(z3.Not(self.completion_raises), self.completed), (z3.And(self.completion_raises, exact(e, 'MultipleException'), V.oref(e) >= 0), Raise(e))])
        return {'tartiflette/execution/types.py::build_resolve_info': info,
                'tartiflette/resolver/factory.py::resolve_field_value_or_error': resolve,
                'tartiflette/coercers/outputs/common.py::complete_value_catching_error': complete}

    def post(self, A, st0, out):
        g = out.st.ghost
        common = [('info_for_this_field', g['info_args'] == V.Tuple(mklist(A['execution_context'], A['field_definition'], A['field_nodes'], A['parent_type'], A['path'], A['is_introspection_context']))),
                  ('resolver_stage_once_with_parent_value', z3.And(g['resolve_calls'] == 1, g['resolve_args'] == V.Tuple(mklist(A['execution_context'], A['field_definition'], A['field_nodes'],
                                                                                                                                 A['resolver'], A['source'], self.info)))),
                  ('completed_once_against_the_declared_type', z3.And(g['complete_calls'] == 1,
                      g['complete_args'] == V.Tuple(mklist(self.resolved, self.info, A['execution_context'], A['field_nodes'], A['path'], attr0(A['field_definition'], 'graphql_type'), A['output_coercer']))))]
        if out.kind == 'raise':
            return common + [('only_completion_propagates', self.completion_raises)]
        return common + [('completion_is_the_result', out.value == self.completed)]


IsPossible = z3.Function('AbstractTypeHasPossibleType', V, V, BoolS)


class EnsureValidRuntimeType(Contract):
    """ensure_valid_runtime_type: a name is looked up in the schema; the result is returned only if it is an OBJECT type that the abstract type
    lists as possible; anything else is a located error"""
    key = O + 'abstract_coercer.py::ensure_valid_runtime_type'
    property_ids = ('C01', 'C02', 'C03')
    params = ['runtime_type_or_name', 'execution_context', 'return_type', 'field_nodes', 'info', 'result']

    def args(self, en, names):
        self.A = super().args(en, names)
        return self.A

    def pre(self, A, st):
        ctx, rt, x = A['execution_context'], A['return_type'], A['runtime_type_or_name']
        sch = attr0(ctx, 'schema')
        return [('context', z3.And(exact(ctx, 'ExecutionContext'), V.oref(ctx) >= 0, exact(sch, 'GraphQLSchema'), V.oref(sch) >= 0, V.is_Dict(attr0(sch, 'type_definitions')),
                                   AllSchemaTypes(V.ditems(attr0(sch, 'type_definitions'))))),
                ('abstract_type', z3.And(z3.Or(exact(rt, 'GraphQLInterfaceType'), exact(rt, 'GraphQLUnionType')), V.oref(rt) >= 0, V.is_Str(attr0(rt, 'name')))),
                ('field_nodes', node_list(A['field_nodes'])), ('info', info_wf(A['info'])),
                ('answer_of_the_type_resolver', z3.Or(V.is_Str(x), x == V.None_, z3.And(inst(x, 'GraphQLType'), V.oref(x) >= 0, V.is_Str(attr0(x, 'name')))))]

    def getattr_hook(self, en, st, v, attr):
        if attr == 'is_possible_type' and z3.eq(v, self.A['return_type']):
            return [(st, PyFunc('is_possible_type', lambda en, s, a, kw: [(s, V.Bool(IsPossible(v, en.read(a[0], s))))]))]
        return None

    def runtime(self, A):
        x = A['runtime_type_or_name']
        found = lookup(V.ditems(attr0(attr0(A['execution_context'], 'schema'), 'type_definitions')), x)
        return z3.If(V.is_Str(x), z3.If(found != V.Missing, found, x), x)

    def post(self, A, st0, out):
        t = self.runtime(A)
        good = z3.And(exact(t, 'GraphQLObjectType'), IsPossible(A['return_type'], t))
        if out.kind == 'raise':
            return [('refused_only_when_not_a_possible_object_type', z3.And(z3.Not(good), inst(out.value, 'TartifletteError')))]
        return [('a_possible_object_type', z3.And(good, out.value == t))]


AllSchemaTypes = ForallList('schema_type_entry_named', lambda p: z3.And(V.is_Pair(p), V.is_Str(V.fst(p)), inst(V.snd(p), 'GraphQLType'), V.oref(V.snd(p)) >= 0,
                                                                        V.is_Str(attr0(V.snd(p), 'name'))))


class AbstractCoercerBody(Contract):
    """abstract_coercer: the most specific type resolver is asked once about the resolved value; the validated runtime OBJECT type's own output
    hooks run once on the value; the hooked value is completed as an object of that runtime type"""
    key = O + 'abstract_coercer.py::abstract_coercer'
    decorators = ['null_coercer_wrapper']
    property_ids = ('C01', 'C13', 'C03')
    params = ['result', 'info', 'execution_context', 'field_nodes', 'path', 'abstract_type']

    def args(self, en, names):
        self.A = super().args(en, names)
        self.tr, self.answer, self.rt, self.hooked, self.completed = fresh('type_resolver'), fresh('type_answer'), fresh('runtime_type'), fresh('hooked_value'), fresh('completed_object')
        self.f_tr, self.f_valid, self.f_hook, self.f_complete = [fresh(n, BoolS) for n in ('type_resolver_fails', 'runtime_type_refused', 'hook_fails', 'completion_fails')]
        return self.A

    def pre(self, A, st):
        ctx, t = A['execution_context'], A['abstract_type']
        return [('context', z3.And(exact(ctx, 'ExecutionContext'), V.oref(ctx) >= 0, exact(attr0(ctx, 'schema'), 'GraphQLSchema'), V.oref(attr0(ctx, 'schema')) >= 0)),
                ('abstract_type', z3.And(inst(t, 'GraphQLAbstractType'), V.oref(t) >= 0)), ('info', info_wf(A['info'])),
                ('symbols', z3.And(V.is_Fun(self.tr), exact(self.rt, 'GraphQLObjectType'), V.oref(self.rt) >= 0, V.is_Fun(attr0(self.rt, 'pre_output_coercion_directives')),
                                   attr0(self.rt, 'pre_output_coercion_directives') != self.tr))]

    def ghost0(self, A):
        return {'gtr_args': V.Missing, 'tr_calls': z3.IntVal(0), 'tr_args': V.Missing, 'valid_args': V.Missing, 'hook_calls': z3.IntVal(0), 'hook_args': V.Missing,
                'complete_calls': z3.IntVal(0), 'complete_args': V.Missing}

    def _exc(self):
        e = V.Obj(fresh('ecls', IntS), fresh('eref', IntS))
        return e, z3.And(inst(e, 'Exception'), V.oref(e) >= 0)

    def getattr_hook(self, en, st, v, attr):
        if attr == 'get_type_resolver' and z3.eq(v, self.A['abstract_type']):
            def gtr(en, s, a, kw):
                return [(s.put_ghost('gtr_args', V.Tuple(mklist(*[en.read(x, s) for x in a[1:]]))), self.tr)]      # a[0] is the f-string (opaque text)
            return [(st, PyFunc('get_type_resolver', gtr))]
        return None

    @property
    def callee_models(self):
        def valid(en, st, a, kw):
            e, wf = self._exc()
            st = st.put_ghost('valid_args', V.Tuple(mklist(*[en.read(x, st) for x in a])))
            return en.branches(st, [(z3.Not(self.f_valid), self.rt), (z3.And(self.f_valid, wf), Raise(e))])

        def complete(en, st, a, kw):
            e, wf = self._exc()
            st = st.put_ghost('complete_calls', st.ghost['complete_calls'] + 1).put_ghost('complete_args', V.Tuple(mklist(*[en.read(x, st) for x in a])))
            return en.branches(st, [(z3.Not(self.f_complete), self.completed), (z3.And(self.f_complete, wf), Raise(e))])
        return {O + 'abstract_coercer.py::ensure_valid_runtime_type': valid, O + 'common.py::complete_object_value': complete}

    def call_model(self, en, st, f, a, kw):
        if z3.eq(f, self.tr):
            e, wf = self._exc()
            st = st.put_ghost('tr_calls', st.ghost['tr_calls'] + 1).put_ghost('tr_args', V.Tuple(mklist(*[en.read(x, st) for x in a])))
            return en.branches(st, [(z3.Not(self.f_tr), self.answer), (z3.And(self.f_tr, wf), Raise(e))])
        if z3.eq(z3.simplify(f), z3.simplify(attr0(self.rt, 'pre_output_coercion_directives'))):
            e, wf = self._exc()
            ok = len(a) == 3 and set(kw) == {'context_coercer'}
            rec = V.Tuple(mklist(*[en.read(x, st) for x in a], en.read(kw['context_coercer'], st))) if ok else V.Missing
            st = st.put_ghost('hook_calls', st.ghost['hook_calls'] + 1).put_ghost('hook_args', rec)
            return en.branches(st, [(z3.Not(self.f_hook), self.hooked), (z3.And(self.f_hook, wf), Raise(e))])
        return None

    def post(self, A, st0, out):
        g, ctx = out.st.ghost, A['execution_context']
        uctx = attr0(ctx, 'context')
        asked = [('most_specific_resolver_is_looked_up', g['gtr_args'] == V.Tuple(mklist(attr0(attr0(ctx, 'schema'), 'default_type_resolver')))),
                 ('type_resolver_asked_once_about_the_value', z3.And(g['tr_calls'] == 1, g['tr_args'] == V.Tuple(mklist(A['result'], uctx, A['info'], A['abstract_type']))))]
        if out.kind == 'raise':
            return asked + [('only_a_stage_failure_propagates', z3.Or(self.f_tr, self.f_valid, self.f_hook, self.f_complete)),
                            ('nothing_completed_without_a_valid_runtime_type', z3.Implies(z3.Or(self.f_tr, self.f_valid), z3.And(g['hook_calls'] == 0, g['complete_calls'] == 0)))]
        return asked + [('its_answer_is_validated', g['valid_args'] == V.Tuple(mklist(self.answer, ctx, A['abstract_type'], A['field_nodes'], A['info'], A['result']))),
                        ('runtime_type_hooks_once_on_the_value', z3.And(g['hook_calls'] == 1, g['hook_args'] == V.Tuple(mklist(A['result'], uctx, A['info'], uctx)))),
                        ('completed_as_an_object_of_the_runtime_type', z3.And(g['complete_calls'] == 1, out.value == self.completed,
                                                                               g['complete_args'] == V.Tuple(mklist(self.hooked, A['info'], ctx, A['field_nodes'], A['path'], self.rt))))]


CONTRACTS += [GetTypeResolver(), ResolveField(), EnsureValidRuntimeType(), AbstractCoercerBody()]
