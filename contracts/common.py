"""Shared vocabulary for the contract files: object views, small helper contracts used by many properties."""
import z3
from pyvc.values import *
from pyvc.values import UNFOLD, LEMMA_HOOKS, ForallList
from pyvc.contracts import Contract, Out
from pyvc.symexec import attr0, field0, State, Raise, PyRef, PyFunc, PyTuple, fun_id, LoopContract
from pyvc.classtable import table

T = table()


def cid(n):
    return T.cid[n]


def inst(v, *names):
    ids = sorted({T.cid[c] for n in names for c in T.subclasses(n)})
    return z3.And(V.is_Obj(v), z3.Or(*[V.ocls(v) == k for k in ids]))


def exact(v, name):
    return z3.And(V.is_Obj(v), V.ocls(v) == T.cid[name])


def input_obj(v):
    """objects that exist before the call: non-negative references (fresh allocations are negative)"""
    return z3.And(V.is_Obj(v), V.oref(v) >= 0)


def fld(st, attr, obj):
    return z3.Select(st.fields.get(attr, field0(attr)), obj)


CONCRETE_NODES = sorted(c for c in T.subclasses('Node') if T.resolve_attr(c, 'location') is not None)


def ast_node(v):
    """an instance of a concrete AST node class (every concrete class sets .location in __init__; read from the class table)"""
    return z3.And(V.is_Obj(v), z3.Or(*[V.ocls(v) == T.cid[c] for c in CONCRETE_NODES]), V.oref(v) >= 0)


AllAstNodes = ForallList('ast_node', ast_node)


def node_list(v):
    """a list of concrete AST nodes"""
    return z3.And(V.is_List(v), AllAstNodes(V.items(v)))


def node_or_none(v):
    return z3.Or(v == V.None_, ast_node(v))


from specs.outputs import carried_exc, AllCarried, exc_wf, exc_full_wf, carried     # noqa: E402


NAMED_PARENT_CLASSES = [c for c in T.subclasses('GraphQLType') if T.resolve_attr(c, 'name') is not None and c not in ('GraphQLList', 'GraphQLNonNull')]


def info_wf(i):
    """ResolveInfo of the field being completed: its parent type is a named composite type (has .name)"""
    pt = attr0(i, 'parent_type')
    return z3.And(exact(i, 'ResolveInfo'), V.oref(i) >= 0, V.is_Obj(pt), z3.Or(*[V.ocls(pt) == T.cid[c] for c in NAMED_PARENT_CLASSES]), V.oref(pt) >= 0,
                  V.is_Str(attr0(i, 'field_name')))


def never_raises(out):
    return [('never_raises', z3.BoolVal(False))]


def py_truthy(v):
    """Python truthiness of the values contracts talk about (None / lists / bools / callables)"""
    return z3.If(v == V.None_, False, z3.If(V.is_List(v), z3.Not(VL.is_nil(V.items(v))), z3.If(V.is_Bool(v), V.b(v),
           z3.If(V.is_Dict(v), z3.Not(VL.is_nil(V.ditems(v))), z3.If(v == V.Undef, False, True)))))


# ---- CoercionResult view
def cr_errors(st, cr):
    return fld(st, 'errors', cr)


def cr_value(st, cr):
    return fld(st, 'value', cr)


def cr_wf(st, cr):
    e = cr_errors(st, cr)
    return z3.And(exact(cr, 'CoercionResult'), z3.Or(e == V.None_, V.is_List(e)),
                  z3.Implies(py_truthy(e), cr_value(st, cr) == V.None_))


def cr_ok(st, cr):
    return z3.Not(py_truthy(cr_errors(st, cr)))


def new_cr(en, st, ok, val):
    """a fresh CoercionResult whose verdict is `ok` and whose value is `val` when ok (behavioural callee result)"""
    cr = V.Obj(cid('CoercionResult'), en.alloc())
    ev, vv = fresh('cr_errors'), fresh('cr_value')
    st = en.setattr(cr, 'errors', ev, st)
    st = en.setattr(cr, 'value', vv, st)
    st = st.assume(z3.Or(ev == V.None_, V.is_List(ev)), py_truthy(ev) == z3.Not(ok),
                   z3.Implies(ok, vv == val), z3.Implies(z3.Not(ok), vv == V.None_))
    return st, cr


class CoercionErrorContract(Contract):
    """coercion_error(message, node, path, sub_message, original_error): builds a CoercionError, raises nothing"""
    key = 'tartiflette/coercers/common.py::coercion_error'
    property_ids = ('C04', 'C05')
    params = ['message', 'node', 'path', 'sub_message', 'original_error']

    def pre(self, A, st):
        return [('message_is_str', V.is_Str(A['message'])), ('node', node_or_none(A['node'])),
                ('sub_message', z3.Or(A['sub_message'] == V.None_, V.is_Str(A['sub_message'])))]

    def post(self, A, st0, out):
        if out.kind == 'raise':
            return never_raises(out)
        return [('is_CoercionError', exact(out.value, 'CoercionError')), ('fresh', V.oref(out.value) < 0)]


class GraphqlErrorFromNodes(Contract):
    key = 'tartiflette/utils/errors.py::graphql_error_from_nodes'
    property_ids = ('C04', 'C05', 'C02', 'C18')
    params = ['message', 'nodes', 'path', 'original_error', 'extensions']

    def pre(self, A, st):
        n = A['nodes']
        return [('nodes', z3.Or(ast_node(n), node_list(n))),
                ('path', z3.Implies(inst(A['path'], 'Path'), PathWf(A['path']))),
                ('message_is_text', V.is_Str(A['message']))]      # every error of a response carries a string message (C18)

    def post(self, A, st0, out):
        if out.kind == 'raise':
            return never_raises(out)
        return [('is_TartifletteError', exact(out.value, 'TartifletteError')), ('fresh', V.oref(out.value) < 0)]


def nodes_list(l):
    """every element is a concrete AST node (quantified; instantiated on nth(l, k) terms by E-matching)"""
    k = z3.Int('nk_')
    return z3.ForAll([k], z3.Implies(z3.And(k >= 0, k < length(l)), ast_node(nth(l, k))), patterns=[nth(l, k)])


# ---- response paths (coercers/common.py::Path): linked list towards the root
PathWf = z3.RecFunction('PathWf', V, BoolS)
KeysDown = z3.RecFunction('PathKeysDown', V, VL)       # keys from this entry up to the root
_p = z3.Const('p_', V)
z3.RecAddDefinition(PathWf, [_p], z3.Or(_p == V.None_, z3.And(exact(_p, 'Path'), PathWf(attr0(_p, 'prev')))))
z3.RecAddDefinition(KeysDown, [_p], z3.If(_p == V.None_, VL.nil, VL.cons(attr0(_p, 'key'), KeysDown(attr0(_p, 'prev')))))


UNFOLD['PathWf'] = lambda p: z3.Or(p == V.None_, z3.And(exact(p, 'Path'), PathWf(attr0(p, 'prev'))))
UNFOLD['PathKeysDown'] = lambda p: z3.If(p == V.None_, VL.nil, VL.cons(attr0(p, 'key'), KeysDown(attr0(p, 'prev'))))


def path_list(p):
    """the response path as a list from the root: what Path.as_list must return"""
    return V.List(rev_onto(KeysDown(p), VL.nil))


class PathAsList(Contract):
    key = 'tartiflette/coercers/common.py::Path.as_list'
    property_ids = ('C02', 'C04', 'C05', 'C18')
    params = ['self']
    self_class = 'Path'

    def pre(self, A, st):
        return [('wf', z3.And(PathWf(A['self']), A['self'] != V.None_))]

    def _inv(self, en, st, k, st0):
        cur = st.env['current_path']
        items = V.items(en.read(st.env['path'], st))
        return {'cursor_wf': PathWf(cur), 'keys_so_far': app(items, KeysDown(cur)) == KeysDown(self.A['self'])}

    @property
    def loops(self):
        return {0: LoopContract(self._inv)}

    def args(self, en, names):
        self.A = super().args(en, names)
        return self.A

    def post(self, A, st0, out):
        if out.kind == 'raise':
            return never_raises(out)
        return [('root_first_key_list', out.value == path_list(A['self']))]


COMMON_CONTRACTS = [CoercionErrorContract(), GraphqlErrorFromNodes(), PathAsList()]
