"""C06 / C07 (continued) -- further validation rules: each rule's `validate` reports an error exactly when its June-2018 rule is broken for the
arguments the document builder hands it (both halves as one equality: no false reject, no false accept)."""
import z3
from pyvc.values import *
from pyvc.values import UNFOLD, ForallList, LEMMA_HOOKS, CountList
from pyvc.contracts import Contract, Lemma
from pyvc.symexec import attr0, field0, LoopContract, PyFunc, PyTuple, Raise, KwBundle
from .common import *

Q = 'tartiflette/language/validators/query/'


def name_of(n):
    return attr0(attr0(n, 'name'), 'value')


def named(n):
    """the node carries a NameNode with a string value"""
    return z3.And(exact(attr0(n, 'name'), 'NameNode'), V.oref(attr0(n, 'name')) >= 0, V.is_Str(name_of(n)))


def schema_wf(s):
    return z3.And(exact(s, 'GraphQLSchema'), V.oref(s) >= 0, V.is_Dict(attr0(s, 'type_definitions')), V.is_Dict(attr0(s, '_directive_definitions')))


def type_of(s, name):
    return lookup(V.ditems(attr0(s, 'type_definitions')), name)


def path_ok(p):
    return z3.Or(p == V.None_, z3.And(inst(p, 'Path'), PathWf(p)))


def reports(out):
    return z3.And(V.is_List(out.value), z3.Not(VL.is_nil(V.items(out.value))))


class Rule(Contract):
    """shape shared by the rule contracts: a rule object whose _extensions is set, never raises, returns a list; `broken(A)` is the rule's predicate"""
    property_ids = ('C06', 'C07')

    def args(self, en, names):
        self.A = super().args(en, names)
        return self.A

    def rule_pre(self, A):
        return [('rule_object', z3.And(V.is_Obj(A['self']), V.oref(A['self']) >= 0)), ('path', path_ok(A['path']))]

    def post(self, A, st0, out):
        if out.kind == 'raise':
            return never_raises(out)
        return [('reports_iff_the_rule_is_broken', z3.And(V.is_List(out.value), z3.Not(VL.is_nil(V.items(out.value))) == self.broken(A)))]


class DirectivesAreDefined(Rule):
    """5.7.1: a directive must be defined by the schema"""
    key = Q + 'directives_are_defined.py::DirectivesAreDefined.validate'
    params = ['self', 'directive', 'schema', 'path']
    self_class = 'DirectivesAreDefined'

    def pre(self, A, st):
        d = A['directive']
        return self.rule_pre(A) + [('directive', z3.And(exact(d, 'DirectiveNode'), V.oref(d) >= 0, named(d))), ('schema', schema_wf(A['schema']))]

    def broken(self, A):
        return lookup(V.ditems(attr0(A['schema'], '_directive_definitions')), name_of(A['directive'])) == V.Missing


def type_condition_wf(f):
    tc = attr0(f, 'type_condition')
    return z3.Or(tc == V.None_, z3.And(exact(tc, 'NamedTypeNode'), V.oref(tc) >= 0, named(tc)))


def fragment_wf(f):
    return z3.And(z3.Or(exact(f, 'InlineFragmentNode'), z3.And(exact(f, 'FragmentDefinitionNode'), named(f))), V.oref(f) >= 0, type_condition_wf(f))


class FragmentSpreadTypeExistence(Rule):
    """5.5.1.2: the type a fragment conditions on must be defined"""
    key = Q + 'fragment_spread_type_existence.py::FragmentSpreadTypeExistence.validate'
    params = ['self', 'path', 'schema', 'fragment']
    self_class = 'FragmentSpreadTypeExistence'

    def pre(self, A, st):
        return self.rule_pre(A) + [('fragment', fragment_wf(A['fragment'])), ('schema', schema_wf(A['schema']))]

    def broken(self, A):
        tc = attr0(A['fragment'], 'type_condition')
        return z3.And(tc != V.None_, type_of(A['schema'], name_of(tc)) == V.Missing)


class FragmentsOnCompositeTypes(Rule):
    """5.5.1.3: a fragment may only condition on an object, interface or union type"""
    key = Q + 'fragments_on_composite_types.py::FragmentsOnCompositeTypes.validate'
    params = ['self', 'path', 'schema', 'fragment']
    self_class = 'FragmentsOnCompositeTypes'

    def pre(self, A, st):
        return self.rule_pre(A) + [('fragment', fragment_wf(A['fragment'])), ('schema', schema_wf(A['schema']))]

    def broken(self, A):
        tc = attr0(A['fragment'], 'type_condition')
        t = type_of(A['schema'], name_of(tc))
        return z3.And(tc != V.None_, t != V.Missing, z3.Not(inst(t, 'GraphQLCompositeType')))


NamedTypeOf = z3.Function('WrappedNamedTypeNode', V, V)      # get_wrapped_named_type(type node): the innermost NamedTypeNode


class VariablesAreInputTypes(Rule):
    """5.8.2: a variable's (unwrapped) type must be a scalar, enum or input object"""
    key = Q + 'variables_are_input_types.py::VariablesAreInputTypes.validate'
    params = ['self', 'variable', 'path', 'schema']
    self_class = 'VariablesAreInputTypes'
    callee_models = {'tartiflette/language/utils.py::get_wrapped_named_type': lambda en, st, a, kw: [(st, NamedTypeOf(en.read(a[0], st)))]}

    def pre(self, A, st):
        v = A['variable']
        nt = NamedTypeOf(attr0(v, 'type'))
        return self.rule_pre(A) + [('variable', z3.And(exact(v, 'VariableDefinitionNode'), V.oref(v) >= 0, exact(attr0(v, 'variable'), 'VariableNode'), V.oref(attr0(v, 'variable')) >= 0,
                                                       named(attr0(v, 'variable')), exact(nt, 'NamedTypeNode'), V.oref(nt) >= 0, named(nt))),
                                   ('schema', schema_wf(A['schema']))]

    def broken(self, A):
        t = type_of(A['schema'], name_of(NamedTypeOf(attr0(A['variable'], 'type'))))
        return z3.And(t != V.Missing, z3.Not(inst(t, 'GraphQLInputType')))


AllOps = ForallList('operation_node', lambda o: z3.And(exact(o, 'OperationDefinitionNode'), V.oref(o) >= 0, z3.Or(attr0(o, 'name') == V.None_, named(o))))
NoAnon = ForallList('operation_is_named', lambda o: attr0(o, 'name') != V.None_)


class LoneAnonymousOperation(Rule):
    """5.2.2.1: an anonymous operation must be the only operation of the document"""
    key = Q + 'lone_anonymous_operation.py::LoneAnonymousOperation.validate'
    params = ['self', 'path', 'operations']
    self_class = 'LoneAnonymousOperation'

    def pre(self, A, st):
        return self.rule_pre(A) + [('operations', z3.And(V.is_List(A['operations']), AllOps(V.items(A['operations']))))]

    def _inv(self, en, st, k, st0):
        bad = V.items(en.read(st.env['bad_nodes'], st))
        ops = V.items(self.A['operations'])
        return {'bad_nodes_iff_anonymous_so_far': VL.is_nil(bad) == NoAnon(take(ops, k)), 'bad_nodes_are_nodes': AllAstNodes(bad)}

    @property
    def loops(self):
        return {0: LoopContract(self._inv)}

    def broken(self, A):
        ops = V.items(A['operations'])
        return z3.And(length(ops) > 1, z3.Not(NoAnon(ops)))


FieldTypeOf = z3.Function('ReducedFieldType', V, V, V, V)      # find_field_reduced_type(parent type name, field name, schema): the named type object or None


def field_node_wf(f):
    ss = attr0(f, 'selection_set')
    return z3.And(exact(f, 'FieldNode'), V.oref(f) >= 0, named(f), z3.Or(ss == V.None_, z3.And(exact(ss, 'SelectionSetNode'), V.oref(ss) >= 0)))


_FT_MODEL = {Q + 'utils.py::find_field_reduced_type': lambda en, st, a, kw: [(st, FieldTypeOf(en.read(a[0], st), en.read(a[1], st), en.read(a[2], st)))]}


def field_type_wf(t):
    """what schema.type_definitions holds: named (non-wrapper) type objects"""
    return z3.Or(t == V.None_, z3.And(V.is_Obj(t), z3.Or(*[V.ocls(t) == T.cid[c] for c in NAMED_PARENT_CLASSES + [c for c in T.subclasses('GraphQLType')
                                                                                                                  if T.resolve_attr(c, 'name') is not None and c not in NAMED_PARENT_CLASSES and c not in ('GraphQLList', 'GraphQLNonNull')]]),
                                      V.oref(t) >= 0, V.is_Str(attr0(t, 'name'))))


class LeafFieldSelections(Rule):
    """5.3.3: a field of composite type must have a sub-selection, a field of leaf type must not (unknown fields are another rule's business)"""
    key = Q + 'leaf_field_selections.py::LeafFieldSelections.validate'
    params = ['self', 'path', 'schema', 'field', 'parent_type_name']
    self_class = 'LeafFieldSelections'
    callee_models = _FT_MODEL

    def pre(self, A, st):
        t = FieldTypeOf(A['parent_type_name'], name_of(A['field']), A['schema'])
        return self.rule_pre(A) + [('field', field_node_wf(A['field'])), ('schema', schema_wf(A['schema'])), ('field_type', field_type_wf(t)),
                                   ('parent', z3.Or(A['parent_type_name'] == V.None_, V.is_Str(A['parent_type_name'])))]

    def broken(self, A):
        t = FieldTypeOf(A['parent_type_name'], name_of(A['field']), A['schema'])
        has_sel = attr0(A['field'], 'selection_set') != V.None_
        comp = inst(t, 'GraphQLCompositeType')
        return z3.And(t != V.None_, z3.Or(z3.And(comp, z3.Not(has_sel)), z3.And(z3.Not(comp), has_sel)))


class FieldSelections(Rule):
    """5.3.1: the selected field must be defined on the parent type; __typename is defined on every composite type (the other meta fields are
    found through the schema on the query root like ordinary fields)"""
    key = Q + 'field_selections_on_objects_interfaces_and_unions_types.py::FieldSelectionsOnObjectsInterfacesAndUnionsTypes.validate'
    params = ['self', 'path', 'schema', 'field', 'parent_type_name']
    self_class = 'FieldSelectionsOnObjectsInterfacesAndUnionsTypes'
    callee_models = _FT_MODEL

    def pre(self, A, st):
        t = FieldTypeOf(A['parent_type_name'], name_of(A['field']), A['schema'])
        return self.rule_pre(A) + [('field', field_node_wf(A['field'])), ('schema', schema_wf(A['schema'])), ('field_type', field_type_wf(t)),
                                   ('parent', z3.Or(A['parent_type_name'] == V.None_, V.is_Str(A['parent_type_name'])))]

    def broken(self, A):
        t = FieldTypeOf(A['parent_type_name'], name_of(A['field']), A['schema'])
        return z3.And(name_of(A['field']) != S('__typename'), t == V.None_)


AllExecutable = ForallList('definition_is_executable', lambda d: inst(d, 'ExecutableDefinitionNode'))
NotExecutable = ForallList('definition_is_not_executable', lambda d: z3.Not(inst(d, 'ExecutableDefinitionNode')))


class ExecutableDefinitions(Rule):
    """5.1.1: a request document holds only operation and fragment definitions"""
    key = Q + 'executable_definitions.py::ExecutableDefinition.validate'
    params = ['self', 'definitions', 'path']
    self_class = 'ExecutableDefinition'

    filter_specs = {0: (NotExecutable, AllExecutable, lambda en: [])}

    def pre(self, A, st):
        return self.rule_pre(A) + [('definitions', z3.And(V.is_List(A['definitions']), AllAstNodes(V.items(A['definitions']))))]

    def broken(self, A):
        return z3.Not(AllExecutable(V.items(A['definitions'])))


CONTRACTS = [DirectivesAreDefined(), FragmentSpreadTypeExistence(), FragmentsOnCompositeTypes(), VariablesAreInputTypes(), LoneAnonymousOperation(),
             LeafFieldSelections(), FieldSelections(), ExecutableDefinitions()]
LEMMAS = []


# ---- 5.2.3.1 single root field: EVERY subscription operation of the document is checked
RootErrs = z3.Function('SingleRootErrorsOf', V, V, V)          # _validate_selection_set(operation, its selection set, fragments): [] iff exactly one root field after spreading
AllOpDefs = ForallList('operation_definition', lambda o, fr: z3.And(exact(o, 'OperationDefinitionNode'), V.oref(o) >= 0, V.is_Str(attr0(o, 'operation_type')),
                                                                   V.is_List(RootErrs(o, fr))), param_sorts=[V])
AllSubsOk = ForallList('subscription_has_a_single_root', lambda o, fr: z3.Implies(attr0(o, 'operation_type') == S('subscription'), VL.is_nil(V.items(RootErrs(o, fr)))), param_sorts=[V])


class SingleRootField(Rule):
    """5.2.3.1: every subscription operation must have exactly one root field (the per-operation count is _validate_selection_set's business)"""
    key = Q + 'single_root_field.py::SingleRootField.validate'
    params = ['self', 'path', 'definitions']
    self_class = 'SingleRootField'

    def _parts(self, A):
        d = V.ditems(A['definitions'])
        return lookup(d, S('OperationDefinition')), lookup(d, S('FragmentDefinition'))

    def pre(self, A, st):
        ops, frs = self._parts(A)
        return self.rule_pre(A) + [('definitions', z3.And(V.is_Dict(A['definitions']), V.is_List(ops), frs != V.Missing, AllOpDefs(V.items(ops), frs)))]

    def getattr_hook(self, en, st, v, attr):
        if attr == '_validate_selection_set' and z3.eq(v, self.A['self']):
            return [(st, PyFunc('_validate_selection_set', lambda en, s, a, kw: [(s, RootErrs(en.read(a[0], s), en.read(a[2], s)))]))]
        return None

    def _inv(self, en, st, k, st0):
        ops, frs = self._parts(self.A)
        errs = en.read(st.env['errors'], st) if 'errors' in st.env else V.List(VL.nil)
        return {'errors_iff_a_bad_subscription_so_far': z3.And(V.is_List(errs), VL.is_nil(V.items(errs)) == AllSubsOk(take(V.items(ops), k), frs))}

    @property
    def loops(self):
        return {0: LoopContract(self._inv)}

    def broken(self, A):
        ops, frs = self._parts(A)
        return z3.Not(AllSubsOk(V.items(ops), frs))


CONTRACTS.append(SingleRootField())


# ---- helpers shared by the uniqueness / definedness rules
def _is_named(x, name):
    nm = attr0(x, 'name')
    return z3.And(nm != V.None_, attr0(nm, 'value') == name)


NoneNamed = ForallList('node_not_named', lambda x, name: z3.Not(_is_named(x, name)), param_sorts=[V])
AllNamed = ForallList('node_named', lambda x, name: _is_named(x, name), param_sorts=[V])
NAMED_NODE_CLASSES = [c for c in CONCRETE_NODES if T.resolve_attr(c, 'name') is not None]
CountNamed = CountList(AllNamed)
AllNameable = ForallList('nameable_node', lambda x: z3.And(V.is_Obj(x), z3.Or(*[V.ocls(x) == T.cid[c] for c in NAMED_NODE_CLASSES]), V.oref(x) >= 0,
                                                           z3.Or(attr0(x, 'name') == V.None_, named(x))))


class FindNodesByName(Contract):
    """find_nodes_by_name: the sub-list of nodes carrying that name -- empty exactly when no node does"""
    key = Q + 'utils.py::find_nodes_by_name'
    property_ids = ('C06', 'C07')
    params = ['nodes', 'name']

    def args(self, en, names):
        self.A = super().args(en, names)
        return self.A

    @property
    def filter_specs(self):
        return {0: (AllNamed, NoneNamed, lambda en: [self.A['name']], CountNamed)}

    def pre(self, A, st):
        return [('nodes', z3.And(V.is_List(A['nodes']), AllNameable(V.items(A['nodes'])), AllAstNodes(V.items(A['nodes'])))), ('name', V.is_Str(A['name']))]

    def post(self, A, st0, out):
        if out.kind == 'raise':
            return never_raises(out)
        r = out.value
        return [('empty_iff_no_node_has_the_name', z3.And(V.is_List(r), VL.is_nil(V.items(r)) == NoneNamed(V.items(A['nodes']), A['name']))),
                ('only_nodes_with_the_name', AllNamed(V.items(r), A['name'])), ('nodes_of_the_input', z3.And(AllNameable(V.items(r)), AllAstNodes(V.items(r)))),
                ('as_many_as_nodes_with_the_name', length(V.items(r)) == CountNamed(V.items(A['nodes']), A['name'])),
                ('no_longer_than_the_input', length(V.items(r)) <= length(V.items(A['nodes'])))]


CONTRACTS.append(FindNodesByName())


# ---- 5.5.1.4 fragments must be used / 5.5.2.1 fragment spread target defined
AllFragDefs = ForallList('fragment_definition_node', lambda f: z3.And(exact(f, 'FragmentDefinitionNode'), V.oref(f) >= 0, named(f)))
AllSpreadNodes = ForallList('fragment_spread_node', lambda x: z3.And(exact(x, 'FragmentSpreadNode'), V.oref(x) >= 0, named(x)))
FragmentUsed = ForallList('fragment_is_spread_somewhere', lambda f, spreads: z3.Not(NoneNamed(spreads, name_of(f))), param_sorts=[VL])
FragmentUnused = ForallList('fragment_is_never_spread', lambda f, spreads: NoneNamed(spreads, name_of(f)), param_sorts=[VL])


def _spreads_or_empty(A):
    fs = A['fragment_spreads']
    return z3.If(py_truthy(fs), V.items(fs), VL.nil)


class FragmentMustBeUsed(Rule):
    """5.5.1.4: every defined fragment is the target of at least one spread"""
    key = Q + 'fragment_must_be_used.py::FragmentMustBeUsed.validate'
    params = ['self', 'path', 'fragments', 'fragment_spreads']
    self_class = 'FragmentMustBeUsed'

    @property
    def filter_specs(self):
        return {0: (FragmentUnused, FragmentUsed, lambda en: [_spreads_or_empty(self.A)])}

    def pre(self, A, st):
        fs = A['fragment_spreads']
        return self.rule_pre(A) + [('fragments', z3.And(V.is_List(A['fragments']), AllFragDefs(V.items(A['fragments'])))),
                                   ('spreads', z3.Or(fs == V.None_, z3.And(V.is_List(fs), AllSpreadNodes(V.items(fs)), AllNameable(V.items(fs)), AllAstNodes(V.items(fs)))))]

    def broken(self, A):
        return z3.Not(FragmentUsed(V.items(A['fragments']), _spreads_or_empty(A)))


SpreadDefined = ForallList('spread_target_is_defined', lambda x, frags: z3.Not(NoneNamed(frags, name_of(x))), param_sorts=[VL])


class FragmentSpreadTargetDefined(Rule):
    """5.5.2.1: every spread names a defined fragment"""
    key = Q + 'fragment_spread_target_defined.py::FragmentSpreadTargetDefined.validate'
    params = ['self', 'path', 'fragments', 'fragment_spreads']
    self_class = 'FragmentSpreadTargetDefined'
    # _to_errors (one located error per recorded name: a list comprehension over the dict) is abstracted: a list as long as the dict
    callee_models = {Q + 'fragment_spread_target_defined.py::FragmentSpreadTargetDefined._to_errors':
                     lambda en, st, a, kw: (lambda r, d: [(st.assume(length(r) == length(V.ditems(d))), V.List(r))])(fresh('errors_of', VL), en.read(a[1], st))}

    def pre(self, A, st):
        fs = A['fragment_spreads']
        return self.rule_pre(A) + [('fragments', z3.And(V.is_List(A['fragments']), AllFragDefs(V.items(A['fragments'])), AllNameable(V.items(A['fragments'])), AllAstNodes(V.items(A['fragments'])))),
                                   ('spreads', z3.Or(fs == V.None_, z3.And(V.is_List(fs), AllSpreadNodes(V.items(fs)))))]

    def _inv(self, en, st, k, st0):
        bad = V.ditems(en.read(st.env['erronous_speads'], st))
        return {'recorded_iff_undefined_target_so_far': VL.is_nil(bad) == SpreadDefined(take(_spreads_or_empty(self.A), k), V.items(self.A['fragments']))}

    @property
    def loops(self):
        return {0: LoopContract(self._inv)}

    def broken(self, A):
        return z3.Not(SpreadDefined(_spreads_or_empty(A), V.items(A['fragments'])))


AllBadEntries = ForallList('undefined_spread_entry', lambda p: z3.And(V.is_Pair(p), V.is_Str(V.fst(p)), V.is_List(V.snd(p)), AllAstNodes(V.items(V.snd(p)))))
CONTRACTS += [FragmentMustBeUsed(), FragmentSpreadTargetDefined()]


# ---- uniqueness rules: no two nodes of the list carry the same name (arguments 5.4.2, fragments 5.5.1.1, operations 5.2.1.1, input object fields
# 5.6.3, directives per location 5.7.3)
NameIsUnique = ForallList('name_is_unique_in', lambda x, xs: z3.Or(attr0(x, 'name') == V.None_, CountNamed(xs, name_of(x)) <= 1), param_sorts=[VL])


class Uniqueness(Rule):
    """reports exactly when some name is carried by more than one node of the list"""
    def __init__(self, fn, cls, params, list_param):
        self.key = Q + fn + '::' + cls + '.validate'
        self.params = params
        self.self_class = cls
        self.list_param = list_param

    def pre(self, A, st):
        xs = A[self.list_param]
        return self.rule_pre(A) + [('nodes', z3.And(V.is_List(xs), AllNameable(V.items(xs)), AllAstNodes(V.items(xs)),
                                                    z3.BoolVal(True) if self.list_param == 'operations' else AllHaveNames(V.items(xs))))]

    def _inv(self, en, st, k, st0):
        xs = V.items(self.A[self.list_param])
        errors = V.items(en.read(st.env['errors'], st))
        tested = V.items(en.read(st.env['already_tested'], st))
        return {'errors_iff_a_duplicated_name_so_far': VL.is_nil(errors) == NameIsUnique(take(xs, k), xs), 'tested_names_were_reported': VL.is_nil(tested) == VL.is_nil(errors)}

    @property
    def loops(self):
        return {0: LoopContract(self._inv)}

    def broken(self, A):
        xs = V.items(A[self.list_param])
        return z3.Not(NameIsUnique(xs, xs))


AllHaveNames = ForallList('node_has_a_name', lambda x: named(x))
CONTRACTS += [Uniqueness('argument_uniqueness.py', 'ArgumentUniqueness', ['self', 'arguments', 'path'], 'arguments'),
              Uniqueness('fragment_name_uniqueness.py', 'FragmentNameUniqueness', ['self', 'path', 'fragments'], 'fragments'),
              Uniqueness('operation_name_uniqueness.py', 'OperationNameUniqueness', ['self', 'path', 'operations'], 'operations'),
              Uniqueness('input_object_field_uniqueness.py', 'InputObjectFieldUniqueness', ['self', 'path', 'input_fields'], 'input_fields'),
              Uniqueness('directives_are_unique_per_location.py', 'DirectivesAreUniquePerLocation', ['self', 'directives', 'path'], 'directives')]


# ---- 5.4.1 argument names / 5.4.2.1 required arguments
FieldOf = z3.Function('SchemaFieldOf', V, V, V, V)          # find_field(parent type name, field name, schema): the GraphQLField or None
_FF_MODEL = {Q + 'utils.py::find_field': lambda en, st, a, kw: [(st, FieldOf(en.read(a[0], st), en.read(a[1], st), en.read(a[2], st)))]}
ArgDeclared = ForallList('argument_is_declared', lambda a, defs: lookup(defs, name_of(a)) != V.Missing, param_sorts=[VL])
AllArgNodes = ForallList('query_argument_node', lambda a: z3.And(exact(a, 'ArgumentNode'), V.oref(a) >= 0, named(a)))


def has_args(n):
    return z3.And(V.is_List(attr0(n, 'arguments')), AllArgNodes(V.items(attr0(n, 'arguments'))), AllNameable(V.items(attr0(n, 'arguments'))), AllAstNodes(V.items(attr0(n, 'arguments'))))


def directive_node_wf(d):
    return z3.And(exact(d, 'DirectiveNode'), V.oref(d) >= 0, named(d), has_args(d))


def dir_def(s, d):
    return lookup(V.ditems(attr0(s, '_directive_definitions')), name_of(d))


def dir_defs_wf(s, d):
    dd = dir_def(s, d)
    return z3.Implies(dd != V.Missing, z3.And(exact(dd, 'GraphQLDirective'), V.oref(dd) >= 0, V.is_Str(attr0(dd, 'name')), V.is_Dict(attr0(dd, 'arguments')),
                                              AllArgDefs(V.ditems(attr0(dd, 'arguments')))))


AllArgDefs = ForallList('schema_argument_entry', lambda p: z3.And(V.is_Pair(p), V.is_Str(V.fst(p)), exact(V.snd(p), 'GraphQLArgument'), V.oref(V.snd(p)) >= 0, V.is_Str(attr0(V.snd(p), 'name')),
                                                                 inst(attr0(V.snd(p), 'graphql_type'), 'GraphQLType'), V.oref(attr0(V.snd(p), 'graphql_type')) >= 0))


def schema_field_wf(f):
    return z3.Or(f == V.None_, z3.And(exact(f, 'GraphQLField'), V.oref(f) >= 0, V.is_Str(attr0(f, 'name')), V.is_Dict(attr0(f, 'arguments')), AllArgDefs(V.ditems(attr0(f, 'arguments')))))


class ArgumentNamesDirective(Rule):
    """5.4.1 on a directive: every provided argument is declared by the (known) directive"""
    key = Q + 'argument_names.py::ArgumentNames._validate_directive_arguments'
    params = ['self', 'query_node', 'path', 'schema']
    self_class = 'ArgumentNames'

    def pre(self, A, st):
        return self.rule_pre(A) + [('directive', directive_node_wf(A['query_node'])), ('schema', z3.And(schema_wf(A['schema']), dir_defs_wf(A['schema'], A['query_node'])))]

    def _inv(self, en, st, k, st0):
        d = dir_def(self.A['schema'], self.A['query_node'])
        errors = V.items(en.read(st.env['errors'], st))
        return {'errors_iff_undeclared_argument_so_far': VL.is_nil(errors) == ArgDeclared(take(V.items(attr0(self.A['query_node'], 'arguments')), k), V.ditems(attr0(d, 'arguments')))}

    @property
    def loops(self):
        return {0: LoopContract(self._inv)}

    def broken(self, A):
        d = dir_def(A['schema'], A['query_node'])
        return z3.And(d != V.Missing, z3.Not(ArgDeclared(V.items(attr0(A['query_node'], 'arguments')), V.ditems(attr0(d, 'arguments')))))


class ArgumentNamesField(Rule):
    """5.4.1 on a field: every provided argument is declared by the (known) field"""
    key = Q + 'argument_names.py::ArgumentNames._validate_field_arguments'
    params = ['self', 'query_field', 'path', 'schema', 'parent_type_name']
    self_class = 'ArgumentNames'
    callee_models = _FF_MODEL

    def _sf(self, A):
        return FieldOf(A['parent_type_name'], name_of(A['query_field']), A['schema'])

    def pre(self, A, st):
        f = A['query_field']
        return self.rule_pre(A) + [('field', z3.And(exact(f, 'FieldNode'), V.oref(f) >= 0, named(f), has_args(f))), ('schema', schema_wf(A['schema'])),
                                   ('schema_field', schema_field_wf(self._sf(A)))]

    def _inv(self, en, st, k, st0):
        errors = V.items(en.read(st.env['errors'], st))
        return {'errors_iff_undeclared_argument_so_far': VL.is_nil(errors) == ArgDeclared(take(V.items(attr0(self.A['query_field'], 'arguments')), k), V.ditems(attr0(self._sf(self.A), 'arguments')))}

    @property
    def loops(self):
        return {0: LoopContract(self._inv)}

    def broken(self, A):
        sf = self._sf(A)
        return z3.And(sf != V.None_, z3.Not(ArgDeclared(V.items(attr0(A['query_field'], 'arguments')), V.ditems(attr0(sf, 'arguments')))))


# required arguments: a declared argument that is non-null without default must be provided
def _required_and_missing(p_or_arg, provided):
    a = p_or_arg
    return z3.And(inst(attr0(a, 'graphql_type'), 'GraphQLNonNull'), attr0(a, 'default_value') == V.None_, NoneNamed(provided, attr0(a, 'name')))


ReqMissing = ForallList('required_argument_is_missing', lambda a, provided: _required_and_missing(a, provided), param_sorts=[VL])
ReqSatisfied = ForallList('required_argument_is_satisfied', lambda a, provided: z3.Not(_required_and_missing(a, provided)), param_sorts=[VL])
AllArgDefValues = ForallList('schema_argument', lambda a: z3.And(exact(a, 'GraphQLArgument'), V.oref(a) >= 0, V.is_Str(attr0(a, 'name')), inst(attr0(a, 'graphql_type'), 'GraphQLType'),
                                                                V.oref(attr0(a, 'graphql_type')) >= 0))


class RequiredArgumentsOf(Rule):
    """5.4.2.1: reports iff some argument the definition declares non-null without default is not provided by the node"""
    key = Q + 'required_arguments.py::RequiredArguments._validate_arguments'
    params = ['self', 'parent_node', 'schema_definition', 'path', 'message_suffix']
    self_class = 'RequiredArguments'

    @property
    def filter_specs(self):
        return {0: (ReqMissing, ReqSatisfied, lambda en: [V.items(attr0(self.A['parent_node'], 'arguments'))])}

    def pre(self, A, st):
        n, d = A['parent_node'], A['schema_definition']
        return self.rule_pre(A) + [('node', z3.And(z3.Or(exact(n, 'FieldNode'), exact(n, 'DirectiveNode')), V.oref(n) >= 0, has_args(n))),
                                   ('definition', z3.And(z3.Or(exact(d, 'GraphQLField'), exact(d, 'GraphQLDirective')), V.oref(d) >= 0, V.is_Dict(attr0(d, 'arguments')),
                                                         AllArgDefValues(vals(V.ditems(attr0(d, 'arguments'))))))]

    def broken(self, A):
        return z3.Not(ReqSatisfied(vals(V.ditems(attr0(A['schema_definition'], 'arguments'))), V.items(attr0(A['parent_node'], 'arguments'))))


CONTRACTS += [ArgumentNamesDirective(), ArgumentNamesField(), RequiredArgumentsOf()]


def _req_broken(defn, node):
    return z3.Not(ReqSatisfied(vals(V.ditems(attr0(defn, 'arguments'))), V.items(attr0(node, 'arguments'))))


def _dir_def_req_wf(s, d):
    dd = dir_def(s, d)
    return z3.Implies(dd != V.Missing, z3.And(exact(dd, 'GraphQLDirective'), V.oref(dd) >= 0, V.is_Dict(attr0(dd, 'arguments')), AllArgDefValues(vals(V.ditems(attr0(dd, 'arguments'))))))


def _field_def_req_wf(f):
    return z3.Or(f == V.None_, z3.And(exact(f, 'GraphQLField'), V.oref(f) >= 0, V.is_Dict(attr0(f, 'arguments')), AllArgDefValues(vals(V.ditems(attr0(f, 'arguments'))))))


class RequiredArgumentsDirective(Rule):
    key = Q + 'required_arguments.py::RequiredArguments._validate_directive'
    params = ['self', 'path', 'schema', 'directive_node']
    self_class = 'RequiredArguments'

    def pre(self, A, st):
        return self.rule_pre(A) + [('directive', directive_node_wf(A['directive_node'])), ('schema', z3.And(schema_wf(A['schema']), _dir_def_req_wf(A['schema'], A['directive_node'])))]

    def broken(self, A):
        dd = dir_def(A['schema'], A['directive_node'])
        return z3.And(dd != V.Missing, _req_broken(dd, A['directive_node']))


class RequiredArgumentsField(Rule):
    key = Q + 'required_arguments.py::RequiredArguments._validate_field'
    params = ['self', 'path', 'schema', 'field', 'parent_type_name']
    self_class = 'RequiredArguments'
    callee_models = _FF_MODEL

    def _sf(self, A):
        return FieldOf(A['parent_type_name'], name_of(A['field']), A['schema'])

    def pre(self, A, st):
        f = A['field']
        return self.rule_pre(A) + [('field', z3.And(exact(f, 'FieldNode'), V.oref(f) >= 0, named(f), has_args(f))), ('schema', schema_wf(A['schema'])),
                                   ('schema_field', _field_def_req_wf(self._sf(A)))]

    def broken(self, A):
        sf = self._sf(A)
        return z3.And(sf != V.None_, _req_broken(sf, A['field']))


class RequiredArgumentsValidate(Rule):
    """5.4.2.1 dispatch: a directive node is checked against its directive definition, any other node against its field definition"""
    key = Q + 'required_arguments.py::RequiredArguments.validate'
    params = ['self', 'path', 'schema', 'node', 'parent_type_name']
    self_class = 'RequiredArguments'

    def pre(self, A, st):
        n, s = A['node'], A['schema']
        sf = FieldOf(A['parent_type_name'], name_of(n), s)
        return self.rule_pre(A) + [('schema', schema_wf(s)),
                                   ('node', z3.Or(z3.And(directive_node_wf(n), _dir_def_req_wf(s, n)),
                                                  z3.And(exact(n, 'FieldNode'), V.oref(n) >= 0, named(n), has_args(n), _field_def_req_wf(sf))))]

    def broken(self, A):
        n, s = A['node'], A['schema']
        dd = dir_def(s, n)
        sf = FieldOf(A['parent_type_name'], name_of(n), s)
        return z3.If(exact(n, 'DirectiveNode'), z3.And(dd != V.Missing, _req_broken(dd, n)), z3.And(sf != V.None_, _req_broken(sf, n)))


class ArgumentNamesValidate(Rule):
    """5.4.1 dispatch"""
    key = Q + 'argument_names.py::ArgumentNames.validate'
    params = ['self', 'node', 'path', 'schema', 'parent_type_name']
    self_class = 'ArgumentNames'

    def pre(self, A, st):
        n, s = A['node'], A['schema']
        sf = FieldOf(A['parent_type_name'], name_of(n), s)
        return self.rule_pre(A) + [('schema', schema_wf(s)),
                                   ('node', z3.Or(z3.And(directive_node_wf(n), dir_defs_wf(s, n)),
                                                  z3.And(exact(n, 'FieldNode'), V.oref(n) >= 0, named(n), has_args(n), schema_field_wf(sf))))]

    def broken(self, A):
        n, s = A['node'], A['schema']
        dd = dir_def(s, n)
        sf = FieldOf(A['parent_type_name'], name_of(n), s)
        args = V.items(attr0(n, 'arguments'))
        return z3.If(exact(n, 'DirectiveNode'), z3.And(dd != V.Missing, z3.Not(ArgDeclared(args, V.ditems(attr0(dd, 'arguments'))))),
                     z3.And(sf != V.None_, z3.Not(ArgDeclared(args, V.ditems(attr0(sf, 'arguments'))))))


CONTRACTS += [RequiredArgumentsDirective(), RequiredArgumentsField(), RequiredArgumentsValidate(), ArgumentNamesValidate()]


# ---- 5.8.1 variable uniqueness: the variables of the definitions (a mapped list) carry pairwise different names
from pyvc.values import MapList        # noqa: E402

VarsOf = MapList('variable_of_definition', lambda d: attr0(d, 'variable'))
AllVarDefs = ForallList('variable_definition_declaring_a_variable', lambda d: z3.And(exact(d, 'VariableDefinitionNode'), V.oref(d) >= 0, exact(attr0(d, 'variable'), 'VariableNode'), V.oref(attr0(d, 'variable')) >= 0,
                                                                     named(attr0(d, 'variable'))))


class VariableUniqueness(Rule):
    """5.8.1: no two variable definitions of an operation declare the same variable name"""
    key = Q + 'variable_uniqueness.py::VariableUniqueness.validate'
    params = ['self', 'path', 'variable_definitions']
    self_class = 'VariableUniqueness'
    comp_maps = {0: (VarsOf, lambda en: [])}
    comp_all = {0: [(AllNameable, []), (AllAstNodes, []), (AllHaveNames, [])]}

    def _xs(self, A):
        return VarsOf(V.items(A['variable_definitions']))

    def pre(self, A, st):
        ds = A['variable_definitions']
        return self.rule_pre(A) + [('definitions', z3.And(V.is_List(ds), AllVarDefs(V.items(ds))))]

    def _inv(self, en, st, k, st0):
        xs = self._xs(self.A)
        errors = V.items(en.read(st.env['errors'], st))
        tested = V.items(en.read(st.env['already_tested'], st))
        return {'errors_iff_a_duplicated_name_so_far': VL.is_nil(errors) == NameIsUnique(take(xs, k), xs), 'tested_names_were_reported': VL.is_nil(tested) == VL.is_nil(errors)}

    @property
    def loops(self):
        return {0: LoopContract(self._inv)}

    def broken(self, A):
        xs = self._xs(A)
        return z3.Not(NameIsUnique(xs, xs))


CONTRACTS.append(VariableUniqueness())


# ---- 5.6.1 values of correct type, leaf positions: a literal at a NAMED (unwrapped) input type
EnumNamesOf = MapList('enum_value_name', lambda ev: attr0(ev, 'value'))
AllEnumDefValues = ForallList('enum_value_definition', lambda ev: z3.And(exact(ev, 'GraphQLEnumValue'), V.oref(ev) >= 0, V.is_Str(attr0(ev, 'value'))))
ScalarLiteralOk = z3.Function('ScalarAcceptsLiteral', V, V, BoolS)        # parse_literal(node) is not UNDEFINED (builtin scalars: C10; custom ones: user code)
InputObjectLiteralOk = z3.Function('InputObjectLiteralOk', V, V, BoolS)    # _validate_input_object reports nothing for (type, node): its own subject
VALUE_NODES_WITH_VALUE = [c for c in T.subclasses('ValueNode') if T.resolve_attr(c, 'value') is not None and c in CONCRETE_NODES]


class ValuesOfCorrectTypeLeaf(Contract):
    """ValuesOfCorrectType._validate at a leaf position (declared type is a named type, the value is neither a variable nor null): a scalar accepts
    what its parse_literal accepts; an ENUM accepts only an enum literal naming one of its values; an input object is checked field by field"""
    key = Q + 'values_of_correct_type.py::ValuesOfCorrectType._validate'
    property_ids = ('C07', 'C06')
    params = ['self', 'r_argument_schema_type', 'c_argument_schema_type', 'arg', 'path', 'errors', 'schema', 'value_node', 'input_field']
    self_class = 'ValuesOfCorrectType'
    mutable = {'errors': 'list'}
    comp_maps = {0: (EnumNamesOf, lambda en: [])}

    def args(self, en, names):
        self.A = super().args(en, names)
        return self.A

    def pre(self, A, st):
        t, n, arg = A['r_argument_schema_type'], A['value_node'], A['arg']
        return [('rule_object', z3.And(V.is_Obj(A['self']), V.oref(A['self']) >= 0)), ('path', path_ok(A['path'])),
                ('leaf_position', z3.And(A['c_argument_schema_type'] == t, z3.Or(exact(t, 'GraphQLScalarType'), exact(t, 'GraphQLEnumType'), exact(t, 'GraphQLInputObjectType')),
                                         V.oref(t) >= 0, V.is_Str(attr0(t, 'name')))),
                ('enum_values', z3.Implies(exact(t, 'GraphQLEnumType'), z3.And(V.is_List(attr0(t, 'values')), AllEnumDefValues(V.items(attr0(t, 'values')))))),
                ('a_literal', z3.And(inst(n, 'ValueNode'), ast_node(n), z3.Not(exact(n, 'VariableNode')), z3.Not(exact(n, 'NullValueNode')))),
                ('argument', z3.And(exact(arg, 'ArgumentNode'), V.oref(arg) >= 0, named(arg))),
                ('input_field', z3.Or(A['input_field'] == V.None_, z3.And(exact(A['input_field'], 'ObjectFieldNode'), V.oref(A['input_field']) >= 0, named(A['input_field'])))),
                ('errors', V.is_List(st.heap[A['errors'].loc]))]

    def getattr_hook(self, en, st, v, attr):
        if attr == 'parse_literal' and z3.eq(v, self.A['r_argument_schema_type']):
            def parse(en, s, a, kw, t=v):
                p = fresh('parsed')
                return [(s.assume(p != V.Undef), z3.If(ScalarLiteralOk(t, en.read(a[0], s)), p, V.Undef))]
            return [(st, PyFunc('parse_literal', parse))]
        if attr == '_validate_input_object' and z3.eq(v, self.A['self']):
            def vio(en, s, a, kw):
                errs = kw['errors']
                cur = en.read(errs, s)
                t, node = en.read(kw['schema_argument_definition'], s), en.read(kw['object_node'], s)
                more = fresh('input_object_errors', VL)
                out = []
                ok = en.fork(s, InputObjectLiteralOk(t, node))
                if ok is not None:
                    out.append((ok, errs))
                bad = en.fork(s, z3.Not(InputObjectLiteralOk(t, node)))
                if bad is not None:
                    out.append((en.mutate(errs, bad.assume(z3.Not(VL.is_nil(more))), V.List(app(V.items(cur), more))), errs))
                return out
            return [(st, PyFunc('_validate_input_object', vio))]
        return None

    def accepted(self, A):
        t, n = A['r_argument_schema_type'], A['value_node']
        enum_ok = z3.And(exact(n, 'EnumValueNode'), mem(EnumNamesOf(V.items(attr0(t, 'values'))), attr0(n, 'value')))
        return z3.If(exact(t, 'GraphQLScalarType'), ScalarLiteralOk(t, n), z3.If(exact(t, 'GraphQLEnumType'), enum_ok, InputObjectLiteralOk(t, n)))

    def post(self, A, st0, out):
        t, n = A['r_argument_schema_type'], A['value_node']
        has_value = z3.Or(*[exact(n, c) for c in VALUE_NODES_WITH_VALUE])
        if out.kind == 'raise':
            # a list / object literal has no `.value`: building the message for a refused scalar / enum literal crashes and the request is refused as a
            # whole with a generic error (parse_and_validate_query, C18) -- still refused, never accepted
            return [('crashes_only_while_refusing_a_structured_literal', z3.And(z3.Not(has_value), z3.Not(self.accepted(A)), z3.Not(exact(t, 'GraphQLInputObjectType'))))]
        before = V.items(st0.heap[A['errors'].loc])
        after = V.items(out.st.heap[A['errors'].loc])
        return [('errors_only_grow', length(after) >= length(before)),
                ('reports_iff_the_literal_is_not_of_the_type', (length(after) == length(before)) == self.accepted(A))]


CONTRACTS.append(ValuesOfCorrectTypeLeaf())
