"""C18 (+ the abort clauses of C04/C06/C07, the serial clause of C09, subscriptions C14): contracts of the request entry points.
Engine.execute / _perform_query / parse_and_validate_query / build_response / func_wrapper / build_execution_context / execute."""
import z3
from pyvc.values import *
from pyvc.values import UNFOLD
from pyvc.contracts import Contract, Lemma
from pyvc.symexec import attr0, field0, fun_id, LoopContract, PyRef, PyFunc, PyTuple, Raise
from .common import *

E = 'tartiflette/engine.py::Engine.'


def response_wf(r, st=None):
    """a GraphQL response: a dict with `data`; `errors` only when non-empty"""
    er = lookup(V.ditems(r), S('errors'))
    return z3.And(V.is_Dict(r), lookup(V.ditems(r), S('data')) != V.Missing,
                  z3.Implies(er != V.Missing, z3.And(V.is_List(er), z3.Not(VL.is_nil(V.items(er))))))


def errors_only(r):
    return z3.And(response_wf(r), lookup(V.ditems(r), S('data')) == V.None_, lookup(V.ditems(r), S('errors')) != V.Missing)


class BuildResponse(Contract):
    """build_response: `errors` appears iff there is at least one error; one coerced entry per error (the coercer is awaited once per error)"""
    key = 'tartiflette/execution/response.py::build_response'
    property_ids = ('C18', 'C02')
    params = ['error_coercer', 'data', 'errors']

    def args(self, en, names):
        self.A = super().args(en, names)
        return self.A

    def pre(self, A, st):
        return [('errors', z3.Or(A['errors'] == V.None_, V.is_List(A['errors']))), ('data', z3.And(A['data'] != V.Missing)),
                ('coercer', V.is_Fun(A['error_coercer']))]

    def call_model(self, en, st, f, a, kw):
        if z3.eq(f, self.A['error_coercer']):
            n = st.ghost.get('coercer_calls', z3.IntVal(0))
            return [(st.put_ghost('coercer_calls', n + 1), Coerced(en.read(a[0], st)))]
        return None

    def ghost0(self, A):
        return {'coercer_calls': z3.IntVal(0)}

    def post(self, A, st0, out):
        if out.kind == 'raise':
            return never_raises(out)
        r, errs, data = out.value, A['errors'], A['data']
        has = py_truthy(errs)
        er = lookup(V.ditems(r), S('errors'))
        return [('is_response', z3.And(V.is_Dict(r), lookup(V.ditems(r), S('data')) == data)),
                ('errors_key_iff_errors', (er != V.Missing) == has),
                ('one_entry_per_error', z3.Implies(has, z3.And(V.is_List(er), length(V.items(er)) == length(V.items(errs))))),
                ('entries_are_coercer_results', z3.Implies(has, AllCoerced(V.items(er))))]

    @property
    def comp_all(self):
        return {0: [(AllCoerced, ())]}


Coerced = z3.Function('CoercedError', V, V)                # what the (user) error coercer returned for this error
is_coerced = z3.Function('is_coerced_entry', V, BoolS)
AllCoerced = ForallList('coerced_entry', lambda x: is_coerced(x))


def _coerced_lemma(e, n):
    if n == 'CoercedError':
        return [is_coerced(e)]
    return []


LEMMA_HOOKS.append(_coerced_lemma)


class FuncWrapper(Contract):
    """error_coercer_factory.<locals>.func_wrapper: awaits the user coercer exactly once with (exception, exception.coerce_value())"""
    key = 'tartiflette/utils/errors.py::error_coercer_factory.<locals>.func_wrapper'
    property_ids = ('C18',)
    params = ['exception']

    def args(self, en, names):
        self.A = super().args(en, names)
        self.ret = fresh('user_coerced')
        return self.A

    def pre(self, A, st):
        return [('exception', inst(A['exception'], 'TartifletteError'))]

    def ghost0(self, A):
        return {'calls': z3.IntVal(0), 'arg0': V.None_, 'arg1': V.None_}

    def extra_env(self, en, A):
        def error_coercer(en, st, a, kw):
            st = st.put_ghost('calls', st.ghost['calls'] + 1).put_ghost('arg0', en.read(a[0], st)).put_ghost('arg1', en.read(a[1], st))
            return [(st, self.ret)]
        return {'error_coercer': PyFunc('error_coercer', error_coercer)}

    def getattr_hook(self, en, st, v, attr):
        if z3.eq(v, self.A['exception']) and attr == 'coerce_value':
            # the exception's own coerce_value (CoerceValueContract); abstracted to its value here
            return [(st, PyFunc('coerce_value', lambda en, s, a, kw: [(s, CoerceValue(self.A['exception']))]))]
        return None

    def post(self, A, st0, out):
        g = out.st.ghost
        if out.kind == 'raise':
            return never_raises(out)
        return [('awaited_exactly_once', g['calls'] == 1), ('with_the_exception', g['arg0'] == A['exception']),
                ('with_its_coerced_value', g['arg1'] == CoerceValue(A['exception'])), ('its_value_is_the_entry', out.value == self.ret)]

    inline = ()


CoerceValue = z3.Function('coerce_value_of', V, V)


class CoerceValueContract(Contract):
    """TartifletteError.coerce_value: message, path (list or null), locations (list of {line, column}), extensions only when set"""
    key = 'tartiflette/types/exceptions/tartiflette.py::TartifletteError.coerce_value'
    property_ids = ('C18', 'C02')
    params = ['self', 'path', 'locations']
    self_class = 'TartifletteError'

    def args(self, en, names):
        self.A = super().args(en, names)
        return self.A

    def pre(self, A, st):
        s = A['self']
        return [('self', z3.And(z3.Or(V.is_Str(attr0(s, 'message'))), z3.Or(attr0(s, 'user_message') == V.None_, V.is_Str(attr0(s, 'user_message'))),
                                V.is_List(attr0(s, 'locations')), V.is_Dict(attr0(s, 'extensions')),
                                z3.Or(attr0(s, 'path') == V.None_, V.is_List(attr0(s, 'path'))))),
                ('path', z3.Or(A['path'] == V.None_, V.is_List(A['path']))), ('locations', z3.Or(A['locations'] == V.None_, V.is_List(A['locations'])))]

    def elem_preds(self, A):
        loc = lambda x: z3.And(exact(x, 'Location'), V.oref(x) >= 0)
        return [(V.items(attr0(A['self'], 'locations')), loc), (V.items(A['locations']), loc, V.is_List(A['locations']))]

    def _inv(self, en, st, k, st0):
        return {'locations_list': V.is_List(en.read(st.env['computed_locations'], st))}

    @property
    def loops(self):
        return {0: LoopContract(self._inv)}

    def post(self, A, st0, out):
        if out.kind == 'raise':
            return never_raises(out)
        r, s = out.value, A['self']
        items = V.ditems(r)
        um = attr0(s, 'user_message')
        return [('is_dict', V.is_Dict(r)),
                ('message', lookup(items, S('message')) == z3.If(py_truthy_str(um), um, attr0(s, 'message'))),
                ('path', lookup(items, S('path')) == z3.If(py_truthy(A['path']), A['path'], attr0(s, 'path'))),
                ('locations_is_list', V.is_List(lookup(items, S('locations')))),
                ('extensions_only_when_set', (lookup(items, S('extensions')) != V.Missing) == py_truthy(attr0(s, 'extensions')))]


def py_truthy_str(v):
    return z3.And(v != V.None_, z3.Not(z3.And(V.is_Str(v), str_empty(V.s(v)))))


class LocationCollect(Contract):
    key = 'tartiflette/language/ast/location.py::Location.collect_value'
    property_ids = ('C18', 'C02')
    params = ['self']
    self_class = 'Location'

    def post(self, A, st0, out):
        if out.kind == 'raise':
            return never_raises(out)
        return [('line_and_column', out.value == V.Dict(mklist(V.Pair(S('line'), attr0(A['self'], 'line')), V.Pair(S('column'), attr0(A['self'], 'column')))))]


# ---- parse_and_validate_query: any failure of the parser / builder / validators becomes (None, non-empty errors)
class ParseAndValidate(Contract):
    key = 'tartiflette/execution/collect.py::parse_and_validate_query'
    property_ids = ('C18', 'C06', 'C07', 'C16')
    params = ['query', 'schema']

    def args(self, en, names):
        self.A = super().args(en, names)
        self.doc = V.Obj(T.cid['DocumentNode'], z3.Int('doc_ref'))
        return self.A

    def pre(self, A, st):
        d = self.doc
        return [('doc', z3.And(V.oref(d) >= 0, exact(attr0(d, 'validators'), 'Validators'), V.oref(attr0(d, 'validators')) >= 0,
                               V.is_List(attr0(attr0(d, 'validators'), 'errors'))))]

    def extra_env(self, en, A):
        def parse_to_document(en, st, a, kw):
            # the absent C parser + the AST builder: a document with its validators, or any exception (GraphQLSyntaxError included)
            e = V.Obj(fresh('ecls', IntS), fresh('eref', IntS))
            outs = [(st.put_ghost('parsed', z3.BoolVal(True)), self.doc)]
            q = en.fork(st, z3.And(inst(e, 'Exception'), V.oref(e) >= 0))
            if q is not None:
                outs.append((q.put_ghost('parsed', z3.BoolVal(False)), Raise(e)))
            return outs
        return {'parse_to_document': PyFunc('parse_to_document', parse_to_document)}

    def ghost0(self, A):
        return {'parsed': z3.BoolVal(False)}

    def post(self, A, st0, out):
        if out.kind == 'raise':
            return never_raises(out)
        r = out.value
        d, errs = nth(V.titems(r), 0), nth(V.titems(r), 1)
        verrs = attr0(attr0(self.doc, 'validators'), 'errors')
        ok = z3.And(out.st.ghost['parsed'], VL.is_nil(V.items(verrs)))
        return [('pair', z3.And(V.is_Tuple(r), length(V.titems(r)) == 2)),
                ('document_iff_no_error', z3.If(ok, z3.And(d == self.doc, errs == V.None_),
                                                z3.And(d == V.None_, V.is_List(errs), z3.Not(VL.is_nil(V.items(errs)))))),
                ('validation_errors_are_reported', z3.Implies(z3.And(out.st.ghost['parsed'], z3.Not(VL.is_nil(V.items(verrs)))), errs == verrs))]


class ToGraphqlError(Contract):
    key = 'tartiflette/utils/errors.py::to_graphql_error'
    property_ids = ('C18',)
    params = ['raw_exception', 'message']

    def pre(self, A, st):
        return [('exception', inst(A['raw_exception'], 'Exception'))]

    def post(self, A, st0, out):
        if out.kind == 'raise':
            return never_raises(out)
        return [('is_library_error', inst(out.value, 'TartifletteError'))]


# ---- Engine.execute / _perform_query
def engine_wf(e):
    return z3.And(exact(e, 'Engine'), V.oref(e) >= 0, exact(attr0(e, '_schema'), 'GraphQLSchema'), V.oref(attr0(e, '_schema')) >= 0,
                  V.is_Str(attr0(attr0(e, '_schema'), 'query_operation_name')))


class EngineExecute(Contract):
    """Engine.execute: returns -- never raises -- a well-formed response, whatever the query (str or bytes), operation name, variables, context"""
    key = E + 'execute'
    property_ids = ('C18', 'C03', 'C02')
    params = ['self', 'query', 'operation_name', 'context', 'variables', 'initial_value']
    self_class = 'Engine'

    def args(self, en, names):
        self.A = super().args(en, names)
        return self.A

    def pre(self, A, st):
        # query: any text or bytes (bytes are opaque non-str values)
        return [('engine', engine_wf(A['self'])), ('query', z3.Or(V.is_Str(A['query']), z3.And(V.is_Other(A['query']), V.oid(A['query']) >= 0)))]

    def ghost0(self, A):
        return {'parsed_with': V.None_, 'executor_called': z3.BoolVal(False)}

    def getattr_hook(self, en, st, v, attr):
        if not z3.eq(v, self.A['self']):
            return None
        if attr == '_cached_parse_and_validate_query':
            def parse(en, st, a, kw):
                # behaviour of parse_and_validate_query (ParseAndValidate), possibly behind a memoiser: total, returns the pair
                d, errs = fresh('document'), fresh('parse_errors')
                ok = fresh('parse_ok', BoolS)
                st = st.assume(z3.If(ok, z3.And(exact(d, 'DocumentNode'), errs == V.None_), z3.And(d == V.None_, V.is_List(errs), z3.Not(VL.is_nil(V.items(errs))))))
                return [(st.put_ghost('parsed_with', en.read(a[0], st)), PyTuple([d, errs]))]
            return [(st, PyFunc('_cached_parse_and_validate_query', parse))]
        if attr == '_query_executor':
            def executor(en, st, a, kw):
                r = fresh('response')
                e = V.Obj(fresh('ecls', IntS), fresh('eref', IntS))
                st = st.put_ghost('executor_called', z3.BoolVal(True))
                return en.branches(st, [(response_wf(r), r), (z3.And(inst(e, 'Exception'), V.oref(e) >= 0), Raise(e))])
            return [(st, PyFunc('_query_executor', executor))]
        if attr == '_build_response':
            def build(en, st, a, kw):
                r = fresh('error_response')
                errs = en.read(kw.get('errors', V.None_), st)
                return [(st.assume(z3.If(py_truthy(errs), errors_only(r), z3.And(response_wf(r), lookup(V.ditems(r), S('errors')) == V.Missing))), r)]
            return [(st, PyFunc('_build_response', build))]
        return None

    def post(self, A, st0, out):
        if out.kind == 'raise':
            return never_raises(out)
        return [('well_formed_response', response_wf(out.value))]


class PerformQuery(Contract):
    """_perform_query: a request with parsing / validation errors is answered from the errors alone -- execute is not reached"""
    key = E + '_perform_query'
    property_ids = ('C18', 'C06', 'C07')
    params = ['self', 'schema', 'document', 'request_parsing_errors', 'operation_name', 'context', 'variables', 'initial_value']
    self_class = 'Engine'

    def args(self, en, names):
        self.A = super().args(en, names)
        return self.A

    def pre(self, A, st):
        return [('errors', z3.Or(A['request_parsing_errors'] == V.None_, V.is_List(A['request_parsing_errors'])))]

    def ghost0(self, A):
        return {'executed': z3.BoolVal(False), 'built_from': V.Missing}

    def getattr_hook(self, en, st, v, attr):
        if z3.eq(v, self.A['self']) and attr == '_build_response':
            def build(en, st, a, kw):
                return [(st.put_ghost('built_from', en.read(kw.get('errors', V.None_), st)), fresh('error_response'))]
            return [(st, PyFunc('_build_response', build))]
        return None

    def extra_env(self, en, A):
        def execute(en, st, a, kw):
            return [(st.put_ghost('executed', z3.BoolVal(True)), fresh('response'))]
        return {'execute': PyFunc('execute', execute)}

    def post(self, A, st0, out):
        if out.kind == 'raise':
            return never_raises(out)
        errs, g = A['request_parsing_errors'], out.st.ghost
        return [('nothing_runs_on_errors', z3.Implies(py_truthy(errs), z3.And(z3.Not(g['executed']), g['built_from'] == errs))),
                ('valid_requests_run', z3.Implies(z3.Not(py_truthy(errs)), g['executed']))]


# ---- operation selection (GraphQL 6.1 GetOperation) and the abort clause of build_execution_context
def is_op(d):
    return exact(d, 'OperationDefinitionNode')


def op_name(d):
    nm = attr0(d, 'name')
    return z3.If(nm == V.None_, V.None_, attr0(nm, 'value'))


Ops = z3.RecFunction('OperationsUpTo', VL, IntS, VL)         # operations by name (None for the anonymous one), later definitions replace earlier ones
Frags = z3.RecFunction('FragmentsUpTo', VL, IntS, VL)
_defs = z3.Const('defs_', VL)
_k = z3.Int('dk_')
_ops_body = lambda defs, k: z3.If(k <= 0, VL.nil, z3.If(is_op(nth(defs, k - 1)), assoc_set(Ops(defs, k - 1), op_name(nth(defs, k - 1)), nth(defs, k - 1)), Ops(defs, k - 1)))
_frags_body = lambda defs, k: z3.If(k <= 0, VL.nil, z3.If(is_op(nth(defs, k - 1)), Frags(defs, k - 1), assoc_set(Frags(defs, k - 1), attr0(attr0(nth(defs, k - 1), 'name'), 'value'), nth(defs, k - 1))))
z3.RecAddDefinition(Ops, [_defs, _k], _ops_body(_defs, _k))
z3.RecAddDefinition(Frags, [_defs, _k], _frags_body(_defs, _k))
UNFOLD['OperationsUpTo'] = _ops_body
UNFOLD['FragmentsUpTo'] = _frags_body


def selected_operation(defs, name):
    """GetOperation: a given name selects the operation of that name; no name selects the only operation; anything else selects nothing"""
    ops = Ops(defs, length(defs))
    byname = lookup(ops, name)
    return z3.If(py_truthy_str(name), z3.If(byname == V.Missing, V.None_, byname),
                 z3.If(length(ops) == 1, V.snd(nth(ops, 0)), V.None_))


def definition_wf(d):
    return z3.And(z3.Or(exact(d, 'OperationDefinitionNode'), exact(d, 'FragmentDefinitionNode')), V.oref(d) >= 0,
                  z3.Or(z3.And(exact(d, 'OperationDefinitionNode'), attr0(d, 'name') == V.None_),
                        z3.And(exact(attr0(d, 'name'), 'NameNode'), V.oref(attr0(d, 'name')) >= 0, V.is_Str(attr0(attr0(d, 'name'), 'value')))))


AllDefinitions = ForallList('executable_definition', definition_wf)
AllOpEntries = ForallList('operation_entry', lambda p: z3.And(V.is_Pair(p), is_op(V.snd(p)), V.oref(V.snd(p)) >= 0))


class BuildExecutionContext(Contract):
    """build_execution_context: operation selection per GetOperation; any selection or variable-coercion failure aborts the request
    (context None, errors non-empty); otherwise the context carries the selected operation and exactly the coerced variable map"""
    key = 'tartiflette/execution/context.py::build_execution_context'
    property_ids = ('C18', 'C04')
    params = ['schema', 'document', 'root_value', 'context', 'raw_variable_values', 'operation_name']

    def args(self, en, names):
        self.A = super().args(en, names)
        self.vars_map, self.vars_errs = fresh('coerced_map', VL), fresh('variable_errors', VL)
        return self.A

    def defs(self, A=None):
        return V.items(attr0((A or self.A)['document'], 'definitions'))

    def pre(self, A, st):
        d = A['document']
        return [('document', z3.And(exact(d, 'DocumentNode'), V.oref(d) >= 0, V.is_List(attr0(d, 'definitions')), AllDefinitions(self.defs(A)))),
                ('operation_name', z3.Or(A['operation_name'] == V.None_, V.is_Str(A['operation_name']))),
                ('variables', z3.Or(A['raw_variable_values'] == V.None_, V.is_Dict(A['raw_variable_values'])))]

    def extra_env(self, en, A):
        def collect_defs(en, st, a, kw):
            return [(st.put_ghost('collected_for', en.read(a[1], st)), fresh('var_defs'))]

        def coerce_vars(en, st, a, kw):
            # CoerceVariables (C04): the coerced map and the list of errors, never raises
            return [(st.put_ghost('coerced_with', en.read(a[1], st)), PyTuple([V.Dict(self.vars_map), V.List(self.vars_errs)]))]
        return {'collect_executable_variable_definitions': PyFunc('collect_executable_variable_definitions', collect_defs),
                'coerce_variables': PyFunc('coerce_variables', coerce_vars)}

    def ghost0(self, A):
        return {'collected_for': V.Missing, 'coerced_with': V.Missing}

    def _inv(self, en, st, k, st0):
        ops = V.ditems(en.read(st.env['operations'], st))
        frs = V.ditems(en.read(st.env['fragments'], st))
        return {'operations': ops == Ops(self.defs(), k), 'fragments': frs == Frags(self.defs(), k), 'operations_hold_operations': AllOpEntries(ops)}

    @property
    def loops(self):
        return {0: LoopContract(self._inv)}

    def post(self, A, st0, out):
        if out.kind == 'raise':
            return never_raises(out)
        r = out.value
        ctx, errs = nth(V.titems(r), 0), nth(V.titems(r), 1)
        sel = selected_operation(self.defs(A), A['operation_name'])
        g = out.st.ghost
        var_failed = z3.Not(VL.is_nil(self.vars_errs))
        aborted = z3.Or(sel == V.None_, var_failed)
        return [('pair', z3.And(V.is_Tuple(r), length(V.titems(r)) == 2)),
                ('aborts_iff_selection_or_coercion_fails', (ctx == V.None_) == aborted),
                ('abort_reports_errors', z3.Implies(aborted, z3.And(V.is_List(errs), z3.Not(VL.is_nil(V.items(errs)))))),
                ('no_errors_otherwise', z3.Implies(z3.Not(aborted), errs == V.None_)),
                ('variables_coerced_for_the_selected_operation', z3.Implies(sel != V.None_, g['collected_for'] == sel)),
                ('context_is_the_request', z3.Implies(z3.Not(aborted), z3.And(exact(ctx, 'ExecutionContext'), fld(out.st, 'operation', ctx) == sel,
                                                                             fld(out.st, 'variable_values', ctx) == V.Dict(self.vars_map),
                                                                             fld(out.st, 'context', ctx) == A['context'], fld(out.st, 'root_value', ctx) == A['root_value'],
                                                                             fld(out.st, 'schema', ctx) == A['schema'], fld(out.st, 'errors', ctx) == V.List(VL.nil))))]


class ExecuteRequest(Contract):
    """execution/execute.py::execute: an aborted request is answered from its errors alone -- no operation is executed, hence no
    resolver, type resolver or field-level hook runs (C04, C18); otherwise data and the context's errors are handed to the response builder"""
    key = 'tartiflette/execution/execute.py::execute'
    property_ids = ('C18', 'C04', 'C02')
    params = ['schema', 'document', 'response_builder', 'root_value', 'context', 'variables', 'operation_name']

    def args(self, en, names):
        self.A = super().args(en, names)
        self.ctx, self.errs = fresh('built_ctx'), fresh('built_errors')
        self.data = fresh('data')
        return self.A

    def ghost0(self, A):
        return {'operation_executed': z3.BoolVal(False), 'builder_errors': V.Missing, 'builder_data': V.Missing}

    def pre(self, A, st):
        # BuildExecutionContext: (None, non-empty errors) or (context, None)
        return [('context_result', z3.Or(z3.And(self.ctx == V.None_, V.is_List(self.errs), z3.Not(VL.is_nil(V.items(self.errs)))),
                                         z3.And(exact(self.ctx, 'ExecutionContext'), V.oref(self.ctx) >= 0, self.errs == V.None_,
                                                V.is_List(attr0(self.ctx, 'errors')))))]

    def extra_env(self, en, A):
        def build_ctx(en, st, a, kw):
            return [(st, PyTuple([self.ctx, self.errs]))]

        def exec_op(en, st, a, kw):
            extra = fresh('field_errors', VL)
            st = en.setattr(self.ctx, 'errors', V.List(app(V.items(fld(st, 'errors', self.ctx)), extra)), st)
            return [(st.put_ghost('operation_executed', z3.BoolVal(True)), self.data)]
        return {'build_execution_context': PyFunc('build_execution_context', build_ctx), 'execute_operation': PyFunc('execute_operation', exec_op)}

    def call_model(self, en, st, f, a, kw):
        if z3.eq(f, self.A['response_builder']):
            st = st.put_ghost('builder_errors', en.read(kw.get('errors', V.None_), st)).put_ghost('builder_data', en.read(kw.get('data', V.None_), st))
            return [(st, fresh('response'))]
        return None

    def post(self, A, st0, out):
        if out.kind == 'raise':
            return never_raises(out)
        g = out.st.ghost
        aborted = self.ctx == V.None_
        return [('aborted_requests_run_nothing', z3.Implies(aborted, z3.And(z3.Not(g['operation_executed']), g['builder_errors'] == self.errs, g['builder_data'] == V.None_))),
                ('otherwise_data_and_recorded_errors', z3.Implies(z3.Not(aborted), z3.And(g['operation_executed'], g['builder_data'] == self.data,
                                                                                      g['builder_errors'] == fld(out.st, 'errors', self.ctx))))]


CONTRACTS = [BuildExecutionContext(), ExecuteRequest(), BuildResponse(), FuncWrapper(), CoerceValueContract(), LocationCollect(), ParseAndValidate(), ToGraphqlError(), EngineExecute(), PerformQuery()]
LEMMAS = []
