"""C12 -- an engine is never built from an SDL that breaks a checked schema rule: contracts of the schema validators
(errors non-empty <= rule broken), of the aggregator (_validate raises iff some rule reported) and of reduce_type."""
import z3
from pyvc.values import *
from pyvc.values import UNFOLD, ForallList, LEMMA_HOOKS
from pyvc.contracts import Contract, Lemma
from pyvc.symexec import attr0, field0, LoopContract, PyFunc, PyTuple, Raise, obj_eq
from pyvc.builtins import str_of
from .common import *

S_ = 'tartiflette/schema/schema.py::GraphQLSchema.'

# ---- reduce_type: strips every list / non-null wrapper
Reduce = z3.RecFunction('ReduceType', V, V)
_t = z3.Const('rt_', V)
_red = lambda t: z3.If(z3.Or(exact(t, 'GraphQLList'), exact(t, 'GraphQLNonNull')), Reduce(attr0(t, 'gql_type')), t)
z3.RecAddDefinition(Reduce, [_t], _red(_t))
UNFOLD['ReduceType'] = _red


class ReduceTypeContract(Contract):
    key = 'tartiflette/types/helpers/reduce_type.py::reduce_type'
    property_ids = ('C12', 'C11')
    params = ['gql_type']

    def _inv(self, en, st, k, st0):
        return {'same_innermost_type': Reduce(st.env['gql_type']) == Reduce(self.A['gql_type'])}

    def args(self, en, names):
        self.A = super().args(en, names)
        return self.A

    @property
    def loops(self):
        return {0: LoopContract(self._inv)}

    def post(self, A, st0, out):
        if out.kind == 'raise':
            return never_raises(out)
        return [('innermost_named_type', out.value == Reduce(A['gql_type']))]


# ---- named types: every field of every type that has fields (objects AND interfaces) names a defined type
FIELD_HOLDERS = [c for c in T.subclasses('GraphQLType') if T.resolve_attr(c, 'implemented_fields') is not None]


def has_fields(t):
    return z3.And(V.is_Obj(t), z3.Or(*[V.ocls(t) == T.cid[c] for c in FIELD_HOLDERS]))


def field_type_defined(schema, f):
    return lookup(V.ditems(attr0(schema, 'type_definitions')), str_of(Reduce(attr0(f, 'gql_type')))) != V.Missing


FieldsOk = z3.RecFunction('FieldTypesDefinedUpTo', V, VL, IntS, BoolS)      # schema, field dict items, j
TypesOk = z3.RecFunction('NamedTypesOkUpTo', V, VL, IntS, BoolS)            # schema, type dict items, k
_s = z3.Const('sch_', V)
_fl, _tl = z3.Consts('fl_ tl_', VL)
_j = z3.Int('j_')
_fields_ok = lambda s, fl, j: z3.If(j <= 0, True, z3.And(FieldsOk(s, fl, j - 1), field_type_defined(s, V.snd(nth(fl, j - 1)))))


def _type_ok(s, t):
    fl = V.ditems(attr0(t, 'implemented_fields'))
    return z3.Implies(has_fields(t), FieldsOk(s, fl, length(fl)))


_types_ok = lambda s, tl, k: z3.If(k <= 0, True, z3.And(TypesOk(s, tl, k - 1), _type_ok(s, V.snd(nth(tl, k - 1)))))
z3.RecAddDefinition(FieldsOk, [_s, _fl, _j], _fields_ok(_s, _fl, _j))
z3.RecAddDefinition(TypesOk, [_s, _tl, _j], _types_ok(_s, _tl, _j))
UNFOLD['FieldTypesDefinedUpTo'] = _fields_ok
UNFOLD['NamedTypesOkUpTo'] = _types_ok


def type_entry_wf(p):
    t = V.snd(p)
    return z3.And(V.is_Pair(p), V.is_Str(V.fst(p)), inst(t, 'GraphQLType'), V.oref(t) >= 0,
                  z3.Implies(has_fields(t), z3.And(V.is_Dict(attr0(t, 'implemented_fields')), AllFieldEntries(V.ditems(attr0(t, 'implemented_fields'))))))


def field_entry_wf(p):
    f = V.snd(p)
    return z3.And(V.is_Pair(p), V.is_Str(V.fst(p)), exact(f, 'GraphQLField'), V.oref(f) >= 0, V.is_Str(attr0(f, 'name')), gql_type_wf(attr0(f, 'gql_type')))


GqlTypeWf = z3.RecFunction('GqlTypeRefWf', V, BoolS)       # a type reference: a name, or a list / non-null wrapper around one
_g = z3.Const('g_', V)
_gwf = lambda g: z3.Or(V.is_Str(g), z3.And(z3.Or(exact(g, 'GraphQLList'), exact(g, 'GraphQLNonNull')), V.oref(g) >= 0, GqlTypeWf(attr0(g, 'gql_type'))))
z3.RecAddDefinition(GqlTypeWf, [_g], _gwf(_g))
UNFOLD['GqlTypeRefWf'] = _gwf


def gql_type_wf(g):
    return GqlTypeWf(g)


def _reduce_is_name(e, n):
    if n == 'ReduceType':
        return [z3.Implies(GqlTypeWf(e.arg(0)), V.is_Str(e))]
    return []


LEMMA_HOOKS.append(_reduce_is_name)
AllFieldEntries = ForallList('schema_field_entry', field_entry_wf)
AllTypeEntries = ForallList('schema_type_entry', type_entry_wf)


def schema_types_wf(s):
    return z3.And(exact(s, 'GraphQLSchema'), V.oref(s) >= 0, V.is_Dict(attr0(s, 'type_definitions')), AllTypeEntries(V.ditems(attr0(s, 'type_definitions'))))


class ValidateNamedTypes(Contract):
    """_validate_schema_named_types: reports at least one error whenever some object OR interface field refers to an undefined type"""
    key = S_ + '_validate_schema_named_types'
    property_ids = ('C12',)
    params = ['self']
    self_class = 'GraphQLSchema'
    timeout_ms = 20000

    def args(self, en, names):
        self.A = super().args(en, names)
        return self.A

    def pre(self, A, st):
        return [('schema', schema_types_wf(A['self']))]

    def tl(self):
        return V.ditems(attr0(self.A['self'], 'type_definitions'))

    def _outer(self, en, st, k, st0):
        errors = V.items(en.read(st.env['errors'], st))
        return {'errors_iff_undefined_type_so_far': VL.is_nil(errors) == TypesOk(self.A['self'], self.tl(), k)}

    def _inner(self, en, st, j, st0):
        errors = V.items(en.read(st.env['errors'], st))
        e0 = V.items(en.read(st0.env['errors'], st0))
        t = st.env['gql_type']
        fl = V.ditems(attr0(t, 'implemented_fields'))
        return {'errors_iff_undefined_field_type': VL.is_nil(errors) == z3.And(VL.is_nil(e0), FieldsOk(self.A['self'], fl, j))}

    @property
    def loops(self):
        return {0: LoopContract(self._outer), 1: LoopContract(self._inner)}

    def post(self, A, st0, out):
        if out.kind == 'raise':
            return never_raises(out)
        tl = V.ditems(attr0(A['self'], 'type_definitions'))
        return [('reports_iff_some_field_type_is_undefined', z3.And(V.is_List(out.value), VL.is_nil(V.items(out.value)) == TypesOk(A['self'], tl, length(tl))))]


# ---- interface conformance of one field type
IsPossibleOfIface = z3.Function('IfaceHasPossibleType', V, V, BoolS)        # (interface type object, type reference)


def type_eq(a, b):
    """Python == between two type references (names compare by text, wrapper objects through their __eq__)"""
    return z3.If(z3.And(V.is_Obj(a), V.is_Obj(b)), z3.Or(a == b, obj_eq(a, b)), a == b)


def Compatible(schema, ft, ift, fuel_fn):
    return fuel_fn(schema, ft, ift)


Compat = z3.RecFunction('FieldTypeHonoursInterface', V, V, V, BoolS)
_ft, _ift = z3.Consts('ft_ ift_', V)


def _compat(s, ft, ift):
    iface = lookup(V.ditems(attr0(s, 'type_definitions')), ift)
    return z3.Or(type_eq(ft, ift),
                 z3.And(exact(ft, 'GraphQLNonNull'), Compat(s, attr0(ft, 'gql_type'), ift)),
                 z3.And(z3.Not(exact(ft, 'GraphQLNonNull')), z3.Not(exact(ift, 'GraphQLNonNull')), z3.Not(exact(ift, 'GraphQLList')),
                        exact(iface, 'GraphQLInterfaceType'), IsPossibleOfIface(iface, ft)))


z3.RecAddDefinition(Compat, [_s, _ft, _ift], _compat(_s, _ft, _ift))
UNFOLD['FieldTypeHonoursInterface'] = _compat


class ValidateFieldTypeSameAsInterface(Contract):
    """a field honours its interface iff its type is the interface field's type, a non-null version of a compatible type, or -- for a
    plain named interface type -- one of that interface's possible types; list / non-null interface types admit nothing else"""
    key = S_ + '_validate_field_type_is_same_as_interface_type'
    property_ids = ('C12',)
    params = ['self', 'field_type', 'interface_field_type']
    self_class = 'GraphQLSchema'
    recursive = True

    def args(self, en, names):
        self.A = super().args(en, names)
        return self.A

    def pre(self, A, st):
        s = A['self']
        ift = A['interface_field_type']
        iface = lookup(V.ditems(attr0(s, 'type_definitions')), ift)
        return [('schema', z3.And(exact(s, 'GraphQLSchema'), V.oref(s) >= 0, V.is_Dict(attr0(s, 'type_definitions')))),
                ('types', z3.And(GqlTypeWf(A['field_type']), GqlTypeWf(ift))),
                # the interface field's named type is defined (checked by _validate_schema_named_types before this rule matters)
                ('interface_type_defined', z3.Implies(V.is_Str(ift), z3.And(iface != V.Missing, inst(iface, 'GraphQLType'), V.oref(iface) >= 0)))]

    def getattr_hook(self, en, st, v, attr):
        if attr == 'is_possible_type':
            return [(st, PyFunc('is_possible_type', lambda en, s, a, kw: [(s, V.Bool(IsPossibleOfIface(v, en.read(a[0], s))))]))]
        return None

    def post(self, A, st0, out):
        if out.kind == 'raise':
            return never_raises(out)
        return [('honours_iff_spec', out.value == V.Bool(Compat(A['self'], A['field_type'], A['interface_field_type'])))]


CONTRACTS = [ReduceTypeContract(), ValidateNamedTypes(), ValidateFieldTypeSameAsInterface()]
LEMMAS = []
