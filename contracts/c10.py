"""C10 -- built-in scalars obey their coercion laws.  Contracts are written from the property statement
(DESIGN section 4, C10); nothing here is derived from the bodies under proof."""
import z3
from pyvc.values import *
from pyvc.contracts import Contract, Lemma
from pyvc.symexec import attr0
from pyvc.classtable import table

T = table()
R31 = 2 ** 31
NODE_CLASSES = ['IntValueNode', 'FloatValueNode', 'StringValueNode', 'BooleanValueNode', 'EnumValueNode',
                'NullValueNode', 'VariableNode', 'ListValueNode', 'ObjectValueNode']


def cls(n):
    return T.cid[n]


def is_node(n, *names):
    return z3.And(V.is_Obj(n), z3.Or(*[V.ocls(n) == cls(x) for x in names]))


def nval(n):
    return attr0(n, 'value')


def nstr(n):
    return V.s(nval(n))


# ---- specification vocabulary (property statement)
def IsInteger(v):
    return z3.And(z3.Not(V.is_Bool(v)), z3.Or(V.is_Int(v), z3.And(V.is_Float(v), V.fk(v) == 0, V.fint(v))))


def inrange(n):
    return z3.And(n >= -R31, n <= R31 - 1)


def small(n):
    return z3.And(n < 2 ** 1024, n > -2 ** 1024)


def int_out_acc(v):
    sf = str2float(V.s(v))
    return z3.Or(V.is_Bool(v), z3.And(V.is_Int(v), inrange(V.i(v))), z3.And(finite(v), V.fint(v), inrange(V.fl(v))),
                 z3.And(V.is_Str(v), z3.Not(str_empty(V.s(v))), finite(sf), V.fint(sf), inrange(V.fl(sf))))


def int_out_rel(v, r):
    sf = str2float(V.s(v))
    val = z3.If(V.is_Str(v), V.fl(sf), num(v))
    return z3.And(z3.Or(V.is_Int(r), z3.And(finite(r), V.fint(r))), z3.Not(V.is_Bool(r)), inrange(num(r)), num(r) == val)


def int_in_acc(v):
    return z3.And(IsInteger(v), inrange(num(v)))


def int_in_rel(v, r):
    return z3.And(V.is_Int(r), V.i(r) == num(v))


def int_lit(n, r):
    k = str2int(nstr(n))
    return z3.If(z3.And(is_node(n, 'IntValueNode'), V.is_Int(k), inrange(V.i(k))), r == k, r == V.Undef)


def float_denotes(v, r):
    sf = str2float(V.s(v))
    return z3.And(finite(r), z3.If(V.is_Float(v), r == v, z3.If(V.is_Str(v), r == sf,
                  z3.And(V.fint(r), z3.Implies(z3.And(num(v) <= 2 ** 53, num(v) >= -2 ** 53), V.fl(r) == num(v))))))


def float_out_acc(v):
    return z3.Or(V.is_Bool(v), z3.And(V.is_Int(v), small(V.i(v))), finite(v),
                 z3.And(V.is_Str(v), z3.Not(str_empty(V.s(v))), finite(str2float(V.s(v)))))


def float_in_acc(v):
    return z3.Or(z3.And(V.is_Int(v), small(V.i(v))), finite(v))


def float_lit(n, r):
    f = str2float(nstr(n))
    return z3.If(z3.And(is_node(n, 'IntValueNode', 'FloatValueNode'), finite(f)), r == f, r == V.Undef)


def str_out_rel(v, r):
    return z3.And(V.is_Str(r), z3.Implies(V.is_Str(v), r == v),
                  z3.Implies(V.is_Bool(v), r == z3.If(V.b(v), S('true'), S('false'))))


def str_lit(n, r):
    return z3.If(is_node(n, 'StringValueNode'), r == nval(n), r == V.Undef)


def bool_out_acc(v):
    return z3.Or(V.is_Bool(v), z3.And(V.is_Int(v), small(V.i(v))), finite(v))


def bool_out_rel(v, r):
    nz = z3.If(V.is_Float(v), z3.Not(z3.And(V.fint(v), V.fl(v) == 0)), num(v) != 0)
    return z3.And(V.is_Bool(r), z3.If(V.is_Bool(v), r == v, V.b(r) == nz))


def bool_lit(n, r):
    return z3.If(is_node(n, 'BooleanValueNode'), r == nval(n), r == V.Undef)


def id_acc(v):
    return z3.Or(V.is_Str(v), IsInteger(v))


def id_rel(v, r):
    return z3.If(V.is_Str(v), r == v, r == V.Str(int2str(num(v))))


def id_lit(n, r):
    return z3.If(is_node(n, 'StringValueNode', 'IntValueNode'), r == nval(n), r == V.Undef)


# ---- universes (is_valid() preconditions)
def wf(v):
    return z3.Implies(V.is_Float(v), wf_float(v))


def value_universe(v):
    """resolver / JSON leaf values: None, bool, int, float, str, opaque objects (no numeric dunder protocol)"""
    return z3.And(wf(v), z3.Or(v == V.None_, V.is_Bool(v), V.is_Int(v), V.is_Float(v), V.is_Str(v), z3.And(V.is_Other(v), V.oid(v) >= 0)))


def literal_universe(n):
    """value nodes as libgraphqlparser + the JSON transformer build them: IntValue/FloatValue carry the lexeme as str"""
    v = nval(n)
    return z3.And(is_node(n, *NODE_CLASSES), V.oref(n) >= 0,
                  z3.Implies(is_node(n, 'IntValueNode'), z3.And(V.is_Str(v), lexical_int(V.s(v)), z3.Not(str_empty(V.s(v))))),
                  z3.Implies(is_node(n, 'FloatValueNode'), z3.And(V.is_Str(v), lexical_float(V.s(v)), z3.Not(str_empty(V.s(v))))),
                  z3.Implies(is_node(n, 'StringValueNode', 'EnumValueNode'), V.is_Str(v)),
                  z3.Implies(is_node(n, 'BooleanValueNode'), V.is_Bool(v)))


class Coercion(Contract):
    """normal return iff accepted, result related to the input; otherwise TypeError and only TypeError"""
    property_ids = ('C10', 'C03')

    def __init__(self, key, cls_name, acc, rel):
        super().__init__(key)
        self.self_class, self.acc, self.rel = cls_name, acc, rel
        self.params = ['self', 'value']

    def pre(self, A, st):
        return [('universe', value_universe(A['value']))]

    def post(self, A, st0, out):
        v = A['value']
        if out.kind == 'raise':
            return [('rejects_only_unacceptable', z3.Not(self.acc(v))), ('raises_TypeError', V.ocls(out.value) == cls('TypeError'))]
        return [('accepts_only_acceptable', self.acc(v)), ('denotes_same_value', self.rel(v, out.value))]


class Literal(Contract):
    property_ids = ('C10',)

    def __init__(self, key, cls_name, lit):
        super().__init__(key)
        self.self_class, self.lit = cls_name, lit
        self.params = ['self', 'ast']

    def pre(self, A, st):
        return [('universe', literal_universe(A['ast']))]

    def post(self, A, st0, out):
        if out.kind == 'raise':
            return [('never_raises', z3.BoolVal(False))]
        return [('literal_law', self.lit(A['ast'], out.value))]


class IsIntegerContract(Contract):
    key = 'tartiflette/utils/values.py::is_integer'
    property_ids = ('C10',)
    params = ['value']

    def pre(self, A, st):
        return [('universe', value_universe(A['value']))]

    def post(self, A, st0, out):
        if out.kind == 'raise':
            return [('never_raises', z3.BoolVal(False))]
        return [('is_integer', out.value == V.Bool(IsInteger(A['value'])))]


class IsInvalidValue(Contract):
    key = 'tartiflette/utils/values.py::is_invalid_value'
    property_ids = ('C10', 'C04', 'C05')
    params = ['value']

    def post(self, A, st0, out):
        if out.kind == 'raise':
            return [('never_raises', z3.BoolVal(False))]
        return [('is_undefined', out.value == V.Bool(A['value'] == V.Undef))]


B = 'tartiflette/scalar/builtins/'
CONTRACTS = [
    IsIntegerContract(), IsInvalidValue(),
    Coercion(B + 'int.py::ScalarInt.coerce_output', 'ScalarInt', int_out_acc, int_out_rel),
    Coercion(B + 'int.py::ScalarInt.coerce_input', 'ScalarInt', int_in_acc, int_in_rel),
    Literal(B + 'int.py::ScalarInt.parse_literal', 'ScalarInt', int_lit),
    Coercion(B + 'float.py::ScalarFloat.coerce_output', 'ScalarFloat', float_out_acc, float_denotes),
    Coercion(B + 'float.py::ScalarFloat.coerce_input', 'ScalarFloat', float_in_acc, float_denotes),
    Literal(B + 'float.py::ScalarFloat.parse_literal', 'ScalarFloat', float_lit),
    Coercion(B + 'string.py::ScalarString.coerce_output', 'ScalarString', lambda v: z3.BoolVal(True), str_out_rel),
    Coercion(B + 'string.py::ScalarString.coerce_input', 'ScalarString', lambda v: V.is_Str(v), lambda v, r: r == v),
    Literal(B + 'string.py::ScalarString.parse_literal', 'ScalarString', str_lit),
    Coercion(B + 'boolean.py::ScalarBoolean.coerce_output', 'ScalarBoolean', bool_out_acc, bool_out_rel),
    Coercion(B + 'boolean.py::ScalarBoolean.coerce_input', 'ScalarBoolean', lambda v: V.is_Bool(v), lambda v, r: r == v),
    Literal(B + 'boolean.py::ScalarBoolean.parse_literal', 'ScalarBoolean', bool_lit),
    Coercion(B + 'id.py::ScalarID.coerce_output', 'ScalarID', id_acc, id_rel),
    Coercion(B + 'id.py::ScalarID.coerce_input', 'ScalarID', id_acc, id_rel),
    Literal(B + 'id.py::ScalarID.parse_literal', 'ScalarID', id_lit),
]

# ---- lemmas over the contracts (no code involved)
v, r, r2 = z3.Consts('v r r2', V)
n_ = z3.Const('n_', V)


def same_number(a, b):
    return z3.And(num(a) == num(b), z3.Or(V.is_Int(a), V.fint(a)), z3.Or(V.is_Int(b), V.fint(b)))


LEMMAS = [
    Lemma('Int.idempotent', [value_universe(v), int_out_acc(v), int_out_rel(v, r), wf(r)],
          z3.And(int_in_acc(r), z3.Implies(int_in_rel(r, r2), z3.And(same_number(r, r2), int_out_acc(r2))))),
    Lemma('Float.idempotent', [value_universe(v), float_out_acc(v), float_denotes(v, r), wf(r)],
          z3.And(float_in_acc(r), z3.Implies(float_denotes(r, r2), r2 == r))),
    Lemma('String.idempotent', [value_universe(v), str_out_rel(v, r)], z3.And(V.is_Str(r), z3.Implies(r2 == r, str_out_rel(r2, r)))),
    Lemma('Boolean.idempotent', [value_universe(v), bool_out_acc(v), bool_out_rel(v, r)], z3.And(V.is_Bool(r), bool_out_acc(r), z3.Implies(bool_out_rel(r, r2), r2 == r))),
    Lemma('ID.idempotent', [value_universe(v), id_acc(v), id_rel(v, r)], z3.And(id_acc(r), z3.Implies(id_rel(r, r2), r2 == r))),
    # literal = variable for the natural kind: the literal text and the JSON value denote the same number / string
    Lemma('Int.literal=variable', [literal_universe(n_), is_node(n_, 'IntValueNode'), v == str2int(nstr(n_)), int_lit(n_, r)],
          z3.If(int_in_acc(v), z3.And(r != V.Undef, int_in_rel(v, r)), r == V.Undef)),
    Lemma('Float.literal=variable', [literal_universe(n_), is_node(n_, 'FloatValueNode'), v == str2float(nstr(n_)), float_lit(n_, r)],
          z3.If(float_in_acc(v), z3.And(r != V.Undef, float_denotes(v, r)), r == V.Undef)),
    Lemma('String.literal=variable', [literal_universe(n_), is_node(n_, 'StringValueNode'), v == nval(n_), str_lit(n_, r)], r == v),
    Lemma('Boolean.literal=variable', [literal_universe(n_), is_node(n_, 'BooleanValueNode'), v == nval(n_), bool_lit(n_, r)], r == v),
    Lemma('ID.literal=variable', [literal_universe(n_), is_node(n_, 'StringValueNode'), v == nval(n_), id_lit(n_, r)], z3.And(id_acc(v), id_rel(v, r))),
]

# witness classes of recorded findings (DESIGN section 6): formulas over the function's inputs
WITNESS_CLASSES = {
    # D1: the literal's text converts to a non-finite float (exponent beyond the double range / >308-digit integer)
    'D1': lambda A: z3.And(is_node(A['ast'], 'IntValueNode', 'FloatValueNode'), V.is_Float(str2float(nstr(A['ast']))), V.fk(str2float(nstr(A['ast']))) != 0),
}
