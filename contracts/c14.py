"""C14 -- subscriptions answer every source event once, in order; error requests yield one errors-only response without starting the source"""
import z3
from pyvc.values import *
from pyvc.values import UNFOLD
from pyvc.contracts import Contract, Lemma
from pyvc.symexec import attr0, field0, LoopContract, PyFunc, PyTuple, Raise, stream_events
from .common import *

E = 'tartiflette/engine.py::Engine.'
ExecResp = z3.Function('ExecuteAgainstEvent', V, V)      # the response of executing the subscription's selection with this event as root value
MapExec = z3.RecFunction('ResponsesUpTo', VL, IntS, VL)
_ev = z3.Const('ev_', VL)
_k = z3.Int('evk_')
_me = lambda ev, k: z3.If(k <= 0, VL.nil, snoc(MapExec(ev, k - 1), ExecResp(nth(ev, k - 1))))
z3.RecAddDefinition(MapExec, [_ev, _k], _me(_ev, _k))
UNFOLD['ResponsesUpTo'] = _me


class PerformSubscription(Contract):
    key = E + '_perform_subscription'
    property_ids = ('C14',)
    params = ['self', 'schema', 'document', 'request_parsing_errors', 'operation_name', 'context', 'variables', 'initial_value']
    self_class = 'Engine'

    def args(self, en, names):
        self.A = super().args(en, names)
        self.stream = fresh('source_event_stream')
        self.err_resp = fresh('errors_only_response')
        return self.A

    def pre(self, A, st):
        return [('engine', z3.And(V.oref(A['self']) >= 0)), ('errors', z3.Or(A['request_parsing_errors'] == V.None_, V.is_List(A['request_parsing_errors']))),
                ('stream', z3.Or(V.is_Dict(self.stream), z3.And(V.is_Other(self.stream), V.oid(self.stream) >= 0)))]

    def ghost0(self, A):
        return {'yielded': V.List(VL.nil), 'source_created': z3.BoolVal(False), 'bad_execute_call': z3.BoolVal(False), 'built_from': V.Missing}

    def getattr_hook(self, en, st, v, attr):
        if z3.eq(v, self.A['self']) and attr == '_build_response':
            def build(en, st, a, kw):
                return [(st.put_ghost('built_from', en.read(kw.get('errors', V.None_), st)), self.err_resp)]
            return [(st, PyFunc('_build_response', build, term=V.Fun(z3.IntVal(77), VL.nil)))]
        return None

    def extra_env(self, en, A):
        def create(en, st, a, kw):
            return [(st.put_ghost('source_created', z3.BoolVal(True)), self.stream)]

        def execute(en, st, a, kw):
            A = self.A
            ok = z3.BoolVal(len(a) == 7 and not kw)
            if len(a) == 7 and not kw:
                exp = [attr0(A['self'], '_schema'), A['document'], None, None, A['context'], A['variables'], A['operation_name']]
                ok = z3.And(*[en.read(x, st) == e for x, e in zip(a, exp) if e is not None])
            payload = en.read(a[3], st) if len(a) > 3 else V.None_
            return [(st.put_ghost('bad_execute_call', z3.Or(st.ghost['bad_execute_call'], z3.Not(ok))), ExecResp(payload))]
        return {'create_source_event_stream': PyFunc('create_source_event_stream', create), 'execute': PyFunc('execute', execute)}

    def _inv(self, en, st, k, st0):
        return {'one_response_per_event_in_order': st.ghost['yielded'] == V.List(MapExec(stream_events(self.stream), k)),
                'each_event_is_a_fresh_request': z3.Not(st.ghost['bad_execute_call'])}

    @property
    def loops(self):
        return {0: LoopContract(self._inv, modifies_ghost=('yielded', 'bad_execute_call'))}

    def post(self, A, st0, out):
        if out.kind == 'raise':
            return never_raises(out)
        g = out.st.ghost
        errs = py_truthy(A['request_parsing_errors'])
        ev = stream_events(self.stream)
        return [('error_requests_get_one_errors_only_response', z3.Implies(errs, z3.And(g['yielded'] == V.List(VL.cons(self.err_resp, VL.nil)), z3.Not(g['source_created']),
                                                                                 g['built_from'] == A['request_parsing_errors']))),
                ('refused_requests_yield_that_single_response', z3.Implies(z3.And(z3.Not(errs), V.is_Dict(self.stream)), g['yielded'] == V.List(VL.cons(self.stream, VL.nil)))),
                ('one_response_per_event_in_order', z3.Implies(z3.And(z3.Not(errs), z3.Not(V.is_Dict(self.stream))), g['yielded'] == V.List(MapExec(ev, length(ev))))),
                ('each_event_is_executed_as_a_fresh_request', z3.Not(g['bad_execute_call']))]


class CreateSourceEventStream(Contract):
    key = 'tartiflette/execution/execute.py::create_source_event_stream'
    property_ids = ('C14',)
    params = ['schema', 'document', 'response_builder', 'root_value', 'context', 'variables', 'operation_name']

    def args(self, en, names):
        self.A = super().args(en, names)
        self.ctx, self.errs = fresh('built_ctx'), fresh('built_errors')
        self.fd = V.Obj(T.cid['GraphQLField'], z3.Int('fd_ref'))
        self.fields = fresh('fields')
        self.coerced = fresh('coerced_arguments')
        return self.A

    def pre(self, A, st):
        op = attr0(self.ctx, 'operation')
        return [('context_result', z3.Or(z3.And(self.ctx == V.None_, V.is_List(self.errs), z3.Not(VL.is_nil(V.items(self.errs)))),
                                         z3.And(exact(self.ctx, 'ExecutionContext'), V.oref(self.ctx) >= 0, self.errs == V.None_,
                                                exact(op, 'OperationDefinitionNode'), V.oref(op) >= 0))),
                ('schema', z3.And(exact(A['schema'], 'GraphQLSchema'), V.oref(A['schema']) >= 0)),
                ('field_definition', z3.And(V.oref(self.fd) >= 0, V.is_Fun(attr0(self.fd, 'subscribe')), V.is_Str(attr0(self.fd, 'name')))),
                ('collected', z3.And(V.is_Dict(self.fields), z3.Not(VL.is_nil(V.ditems(self.fields))), V.is_Pair(nth(V.ditems(self.fields), 0)),
                                     V.is_List(V.snd(nth(V.ditems(self.fields), 0))), z3.Not(VL.is_nil(V.items(V.snd(nth(V.ditems(self.fields), 0))))),
                                     exact(nth(V.items(V.snd(nth(V.ditems(self.fields), 0))), 0), 'FieldNode'),
                                     exact(attr0(nth(V.items(V.snd(nth(V.ditems(self.fields), 0))), 0), 'name'), 'NameNode')))]

    def ghost0(self, A):
        return {'source_started': z3.BoolVal(False), 'args_from_variables': V.Missing, 'source_args': V.Missing, 'builder_errors': V.Missing}

    def extra_env(self, en, A):
        return {'build_execution_context': PyFunc('build_execution_context', lambda en, st, a, kw: [(st, PyTuple([self.ctx, self.errs]))]),
                'collect_fields': PyFunc('collect_fields', lambda en, st, a, kw: [(st, self.fields)]),
                'get_field_definition': PyFunc('get_field_definition', lambda en, st, a, kw: [(st, self.fd)]),
                'build_resolve_info': PyFunc('build_resolve_info', lambda en, st, a, kw: [(st, fresh('info'))]),
                'coerce_arguments': PyFunc('coerce_arguments', lambda en, st, a, kw: [(st.put_ghost('args_from_variables', en.read(a[2], st)), self.coerced)])}

    def getattr_hook(self, en, st, v, attr):
        if attr == 'get_operation_root_type':
            return [(st, PyFunc('get_operation_root_type', lambda en, s, a, kw: [(s, fresh('root_type'))]))]
        return None

    def call_model(self, en, st, f, a, kw):
        if z3.eq(f, self.A['response_builder']):
            return [(st.put_ghost('builder_errors', en.read(kw.get('errors', V.None_), st)), fresh('errors_only_response'))]
        if z3.eq(z3.simplify(f), z3.simplify(attr0(self.fd, 'subscribe'))):
            return [(st.put_ghost('source_started', z3.BoolVal(True)).put_ghost('source_args', en.read(a[1], st)), fresh('source_stream'))]
        return None

    def post(self, A, st0, out):
        g = out.st.ghost
        aborted = self.ctx == V.None_
        if out.kind == 'raise':
            return [('only_when_no_source_is_registered', z3.And(z3.Not(aborted), z3.Not(g['source_started'])))]
        return [('refused_requests_do_not_start_the_source', z3.Implies(aborted, z3.And(z3.Not(g['source_started']), g['builder_errors'] == self.errs))),
                ('source_gets_spec_coerced_arguments', z3.Implies(z3.Not(aborted), z3.And(g['source_started'], g['source_args'] == self.coerced,
                                                                                       g['args_from_variables'] == attr0(self.ctx, 'variable_values'))))]


CONTRACTS = [PerformSubscription(), CreateSourceEventStream()]
LEMMAS = []
