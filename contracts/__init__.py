"""Property -> contract modules. A module may serve several properties; a contract runs for the properties in its property_ids."""
PROPERTIES = {
    'C10': dict(modules=['contracts.c10'],
                assumptions=["IntValue/FloatValue nodes carry the lexeme as a str obeying the GraphQL lexical grammar (contract of the absent libgraphqlparser + JSON transformer)",
                             "float(str)/int(str) are uninterpreted partial functions shared by both sides of every law (str2float/str2int)",
                             "str() of a value of the universe never raises"],
                explanation="every coerce_output / coerce_input / parse_literal of the five specification scalars against the scalar laws; idempotence and literal=variable lemmas"),
    'C04': dict(modules=['contracts.c04'],
                assumptions=["custom scalar coerce_input and directive hooks are opaque user code (uninterpreted ScIn_*/Dir_*/EnumHook_*), shared by code summaries and the oracle",
                             "a directive hook chain never raises an *empty* MultipleException",
                             "asyncio.gather returns results positionally"],
                explanation="input coercers against the CoerceInput oracle (specs/inputs.py), relative to the behaviour each closure denotes"),
}
