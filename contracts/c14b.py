"""C14 (continued) -- Subscription.bake: which generator becomes the source of which subscription field."""
import z3
from pyvc.values import *
from pyvc.contracts import Contract, Lemma
from pyvc.symexec import attr0, field0, PyFunc, Raise
from .common import *
from .c01b import FieldByName, NoSuchField

RootOfName = z3.Function('TypeNamePartOf', V, V)        # "Type.field".split(".")[0]


class SubscriptionBake(Contract):
    """Subscription.bake: the decorated generator becomes the `subscribe` source of the field it names -- only if that field exists and belongs to
    the schema's subscription root type; otherwise the registration is refused"""
    key = 'tartiflette/subscription/subscription.py::Subscription.bake'
    property_ids = ('C14', 'C17')
    params = ['self', 'schema']
    self_class = 'Subscription'
    modifies_fields = ('subscribe', 'subscription_arguments_coercer', 'subscription_list_concurrently', 'subscription__parent_concurrently', 'subscription_parent_concurrently')

    def args(self, en, names):
        self.A = super().args(en, names)
        return self.A

    def pre(self, A, st):
        me, s = A['self'], A['schema']
        f = FieldByName(s, attr0(me, 'name'))
        return [('subscription', z3.And(V.oref(me) >= 0, V.is_Str(attr0(me, 'name')), z3.Or(attr0(me, '_implementation') == V.None_, V.is_Fun(attr0(me, '_implementation'))))),
                ('schema', z3.And(exact(s, 'GraphQLSchema'), V.oref(s) >= 0, V.is_Str(attr0(s, 'subscription_operation_name')))),
                ('field', z3.And(exact(f, 'GraphQLField'), V.oref(f) >= 0))]

    def getattr_hook(self, en, st, v, attr):
        if attr == 'get_field_by_name' and z3.eq(v, self.A['schema']):
            def get(en, s, a, kw):
                n = en.read(a[0], s)
                return en.branches(s, [(z3.Not(NoSuchField(v, n)), FieldByName(v, n)), (NoSuchField(v, n), Raise(en.exc_new('KeyError', s)))])
            return [(st, PyFunc('get_field_by_name', get))]
        if attr == 'split' and z3.eq(z3.simplify(v), z3.simplify(attr0(self.A['self'], 'name'))):
            return [(st, PyFunc('split', lambda en, s, a, kw, v=v: [(s, V.List(mklist(RootOfName(v), fresh('field_part'))))]))]
        return None

    def post(self, A, st0, out):
        me, s, st = A['self'], A['schema'], out.st
        impl, name = attr0(me, '_implementation'), attr0(me, 'name')
        f = FieldByName(s, name)
        is_root = RootOfName(name) == attr0(s, 'subscription_operation_name')
        if out.kind == 'raise':
            return [('refused_only_for_a_reason', z3.Or(z3.And(z3.Not(py_truthy(impl)), exact(out.value, 'MissingImplementation')),
                                                        z3.And(py_truthy(impl), NoSuchField(s, name), exact(out.value, 'UnknownFieldDefinition')),
                                                        z3.And(py_truthy(impl), z3.Not(NoSuchField(s, name)), z3.Not(is_root), exact(out.value, 'NotSubscriptionField'))))]
        return [('accepted_only_for_a_subscription_root_field', z3.And(py_truthy(impl), z3.Not(NoSuchField(s, name)), is_root)),
                ('generator_is_the_source_of_the_named_field', fld(st, 'subscribe', f) == impl)]


CONTRACTS = [SubscriptionBake()]
LEMMAS = []
