"""C01 (continued) -- the built-in @skip / @include hooks that feed collect_fields (GraphQL 3.13.1 / 3.13.2) and the output enum coercer."""
import z3
from pyvc.values import *
from pyvc.values import UNFOLD, ForallList, LEMMA_HOOKS
from pyvc.contracts import Contract, Lemma
from pyvc.symexec import attr0, field0, LoopContract, PyFunc, PyTuple, Raise
from .common import *

B = 'tartiflette/directive/builtins/'


def if_arg(a):
    return lookup(V.ditems(a), S('if'))


class SelectionGate(Contract):
    """skip_selection / include_selection: @skip(if: b) drops the selection exactly when b is true, @include(if: b) exactly when b is false
    (signalled by SkipCollection); otherwise the selection is returned untouched"""
    property_ids = ('C01',)
    params = ['directive_args', 'selection', 'ctx']

    def __init__(self, fn, skip_when_true):
        self.key = B + fn
        self.skip_when_true = skip_when_true

    def pre(self, A, st):
        return [('arguments', z3.And(V.is_Dict(A['directive_args']), V.is_Bool(if_arg(A['directive_args']))))]       # coerced Boolean! argument

    def _skips(self, A):
        b = V.b(if_arg(A['directive_args']))
        return b if self.skip_when_true else z3.Not(b)

    def post(self, A, st0, out):
        if out.kind == 'raise':
            return [('dropped_only_when_the_condition_says_so', z3.And(self._skips(A), exact(out.value, 'SkipCollection')))]
        return [('kept_only_when_the_condition_says_so', z3.And(z3.Not(self._skips(A)), out.value == A['selection']))]


class CollectionHook(Contract):
    """on_field_collection / on_fragment_spread_collection / on_inline_fragment_collection of @skip / @include: the next stage of the chain runs once on
    the node; its result is kept or dropped by this directive's condition; a drop decided further down the chain propagates"""
    property_ids = ('C01', 'C13')

    def __init__(self, fn, cls, method, node_param, skip_when_true):
        self.key = B + fn + '::' + cls + '.' + method
        self.params = ['self', 'directive_args', 'next_directive', node_param, 'ctx']
        self.self_class = cls
        self.node_param, self.skip_when_true = node_param, skip_when_true

    def args(self, en, names):
        self.A = super().args(en, names)
        self.next_val, self.next_drops = fresh('next_stage_value'), fresh('next_stage_drops', BoolS)
        return self.A

    def pre(self, A, st):
        return [('arguments', z3.And(V.is_Dict(A['directive_args']), V.is_Bool(if_arg(A['directive_args'])))), ('next', V.is_Fun(A['next_directive']))]

    def ghost0(self, A):
        return {'next_calls': z3.IntVal(0), 'next_args': V.Missing}

    def call_model(self, en, st, f, a, kw):
        if z3.eq(f, self.A['next_directive']):
            st = st.put_ghost('next_calls', st.ghost['next_calls'] + 1).put_ghost('next_args', V.Tuple(mklist(*[en.read(x, st) for x in a])))
            e = V.Obj(z3.IntVal(cid('SkipCollection')), fresh('eref', IntS))
            return en.branches(st, [(z3.Not(self.next_drops), self.next_val), (z3.And(self.next_drops, V.oref(e) >= 0), Raise(e))])
        return None

    def post(self, A, st0, out):
        g = out.st.ghost
        b = V.b(if_arg(A['directive_args']))
        skips = b if self.skip_when_true else z3.Not(b)
        common = [('next_stage_once_on_the_node', z3.And(g['next_calls'] == 1, g['next_args'] == V.Tuple(mklist(A[self.node_param], A['ctx']))))]
        if out.kind == 'raise':
            return common + [('dropped_by_this_condition_or_further_down', z3.And(z3.Or(self.next_drops, skips), exact(out.value, 'SkipCollection')))]
        return common + [('kept_value_is_the_next_stage_value', z3.And(z3.Not(self.next_drops), z3.Not(skips), out.value == self.next_val))]


CONTRACTS = [SelectionGate('skip.py::skip_selection', True), SelectionGate('include.py::include_selection', False)]
for _fn, _cls, _sk in (('skip.py', 'SkipDirective', True), ('include.py', 'IncludeDirective', False)):
    for _m, _np in (('on_field_collection', 'field_node'), ('on_fragment_spread_collection', 'fragment_spread_node'), ('on_inline_fragment_collection', 'inline_fragment_node')):
        CONTRACTS.append(CollectionHook(_fn, _cls, _m, _np, _sk))
LEMMAS = []
