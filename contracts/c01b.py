"""C01 (continued) -- the built-in @skip / @include hooks that feed collect_fields (GraphQL 3.13.1 / 3.13.2) and the output enum coercer."""
import z3
from pyvc.values import *
from pyvc.values import UNFOLD, ForallList, LEMMA_HOOKS
from pyvc.contracts import Contract, Lemma
from pyvc.symexec import attr0, field0, LoopContract, PyFunc, PyTuple, Raise
from .common import *

B = 'tartiflette/directive/builtins/'


def if_arg(a):
    return lookup(V.ditems(a), S('if'))


class SelectionGate(Contract):
    """skip_selection / include_selection: @skip(if: b) drops the selection exactly when b is true, @include(if: b) exactly when b is false
    (signalled by SkipCollection); otherwise the selection is returned untouched"""
    property_ids = ('C01',)
    params = ['directive_args', 'selection', 'ctx']

    def __init__(self, fn, skip_when_true):
        self.key = B + fn
        self.skip_when_true = skip_when_true

    def pre(self, A, st):
        return [('arguments', z3.And(V.is_Dict(A['directive_args']), V.is_Bool(if_arg(A['directive_args']))))]       # coerced Boolean! argument

    def _skips(self, A):
        b = V.b(if_arg(A['directive_args']))
        return b if self.skip_when_true else z3.Not(b)

    def post(self, A, st0, out):
        if out.kind == 'raise':
            return [('dropped_only_when_the_condition_says_so', z3.And(self._skips(A), exact(out.value, 'SkipCollection')))]
        return [('kept_only_when_the_condition_says_so', z3.And(z3.Not(self._skips(A)), out.value == A['selection']))]


class CollectionHook(Contract):
    """on_field_collection / on_fragment_spread_collection / on_inline_fragment_collection of @skip / @include: the next stage of the chain runs once on
    the node; its result is kept or dropped by this directive's condition; a drop decided further down the chain propagates"""
    property_ids = ('C01', 'C13')

    def __init__(self, fn, cls, method, node_param, skip_when_true):
        self.key = B + fn + '::' + cls + '.' + method
        self.params = ['self', 'directive_args', 'next_directive', node_param, 'ctx']
        self.self_class = cls
        self.node_param, self.skip_when_true = node_param, skip_when_true

    def args(self, en, names):
        self.A = super().args(en, names)
        self.next_val, self.next_drops = fresh('next_stage_value'), fresh('next_stage_drops', BoolS)
        return self.A

    def pre(self, A, st):
        return [('arguments', z3.And(V.is_Dict(A['directive_args']), V.is_Bool(if_arg(A['directive_args'])))), ('next', V.is_Fun(A['next_directive']))]

    def ghost0(self, A):
        return {'next_calls': z3.IntVal(0), 'next_args': V.Missing}

    def call_model(self, en, st, f, a, kw):
        if z3.eq(f, self.A['next_directive']):
            st = st.put_ghost('next_calls', st.ghost['next_calls'] + 1).put_ghost('next_args', V.Tuple(mklist(*[en.read(x, st) for x in a])))
            e = V.Obj(z3.IntVal(cid('SkipCollection')), fresh('eref', IntS))
            return en.branches(st, [(z3.Not(self.next_drops), self.next_val), (z3.And(self.next_drops, V.oref(e) >= 0), Raise(e))])
        return None

    def post(self, A, st0, out):
        g = out.st.ghost
        b = V.b(if_arg(A['directive_args']))
        skips = b if self.skip_when_true else z3.Not(b)
        common = [('next_stage_once_on_the_node', z3.And(g['next_calls'] == 1, g['next_args'] == V.Tuple(mklist(A[self.node_param], A['ctx']))))]
        if out.kind == 'raise':
            return common + [('dropped_by_this_condition_or_further_down', z3.And(z3.Or(self.next_drops, skips), exact(out.value, 'SkipCollection')))]
        return common + [('kept_value_is_the_next_stage_value', z3.And(z3.Not(self.next_drops), z3.Not(skips), out.value == self.next_val))]


CONTRACTS = [SelectionGate('skip.py::skip_selection', True), SelectionGate('include.py::include_selection', False)]
for _fn, _cls, _sk in (('skip.py', 'SkipDirective', True), ('include.py', 'IncludeDirective', False)):
    for _m, _np in (('on_field_collection', 'field_node'), ('on_fragment_spread_collection', 'fragment_spread_node'), ('on_inline_fragment_collection', 'inline_fragment_node')):
        CONTRACTS.append(CollectionHook(_fn, _cls, _m, _np, _sk))
LEMMAS = []


# ---- object completion: CompleteValue for an object type = ExecuteSelectionSet of the MERGED sub-selections of all field nodes, on the resolved value
OC = 'tartiflette/coercers/outputs/'


class CompleteObjectValue(Contract):
    """complete_object_value: the sub-selections of every merged field node are collected once for the object type, and executed once, in "read" mode,
    with the resolved value as the parent value, under this field's path; that response map (or failure) is the result"""
    key = OC + 'common.py::complete_object_value'
    property_ids = ('C01',)
    params = ['result', 'info', 'execution_context', 'field_nodes', 'path', 'return_type']

    def args(self, en, names):
        self.A = super().args(en, names)
        self.subfields, self.response = fresh('collected_subfields'), fresh('sub_response')
        self.collect_fails, self.execute_fails = fresh('collection_fails', BoolS), fresh('execution_fails', BoolS)
        return self.A

    def pre(self, A, st):
        return [('info', z3.And(exact(A['info'], 'ResolveInfo'), V.oref(A['info']) >= 0))]

    def ghost0(self, A):
        return {'collect_calls': z3.IntVal(0), 'collect_args': V.Missing, 'execute_calls': z3.IntVal(0), 'execute_args': V.Missing}

    def _exc(self):
        e = V.Obj(fresh('ecls', IntS), fresh('eref', IntS))
        return e, z3.And(inst(e, 'Exception'), V.oref(e) >= 0)

    @property
    def callee_models(self):
        def collect(en, st, a, kw):
            e, wf = self._exc()
            st = st.put_ghost('collect_calls', st.ghost['collect_calls'] + 1).put_ghost('collect_args', V.Tuple(mklist(*[en.read(x, st) for x in a])))
            return en.branches(st, [(z3.Not(self.collect_fails), self.subfields), (z3.And(self.collect_fails, wf), Raise(e))])

        def execute(en, st, a, kw):
            e, wf = self._exc()
            st = st.put_ghost('execute_calls', st.ghost['execute_calls'] + 1).put_ghost('execute_args', V.Tuple(mklist(*[en.read(x, st) for x in a])))
            return en.branches(st, [(z3.Not(self.execute_fails), self.response), (z3.And(self.execute_fails, wf), Raise(e))])
        return {'tartiflette/execution/collect.py::collect_subfields': collect, 'tartiflette/execution/execute.py::execute_fields': execute}

    def post(self, A, st0, out):
        g = out.st.ghost
        collected = [('merged_sub_selections_collected_once_for_the_type', z3.And(g['collect_calls'] == 1, g['collect_args'] == V.Tuple(mklist(A['execution_context'], A['return_type'], A['field_nodes']))))]
        if out.kind == 'raise':
            return collected + [('only_a_stage_failure_propagates', z3.Or(self.collect_fails, self.execute_fails))]
        return collected + [('executed_once_on_the_resolved_value', z3.And(g['execute_calls'] == 1, out.value == self.response,
                             g['execute_args'] == V.Tuple(mklist(A['execution_context'], A['return_type'], A['result'], A['path'], self.subfields, attr0(A['info'], 'is_introspection')))))]


class ObjectCoercerBody(Contract):
    """output object_coercer: a non-null resolved value of an object type is completed as that object type"""
    key = OC + 'object_coercer.py::object_coercer'
    decorators = ['null_coercer_wrapper']
    property_ids = ('C01',)
    params = ['result', 'info', 'execution_context', 'field_nodes', 'path', 'object_type']

    def args(self, en, names):
        self.A = super().args(en, names)
        self.response, self.fails = fresh('object_response'), fresh('completion_fails', BoolS)
        return self.A

    def ghost0(self, A):
        return {'calls': z3.IntVal(0), 'call_args': V.Missing}

    @property
    def callee_models(self):
        def complete(en, st, a, kw):
            e = V.Obj(fresh('ecls', IntS), fresh('eref', IntS))
            st = st.put_ghost('calls', st.ghost['calls'] + 1).put_ghost('call_args', V.Tuple(mklist(*[en.read(x, st) for x in a])))
            return en.branches(st, [(z3.Not(self.fails), self.response), (z3.And(self.fails, inst(e, 'Exception'), V.oref(e) >= 0), Raise(e))])
        return {OC + 'common.py::complete_object_value': complete}

    def post(self, A, st0, out):
        g = out.st.ghost
        once = [('completed_once_as_this_object_type', z3.And(g['calls'] == 1, g['call_args'] == V.Tuple(mklist(A['result'], A['info'], A['execution_context'], A['field_nodes'], A['path'], A['object_type']))))]
        if out.kind == 'raise':
            return once + [('only_completion_fails', self.fails)]
        return once + [('its_response_is_the_result', out.value == self.response)]


CONTRACTS += [CompleteObjectValue(), ObjectCoercerBody()]


# ---- Resolver.bake: the decorated implementation lands on the field it names, its type resolver on that field's abstract type under that field
FieldByName = z3.Function('SchemaFieldByName', V, V, V)       # schema.get_field_by_name("Type.field")
NoSuchField = z3.Function('SchemaHasNoSuchField', V, V, BoolS)
WrappedTypeOf = z3.Function('UnwrappedTypeOf', V, V, V)       # get_wrapped_type(get_graphql_type(schema, ref))


class ResolverBake(Contract):
    """Resolver.bake: the implementation and the per-field options are stored on the field `Type.field` of THIS schema; a type resolver given with the
    resolver is registered on the field's (unwrapped) abstract type under this very field name (so it wins for this field only: get_type_resolver);
    a missing implementation or an unknown field is refused"""
    key = 'tartiflette/resolver/resolver.py::Resolver.bake'
    property_ids = ('C01', 'C17')
    params = ['self', 'schema']
    self_class = 'Resolver'
    modifies_fields = ('raw_resolver', 'query_arguments_coercer', 'query_list_concurrently', 'query_parent_concurrently', '_fields_type_resolvers')
    inline = ('tartiflette/types/type.py::GraphQLAbstractType.add_field_type_resolver',)
    callee_models = {'tartiflette/types/helpers/type.py::get_graphql_type': lambda en, st, a, kw: [(st, V.Tuple(mklist(en.read(a[0], st), en.read(a[1], st))))],
                     'tartiflette/types/helpers/definition.py::get_wrapped_type': lambda en, st, a, kw: (lambda p: [(st, WrappedTypeOf(nth(V.titems(p), 0), nth(V.titems(p), 1)))])(en.read(a[0], st))}

    def args(self, en, names):
        self.A = super().args(en, names)
        return self.A

    def _field(self, A):
        return FieldByName(A['schema'], attr0(A['self'], 'name'))

    def _wt(self, A):
        return WrappedTypeOf(A['schema'], attr0(self._field(A), 'gql_type'))

    def pre(self, A, st):
        me, s = A['self'], A['schema']
        f, wt = self._field(A), self._wt(A)
        return [('resolver', z3.And(V.oref(me) >= 0, V.is_Str(attr0(me, 'name')), z3.Or(attr0(me, '_implementation') == V.None_, V.is_Fun(attr0(me, '_implementation'))),
                                    z3.Or(attr0(me, '_type_resolver') == V.None_, V.is_Fun(attr0(me, '_type_resolver'))))),
                ('schema', z3.And(exact(s, 'GraphQLSchema'), V.oref(s) >= 0)),
                ('field', z3.And(exact(f, 'GraphQLField'), V.oref(f) >= 0)),
                ('field_type', z3.And(z3.Or(exact(wt, 'GraphQLInterfaceType'), exact(wt, 'GraphQLUnionType'), exact(wt, 'GraphQLObjectType'), exact(wt, 'GraphQLScalarType'), exact(wt, 'GraphQLEnumType')),
                                      V.oref(wt) >= 0, z3.Implies(inst(wt, 'GraphQLAbstractType'), V.is_Dict(fld(st, '_fields_type_resolvers', wt)))))]

    def getattr_hook(self, en, st, v, attr):
        if attr == 'get_field_by_name' and z3.eq(v, self.A['schema']):
            def get(en, s, a, kw):
                n = en.read(a[0], s)
                return en.branches(s, [(z3.Not(NoSuchField(v, n)), FieldByName(v, n)), (NoSuchField(v, n), Raise(en.exc_new('KeyError', s)))])
            return [(st, PyFunc('get_field_by_name', get))]
        return None

    def post(self, A, st0, out):
        me, s, st = A['self'], A['schema'], out.st
        impl, tr, name = attr0(me, '_implementation'), attr0(me, '_type_resolver'), attr0(me, 'name')
        f, wt = self._field(A), self._wt(A)
        if out.kind == 'raise':
            return [('refused_only_without_implementation_or_field', z3.Or(z3.And(z3.Not(py_truthy(impl)), exact(out.value, 'MissingImplementation')),
                                                                          z3.And(py_truthy(impl), NoSuchField(s, name), exact(out.value, 'UnknownFieldDefinition'))))]
        return [('accepted_only_with_implementation_and_field', z3.And(py_truthy(impl), z3.Not(NoSuchField(s, name)))),
                ('implementation_on_the_named_field', z3.And(fld(st, 'raw_resolver', f) == impl, fld(st, 'query_arguments_coercer', f) == attr0(me, '_arguments_coercer'),
                                                             fld(st, 'query_list_concurrently', f) == attr0(me, '_list_concurrently'),
                                                             fld(st, 'query_parent_concurrently', f) == attr0(me, '_parent_concurrently'))),
                ('type_resolver_registered_for_this_field_only', z3.Implies(z3.And(py_truthy(tr), inst(wt, 'GraphQLAbstractType')),
                                                                            lookup(V.ditems(fld(st, '_fields_type_resolvers', wt)), name) == tr))]


CONTRACTS.append(ResolverBake())


class TypeResolverBake(Contract):
    """TypeResolver.bake: the decorated callable becomes the type resolver of the ABSTRACT type it names in this schema; a missing implementation, an
    unknown type or a non-abstract type is refused"""
    key = 'tartiflette/resolver/type_resolver.py::TypeResolver.bake'
    property_ids = ('C01', 'C17')
    params = ['self', 'schema']
    self_class = 'TypeResolver'
    modifies_fields = ('type_resolver',)

    def _type(self, A):
        return lookup(V.ditems(attr0(A['schema'], 'type_definitions')), attr0(A['self'], 'name'))

    def pre(self, A, st):
        me, s = A['self'], A['schema']
        t = self._type(A)
        return [('type_resolver', z3.And(V.oref(me) >= 0, V.is_Str(attr0(me, 'name')), z3.Or(attr0(me, '_implementation') == V.None_, V.is_Fun(attr0(me, '_implementation'))))),
                ('schema', z3.And(exact(s, 'GraphQLSchema'), V.oref(s) >= 0, V.is_Dict(attr0(s, 'type_definitions')))),
                ('named_type', z3.Implies(t != V.Missing, z3.And(z3.Or(exact(t, 'GraphQLInterfaceType'), exact(t, 'GraphQLUnionType'), exact(t, 'GraphQLObjectType'), exact(t, 'GraphQLScalarType'),
                                                                       exact(t, 'GraphQLEnumType'), exact(t, 'GraphQLInputObjectType')), V.oref(t) >= 0)))]

    def post(self, A, st0, out):
        me, st = A['self'], out.st
        impl, t = attr0(me, '_implementation'), self._type(A)
        abstract = inst(t, 'GraphQLAbstractType')
        if out.kind == 'raise':
            return [('refused_only_for_a_reason', z3.Or(z3.And(z3.Not(py_truthy(impl)), exact(out.value, 'MissingImplementation')),
                                                        z3.And(py_truthy(impl), t == V.Missing, exact(out.value, 'UnknownTypeDefinition')),
                                                        z3.And(py_truthy(impl), t != V.Missing, z3.Not(abstract), exact(out.value, 'InvalidType'))))]
        return [('accepted_only_for_an_abstract_type', z3.And(py_truthy(impl), t != V.Missing, abstract)),
                ('implementation_is_the_types_resolver', fld(st, 'type_resolver', t) == impl)]


CONTRACTS.append(TypeResolverBake())
