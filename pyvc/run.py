"""check <PID> [--tier quick|thorough] [--replay FILE]  (DESIGN section 7)
exit 0 held / 1 violation / 2 undecided / 3 checker failure"""
import argparse
import hashlib
import importlib
import json
import multiprocessing as mp
import os
import re
import sys
import time
import traceback

ROOT = os.path.dirname(os.path.dirname(os.path.abspath(__file__)))
RDIR = os.environ.get('PYVC_REPLAY_DIR', 'replays')      # development runs on scratch copies use their own directory
sys.path.insert(0, ROOT)


def load_all():
    import contracts
    mods = {}
    registry = {}
    for pid, cfg in contracts.PROPERTIES.items():
        for mn in cfg['modules']:
            if mn not in mods:
                mods[mn] = importlib.import_module(mn)
    for mn, m in mods.items():
        for c in getattr(m, 'CONTRACTS', []):
            registry.setdefault(c.key, c)
    return contracts.PROPERTIES, mods, registry


def known_findings():
    p = os.path.join(ROOT, 'known_findings.json')
    if not os.path.exists(p):
        return []
    return json.load(open(p))['findings']


def match_known(pid, obname):
    out = []
    for f in known_findings():
        if f.get('status') != 'known' or pid not in f['property'].split('/'):
            continue
        if re.search(f['obligation'], obname):
            out.append(f)
    return out


def witness_pred(ref):
    mn, name = ref.split(':')
    return getattr(importlib.import_module(mn), 'WITNESS_CLASSES')[name]


def _sanitize(s):
    return re.sub(r'[^A-Za-z0-9_.#\[\]-]+', '_', s)[-150:]


def replay_obligation(pid, contract, obname, model, A, hyps, goal, meta, solver_text):
    """-> dict(confirmed: True|False|None, file)"""
    import z3
    from pyvc import replay as RP
    from pyvc.contracts import Out
    from pyvc.symexec import State
    os.makedirs(os.path.join(ROOT, RDIR, pid), exist_ok=True)
    path = os.path.join(RDIR, pid, _sanitize(obname) + '.json')
    rec = dict(property=pid, obligation=obname, function=contract.key, clause=meta.get('clause'), solver_output=solver_text[:4000],
               expected_clause=goal.sexpr()[:3000], confirmed=None)
    try:
        rf = RP.Reifier(model)
        spec = contract.replay_spec(rf, A) if hasattr(contract, 'replay_spec') else default_spec(contract, rf, A)
        if spec is None:
            raise RP.CannotReify("no replay constructor for this contract")
        rec['inputs'] = spec
        outcome = RP.run_native(spec)
        rec['observed'] = outcome
        if 'error' in outcome:
            rec['replay_error'] = outcome['error']
        else:
            rec['confirmed'], rec['violated_clauses'] = evaluate_outcome(contract, A, spec, outcome)
    except RP.CannotReify as e:
        rec['replay_error'] = f"cannot reify: {e}"
    except Exception:
        rec['replay_error'] = traceback.format_exc()[-800:]
    json.dump(rec, open(os.path.join(ROOT, path), 'w'), indent=1, default=str)
    return dict(confirmed=rec['confirmed'], file=path, error=rec.get('replay_error'))


def default_spec(contract, rf, A):
    from pyvc.classtable import table
    node, _ = table().functions[contract.key]
    names = [x.arg for x in node.args.posonlyargs + node.args.args]
    spec = dict(target=contract.key, args=[], arg_names=[], attrs=getattr(contract, 'replay_attrs', None))
    for n in names:
        if n == 'self':
            spec['self_class'] = contract.self_class
            continue
        v = A[n + '@0'] if (n + '@0') in A else A[n]
        spec['args'].append(rf.value(v, getattr(contract, 'reify_attrs', None)))
        spec['arg_names'].append(n)
    return spec


def evaluate_outcome(contract, A, spec, outcome):
    """evaluate every post clause of the contract on the natively observed outcome (ground terms)"""
    import z3
    from pyvc import replay as RP
    from pyvc.contracts import Out
    from pyvc.symexec import State
    from pyvc.values import ground_axioms
    facts = []
    for n, j in zip(spec['arg_names'], spec['args']):
        a = A[n + '@0'] if (n + '@0') in A else A[n]
        facts.append(a == RP.term_of_json(j, facts))
    val = RP.term_of_json(outcome['value'], facts)
    facts += RP.string_facts(outcome.get('strings', {}))
    st = State()
    if hasattr(contract, 'replay_state'):
        st = contract.replay_state(A, spec, outcome, facts)
    o = Out(outcome['kind'], val, st)
    bad = []
    for (label, g) in contract.post(A, st, o):
        s = z3.Solver()
        s.set('timeout', 10000)
        q = facts + [g]
        s.add(*q)
        s.add(*ground_axioms(q))
        if s.check() == z3.unsat:
            bad.append(label)
    return (len(bad) > 0), bad


def worker(task):
    kind, mn, idx, pid, tier = task
    try:
        import z3
        from pyvc import contracts as CT, solve
        props, mods, registry = load_all()
        m = mods[mn]
        if kind == 'lemma':
            l = m.LEMMAS[idx]
            r = solve.check(l.hyps, l.goal, timeout_ms=20000, second=(tier == 'thorough'))
            ob = dict(name=f"lemma:{l.name}", result=r['result'], seconds=round(r['seconds'], 4), backend=r['backend'], tainted=False, kind='lemma', clause=l.name)
            if r['model'] is not None:
                ob['model'] = str(r['model'])[:1500]
            if 'second' in r: ob['second'] = r['second']
            if r.get('disagreement'): ob['disagreement'] = True
            return dict(id=f"lemma:{l.name}", status='ok', obligations=[ob], paths=0, kindof='lemma')
        c = m.CONTRACTS[idx]
        rep = CT.verify(c, registry, tier=tier)
        models = rep.pop('_models', {})
        A = rep.pop('_A', None)
        for ob in rep['obligations']:
            if ob['result'] != 'sat':
                continue
            model, A_, hyps, goal, meta = models[ob['name']]
            ob['model'] = summarize_model(model, A_) if model is not None else f"(no model text: sat reported by {ob['backend']})"
            known = match_known(pid, ob['name'])
            if known:
                # known-finding carve-out: re-check with the recorded witness class excluded (DESIGN section 6)
                carve = [z3.Not(witness_pred(f['witness'])(A_)) for f in known]
                r2 = solve.check(list(hyps) + carve, goal, timeout_ms=c.timeout_ms)
                ob['carved'] = dict(result=r2['result'], findings=[f['id'] for f in known])
                if r2['result'] == 'unsat':
                    continue
                if r2['model'] is not None:
                    model = r2['model']
                    ob['model'] = summarize_model(model, A_)
            if model is None:
                ob['replay'] = write_unreplayed(pid, c, ob['name'], goal, f"sat reported by {ob['backend']} on the exported query; the in-process solver produced no model within its budget")
            elif meta.get('kind') in ('return', 'raise'):
                ob['replay'] = replay_obligation(pid, c, ob['name'], model, A_, hyps, goal, meta, str(model))
            else:
                ob['replay'] = write_unreplayed(pid, c, ob['name'], goal, str(model))
        rep['kindof'] = 'function'
        return rep
    except Exception:
        return dict(id=f"{mn}[{idx}]", status='crash', reason=traceback.format_exc()[-2000:], obligations=[], paths=0)


def write_unreplayed(pid, contract, obname, goal, solver_text):
    os.makedirs(os.path.join(ROOT, RDIR, pid), exist_ok=True)
    path = os.path.join(RDIR, pid, _sanitize(obname) + '.json')
    json.dump(dict(property=pid, obligation=obname, function=contract.key, expected_clause=goal.sexpr()[:3000], solver_output=solver_text[:4000],
                   confirmed=None, replay_error='internal obligation (callee precondition / loop invariant): no native input constructor'),
              open(os.path.join(ROOT, path), 'w'), indent=1)
    return dict(confirmed=None, file=path)


def summarize_model(model, A):
    out = {}
    for k, v in (A or {}).items():
        try:
            import z3
            if z3.is_expr(v):
                out[k] = str(model.eval(v, model_completion=True))[:300]
        except Exception:
            pass
    return out


def main(argv=None):
    ap = argparse.ArgumentParser()
    ap.add_argument('pid')
    ap.add_argument('--tier', default=os.environ.get('VERIF_TIER', 'quick'))
    ap.add_argument('--replay')
    ap.add_argument('--jobs', type=int, default=int(os.environ.get('PYVC_JOBS', '16')))
    ap.add_argument('--only', default=None, help='regex on function keys (debugging)')
    ns = ap.parse_args(argv)
    pid, tier = ns.pid, ns.tier
    seed = int(os.environ.get('VERIF_SEED', '0') or 0)
    t0 = time.time()
    os.chdir(ROOT)
    if ns.replay:
        return replay_file(pid, ns.replay)
    try:
        props, mods, registry = load_all()
    except Exception:
        print("CHECKER-ERROR loading contracts:\n" + traceback.format_exc())
        return 3
    if pid not in props:
        print(f"unknown property {pid}")
        return 3
    cfg = props[pid]
    tasks = []
    for mn in cfg['modules']:
        m = mods[mn]
        for i, c in enumerate(getattr(m, 'CONTRACTS', [])):
            if pid in c.property_ids and (ns.only is None or re.search(ns.only, c.key)):
                tasks.append(('contract', mn, i, pid, tier))
        for i, l in enumerate(getattr(m, 'LEMMAS', [])):
            if (not l.property_ids or pid in l.property_ids) and ns.only is None:
                tasks.append(('lemma', mn, i, pid, tier))
    # clean replays of this property
    rdir = os.path.join(ROOT, RDIR, pid)
    if os.path.isdir(rdir):
        for f in os.listdir(rdir):
            os.unlink(os.path.join(rdir, f))
    with mp.Pool(min(ns.jobs, max(1, len(tasks)))) as pool:
        reports = pool.map(worker, tasks, chunksize=1)
    extra = []
    for mn in cfg['modules']:
        hook = getattr(mods[mn], 'extra_checks', None)
        if hook is not None:
            extra += hook(pid, tier, seed)
    if tier == 'thorough' and ns.only is None:
        extra.append(canaries(pid, cfg, mods, reports, ns.jobs))
    return finish(pid, tier, seed, cfg, reports, extra, t0, partial=ns.only is not None)


def canaries(pid, cfg, mods, reports, jobs, per_contract=2, max_seconds=90):
    """thorough tier: vacuity probe by mutation -- for every contract that verified quickly, up to `per_contract` built-in AST mutants of its
    function (negated test, swapped relational operator, dropped statement ...) are verified against the unchanged contract; a mutant is killed
    when some obligation fails.  Reported in the evidence; survivors point at weak clauses and do not change the verdict."""
    from . import canary
    from .classtable import table
    quick = {r['id'] for r in reports if r.get('kindof') == 'function' and r.get('status') == 'ok' and (r.get('seconds') or 0) <= max_seconds}
    tasks = []
    for mn in cfg['modules']:
        for i, c in enumerate(getattr(mods[mn], 'CONTRACTS', [])):
            if pid not in c.property_ids or c.key not in quick or c.key not in table().functions:
                continue
            node, _ = table().functions[c.key]
            for (label, nidx, what) in canary.mutants(node)[:per_contract]:
                tasks.append((mn, i, label, nidx, what))
    t0 = time.time()
    res = []
    if tasks:
        with mp.Pool(min(jobs, len(tasks))) as pool:
            res = pool.map(canary.work, tasks, chunksize=1)
    survivors = [f"{k}:{label}" for (k, label, dead, why) in res if not dead]
    return dict(kind='canary', name='mutation probe', mutants=len(res), killed=sum(1 for r in res if r[2]), survivors=survivors, seconds=round(time.time() - t0, 1))


def finish(pid, tier, seed, cfg, reports, extra, t0, partial=False):
    code = 0
    violations, known_lines, undecided, errors = [], [], [], []
    n_obl = n_dis = 0
    solver_s = 0.0
    backends = {}
    functions = []
    lemmas = []
    slow = []
    samples = []
    for rep in reports:
        st = rep.get('status')
        fails = []
        if st in ('stale', 'out_of_subset'):
            undecided.append(f"{rep['id']}: {st}: {rep.get('reason')}")
        elif st == 'crash':
            errors.append(f"{rep['id']}: crash: {rep.get('reason')}")
        elif rep.get('kindof') == 'function' and not rep['obligations']:
            errors.append(f"{rep['id']}: zero obligations generated")
        if rep.get('kindof') == 'function' and st == 'ok':
            if rep.get('pre_sat') == 'unsat':
                errors.append(f"{rep['id']}: precondition not satisfiable: vacuous contract")
        for ob in rep['obligations']:
            n_obl += 1
            solver_s += ob.get('seconds', 0)
            slow.append((round(ob.get('seconds', 0), 2), ob['name'], ob.get('backend', '')))
            if ob.get('disagreement'):
                errors.append(f"{ob['name']}: back ends disagree {ob.get('second')}")
            if ob['result'] == 'unsat':
                n_dis += 1
                backends[ob['backend']] = backends.get(ob['backend'], 0) + 1
                if len(samples) < 6 and ob.get('size'):
                    samples.append(dict(obligation=ob['name'], result='unsat', backend=ob['backend'], smt_chars=ob.get('size'), seconds=ob['seconds']))
                continue
            fails.append(ob)
            if ob['result'] == 'sat':
                carved = ob.get('carved')
                if carved and carved['result'] == 'unsat':
                    n_dis += 1
                    backends['carve-out'] = backends.get('carve-out', 0) + 1
                    for fid in carved['findings']:
                        f = next(x for x in known_findings() if x['id'] == fid)
                        line = f"KNOWN-FINDING: property={pid} {f['id']}: {f['what']}"
                        if line not in known_lines:
                            known_lines.append(line)
                    continue
                rp = ob.get('replay') or {}
                if ob.get('kind') == 'lemma':
                    violations.append((ob['name'], write_lemma_replay(pid, ob), 'no-failing-input-found'))
                elif rp.get('confirmed') is True:
                    violations.append((ob['name'], rp['file'], ''))
                elif ob.get('tainted'):
                    undecided.append(f"{ob['name']}: counter-model only on a tainted path, not reproduced natively")
                else:
                    violations.append((ob['name'], rp.get('file', 'none'), 'no-failing-input-found'))
            else:
                undecided.append(f"{ob['name']}: solver {ob['result']}")
        if rep.get('kindof') == 'function':
            functions.append(dict(function=rep['id'], sha=rep.get('sha'), status=st, paths=rep.get('paths'), obligations=len(rep['obligations']),
                                  failed=len(fails), seconds=rep.get('seconds'), prune_checks=rep.get('prune_checks'), notes=rep.get('notes')))
        if rep.get('kindof') != 'function' and str(rep['id']).startswith('lemma:'):
            lemmas.append(dict(lemma=rep['id'][6:], status='proved' if st == 'ok' and not fails else st))
        flag = 'ok' if st == 'ok' and not fails else ('FAIL' if fails else st)
        print(f"[{flag:>4}] {rep['id']:<88} paths={rep.get('paths', 0):<3} obligations={len(rep['obligations']):<3} failed={len(fails)} {rep.get('seconds', '')}s {rep.get('reason', '') if st != 'ok' else ''}")
        for ob in fails:
            print(f"        {ob['result']:<7} {ob['name']}  {ob.get('model', '')}  carved={ob.get('carved')} replay={ob.get('replay')}")
    bounded = []
    frame_rows = []
    canary_row = None
    for ex in extra:
        if ex.get('kind') == 'frame':
            for o in ex['obligations']:
                n_obl += 1
                if o['status'] in ('discharged', 'exempt'):
                    n_dis += 1
                    backends['frame-checker'] = backends.get('frame-checker', 0) + 1
                    if o['status'] == 'exempt':
                        frame_rows.append(dict(obligation=o['name'], status='exempt (assumption)', why=o['detail']))
                    elif len(samples) < 4:
                        samples.append(dict(obligation=o['name'], result='discharged', backend='frame-checker', detail=o['detail'][:160]))
                elif o['status'] == 'violated':
                    os.makedirs(os.path.join(ROOT, RDIR, pid), exist_ok=True)
                    path = os.path.join(RDIR, pid, _sanitize(o['name']) + '.json')
                    json.dump(dict(property=pid, obligation=o['name'], line=o.get('line'), solver_output=o['detail'], confirmed=None,
                                   replay_error='frame obligation: decided by the provenance checker, no input to replay'), open(os.path.join(ROOT, path), 'w'), indent=1)
                    violations.append((o['name'], path, 'no-failing-input-found'))
                    print(f"[FAIL] frame {o['name']} line {o.get('line')}: {o['detail'][:200]}")
                else:
                    undecided.append(f"{o['name']}: {o['detail'][:160]}")
            continue
        if ex.get('kind') == 'canary':
            canary_row = ex
            print(f"[canary] mutants={ex['mutants']} killed={ex['killed']} survivors={len(ex['survivors'])} {ex['seconds']}s")
            for sv in ex['survivors']:
                print(f"        survivor {sv}")
            continue
        if ex.get('kind') == 'bounded':
            bounded.append(ex)
            if ex.get('violations'):
                for v in ex['violations']:
                    violations.append((ex['name'], v['file'], ''))
        if ex.get('error'):
            errors.append(f"{ex['name']}: {ex['error']}")
    for line in known_lines:
        print(line)
    for (name, path, suffix) in violations:
        print(f"VIOLATION property={pid} replay={path}" + (f" obligation={name} {suffix}" if suffix else f" obligation={name}"))
    for u in undecided:
        print(f"UNDECIDED {u}")
    for e in errors:
        print(f"CHECKER-ERROR {e}")
    if violations: code = 1
    elif errors: code = 3
    elif undecided: code = 2
    wall = time.time() - t0
    ev = dict(property_id=pid, tier=tier, seed=seed, level='proof',
              coverage=dict(obligations=n_obl, discharged=n_dis,
                            checker_cmd=f"./check {pid} --tier {tier}",
                            trusted_base=TRUSTED_BASE + list(cfg.get('trusted', [])),
                            functions_under_contract=functions, lemmas=lemmas, mutation_probe=canary_row,
                            slowest_obligations=[dict(seconds=a, obligation=b, backend=c) for a, b, c in sorted(slow, reverse=True)[:5]], backends=backends, solver_seconds=round(solver_s, 3),
                            samples=samples or [dict(note='no non-trivial obligation sampled')],
                            known_findings=known_lines, bounded=bounded, frame_exemptions=frame_rows,
                            undecided=undecided, checker_errors=errors,
                            explanation=cfg.get('explanation', '')),
              assumptions=ASSUMPTIONS + list(cfg.get('assumptions', [])),
              wall_s=round(wall, 2), violations=len(violations))
    # development runs (--only <regex>, or PYVC_SCRATCH_EVIDENCE=1 set by tools/seedtest.sh while /repo carries a seeded change) must not
    # replace the record of the last full run on the real tree
    sub = 'scratch' if (partial or os.environ.get('PYVC_SCRATCH_EVIDENCE')) else ''
    os.makedirs(os.path.join(ROOT, 'evidence', sub), exist_ok=True)
    json.dump(ev, open(os.path.join(ROOT, 'evidence', sub, f"{pid}{'' if RDIR == 'replays' else '_' + RDIR}.json"), 'w'), indent=1)
    print(f"{pid} tier={tier}: functions={len(functions)} obligations={n_obl} discharged={n_dis} violations={len(violations)} known={len(known_lines)} undecided={len(undecided)} errors={len(errors)} wall={wall:.1f}s exit={code}")
    return code


def write_lemma_replay(pid, ob):
    os.makedirs(os.path.join(ROOT, RDIR, pid), exist_ok=True)
    path = os.path.join(RDIR, pid, _sanitize(ob['name']) + '.json')
    json.dump(dict(property=pid, obligation=ob['name'], solver_output=ob.get('model'), confirmed=None,
                   replay_error='lemma over contracts: no code is executed'), open(os.path.join(ROOT, path), 'w'), indent=1)
    return path


def replay_file(pid, path):
    from pyvc import replay as RP
    rec = json.load(open(path))
    props, mods, registry = load_all()
    c = registry.get(rec.get('function'))
    if c is None or 'inputs' not in rec:
        print(f"replay file carries no native input ({rec.get('replay_error')}); obligation {rec.get('obligation')}")
        print(rec.get('solver_output', '')[:2000])
        return 1 if rec.get('confirmed') is not False else 0
    from pyvc.contracts import verify
    from pyvc.symexec import Engine
    from pyvc.classtable import table
    node, _ = table().functions[c.key]
    names = [x.arg for x in node.args.posonlyargs + node.args.args] + [x.arg for x in node.args.kwonlyargs]
    en = Engine(c.key.split('::')[0], contract=c, registry={})
    A = c.args(en, names)
    outcome = RP.run_native(rec['inputs'])
    if 'error' in outcome:
        print("native replay failed:", outcome['error'])
        return 3
    bad, clauses = evaluate_outcome(c, A, rec['inputs'], outcome)
    print(json.dumps(dict(inputs=rec['inputs'], observed=outcome, violated_clauses=clauses), indent=1)[:3000])
    if bad:
        print(f"VIOLATION property={pid} replay={path} obligation={rec.get('obligation')}")
        return 1
    print("replay: the real code satisfies the contract on this input")
    return 0


TRUSTED_BASE = [
    "pyvc VC generator (symbolic execution of the Python subset, DESIGN 2.2) and its proof rules: callee-contract substitution, loop invariant rule, comprehension map rule, await-as-call under frames",
    "builtin / stdlib models in pyvc/builtins.py (DESIGN 2.9(5))",
    "class-table extraction from /repo sources (nominal isinstance, attribute resolution through the MRO)",
    "reify/abstract pair used for native replay",
    "SMT solvers: z3 5.1.0 (in-process), z3 4.8.12 and cvc5 1.0.3 (CLI second opinion)",
    "specification functions in /verif/contracts and /verif/specs (transcribed from the GraphQL June-2018 specification)",
]
ASSUMPTIONS = [
    "Python semantics assumed: left-to-right evaluation, short-circuit and/or, try/except by class, dict insertion order (DESIGN 2.9)",
    "integers are mathematical (exact for Python); floats are the abstraction Fin(floor, integral, id)|NaN|+Inf|-Inf (DESIGN 2.3)",
    "values with numeric dunder protocols (Decimal, numpy scalars, user classes with __float__/__index__) are outside the value universe",
    "BaseException subclasses that are not Exception (cancellation, KeyboardInterrupt), MemoryError and RecursionError are outside the model",
    "await on a coroutine runs it to completion before the awaiting coroutine continues; frames make interleavings irrelevant (frame pass)",
    "isinstance is nominal over the class table; no metaclasses, __getattr__ hooks or monkey-patching of modelled objects",
]

if __name__ == '__main__':
    sys.exit(main())
