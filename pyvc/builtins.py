"""Models of Python builtins / stdlib used by the target functions (DESIGN 2.9(5)): assumed contracts on dependencies.
Each model: fn(engine, state, args, kwargs) -> [(state, value | Raise)]
"""
import z3
from .values import *
from .values import UNFOLD
from . import symexec as SX


def _E(en, n):
    return SX.Raise(en.exc_new(n))


def _nonnumeric(v):
    return z3.Not(z3.Or(V.is_Bool(v), V.is_Int(v), V.is_Float(v), V.is_Str(v)))


def b_isfinite(en, st, a, kw):
    v = en.read(a[0], st)
    big = z3.Or(int_of(v) >= 2 ** 1024, int_of(v) <= -2 ** 1024)
    return en.branches(st, [(z3.Not(is_num(v)), _E(en, 'TypeError')), (z3.And(is_intlike(v), big), _E(en, 'OverflowError')),
                            (z3.And(is_intlike(v), z3.Not(big)), V.Bool(True)), (V.is_Float(v), V.Bool(V.fk(v) == 0))])


def b_floor(en, st, a, kw):
    v = en.read(a[0], st)
    return en.branches(st, [(z3.Not(is_num(v)), _E(en, 'TypeError')), (is_intlike(v), V.Int(int_of(v))),
                            (z3.And(V.is_Float(v), V.fk(v) == 0), V.Int(V.fl(v))), (z3.And(V.is_Float(v), V.fk(v) == 1), _E(en, 'ValueError')),
                            (z3.And(V.is_Float(v), V.fk(v) >= 2), _E(en, 'OverflowError'))])


def b_int(en, st, a, kw):
    if not a:
        return [(st, V.Int(0))]
    v = en.read(a[0], st)
    trunc = z3.If(z3.Or(V.fint(v), V.fl(v) >= 0), V.fl(v), V.fl(v) + 1)
    r = str2int(V.s(v))
    return en.branches(st, [(_nonnumeric(v), _E(en, 'TypeError')), (is_intlike(v), V.Int(int_of(v))),
                            (z3.And(V.is_Float(v), V.fk(v) == 0), V.Int(trunc)), (z3.And(V.is_Float(v), V.fk(v) == 1), _E(en, 'ValueError')),
                            (z3.And(V.is_Float(v), V.fk(v) >= 2), _E(en, 'OverflowError')),
                            (z3.And(V.is_Str(v), z3.Not(V.is_Int(r))), _E(en, 'ValueError')), (z3.And(V.is_Str(v), V.is_Int(r)), r)])


def b_float(en, st, a, kw):
    if not a:
        return [(st, V.Float(0, 0, True, 0))]
    v = en.read(a[0], st)
    r = str2float(V.s(v))
    fr = fresh('i2f')
    n = int_of(v)
    big = z3.Or(n >= 2 ** 1024, n <= -2 ** 1024)
    ax = z3.And(V.is_Float(fr), V.fk(fr) == 0, V.fint(fr), wf_float(fr), z3.Implies(z3.And(n <= 2 ** 53, n >= -2 ** 53), V.fl(fr) == n),
                V.fid(fr) == int2float_id(n))
    return en.branches(st, [(_nonnumeric(v), _E(en, 'TypeError')), (V.is_Float(v), v),
                            (z3.And(V.is_Str(v), z3.Not(V.is_Float(r))), _E(en, 'ValueError')), (z3.And(V.is_Str(v), V.is_Float(r)), r),
                            (z3.And(is_intlike(v), big), _E(en, 'OverflowError')), (z3.And(is_intlike(v), z3.Not(big), ax), fr)])


int2float_id = z3.Function('int2float_id', IntS, IntS)


def str_of(v):
    return z3.If(V.is_Str(v), v, z3.If(V.is_Int(v), V.Str(int2str(V.i(v))), V.Str(any2str(v))))


def b_str(en, st, a, kw):
    if not a:
        return [(st, S(''))]
    v = en.read(a[0], st)
    return [(st, str_of(v))]


def b_repr(en, st, a, kw):
    return [(st, V.Str(fresh('repr', IntS)))]


def b_bool(en, st, a, kw):
    if not a:
        return [(st, V.Bool(False))]
    return [(st, V.Bool(en.truthy(a[0], st)))]


def b_len(en, st, a, kw):
    v = a[0]
    if isinstance(v, SX.PyTuple):
        return [(st, V.Int(len(v.items)))]
    if isinstance(v, SX.PyMapped):
        return [(st, V.Int(v.n))]
    v = en.read(v, st)
    return en.branches(st, [(V.is_List(v), V.Int(length(V.items(v)))), (V.is_Tuple(v), V.Int(length(V.titems(v)))),
                            (V.is_Dict(v), V.Int(length(V.ditems(v)))), (V.is_Set(v), V.Int(length(V.sitems(v)))),
                            (V.is_Str(v), V.Int(str_len(V.s(v)))),
                            (z3.Not(z3.Or(V.is_List(v), V.is_Tuple(v), V.is_Dict(v), V.is_Set(v), V.is_Str(v))), _E(en, 'TypeError'))])


str_len = z3.Function('str_len', IntS, IntS)


def b_list(en, st, a, kw):
    if not a:
        s, r = en.new_ref(st, 'list', V.List(VL.nil))
        return [(s, r)]
    d = en.iter_desc(a[0], st)
    if len(d.sources) == 1 and not d.enumerate and not d.reversed:
        seq = en.src_seq(d.sources[0][0], d.sources[0][1], st)
        s, r = en.new_ref(st, 'list', V.List(seq))
        return [(s, r)]
    raise SX.OutOfSubset("list() of a composite iterator")


def b_dict(en, st, a, kw):
    if not a and not kw:
        s, r = en.new_ref(st, 'dict', V.Dict(VL.nil))
        return [(s, r)]
    if len(a) == 1 and not kw:
        t = en.read(a[0], st)
        s, r = en.new_ref(st.assume(V.is_Dict(t)), 'dict', t)       # dict(d): a fresh dict with the same entries
        out = [(s, r)]
        bad = en.fork(st, z3.Not(V.is_Dict(t)))
        if bad is not None:
            out.append((bad.tainted(), fresh('dict_of_iterable')))
        return out
    raise SX.OutOfSubset("dict(...) with arguments")


def b_set(en, st, a, kw):
    if not a:
        s, r = en.new_ref(st, 'set', V.Set(VL.nil))
        return [(s, r)]
    raise SX.OutOfSubset("set(...) with arguments")


def b_tuple(en, st, a, kw):
    if not a:
        return [(st, SX.PyTuple([]))]
    v = a[0]
    if isinstance(v, SX.PyTuple):
        return [(st, v)]
    t = en.read(v, st)
    return [(st.assume(z3.Or(V.is_List(t), V.is_Tuple(t))), V.Tuple(z3.If(V.is_List(t), V.items(t), V.titems(t))))]


def b_enumerate(en, st, a, kw):
    d = en.iter_desc(a[0], st)
    if d.enumerate:
        raise SX.OutOfSubset("nested enumerate")
    start = 0
    if len(a) > 1 or 'start' in kw:
        sv = z3.simplify(V.i(en.read(a[1] if len(a) > 1 else kw['start'], st)))
        if not z3.is_int_value(sv):
            raise SX.OutOfSubset("enumerate start")
        start = sv.as_long()
    return [(st, SX.PyIter(d.sources, True, d.reversed, start))]


def b_zip(en, st, a, kw):
    srcs = []
    for x in a:
        d = en.iter_desc(x, st)
        if d.enumerate or d.reversed or len(d.sources) != 1:
            raise SX.OutOfSubset("zip of composite iterators")
        srcs += d.sources
    return [(st, SX.PyIter(srcs))]


def b_reversed(en, st, a, kw):
    d = en.iter_desc(a[0], st)
    return [(st, SX.PyIter(d.sources, d.enumerate, not d.reversed, d.start))]


def b_range(en, st, a, kw):
    if len(a) != 1:
        raise SX.OutOfSubset("range with start/step")
    return [(st, SX.PyIter([('range', V.i(en.read(a[0], st)))]))]


def b_callable(en, st, a, kw):
    v = a[0]
    if isinstance(v, (SX.PyFunc, SX.PyClassRef)):
        return [(st, V.Bool(True))]
    v = en.read(v, st)
    return [(st, V.Bool(z3.Or(V.is_Fun(v), V.is_Cls(v), z3.And(V.is_Obj(v), obj_callable(v)))))]


obj_callable = z3.Function('obj_callable', V, BoolS)


# number of positionally bound arguments of a partial object (entries under integer keys)
partial_npos = z3.RecFunction('partial_npos', VL, IntS)
_pl = z3.Const('pnp_l', VL)
z3.RecAddDefinition(partial_npos, [_pl], z3.If(VL.is_nil(_pl), 0, z3.If(V.is_Int(V.fst(VL.hd(_pl))), 1, 0) + partial_npos(VL.tl(_pl))))
UNFOLD['partial_npos'] = lambda l: z3.If(VL.is_nil(l), 0, z3.If(V.is_Int(V.fst(VL.hd(l))), 1, 0) + partial_npos(VL.tl(l)))


def partial_bind(bound, pos, kws):
    """the bound-argument list of functools.partial(f, *pos, **kws) given f's own bound list (partial of a partial flattens)"""
    if pos:
        prev = concrete_list(z3.simplify(bound))
        if prev is not None:
            base = z3.IntVal(sum(1 for p in prev if z3.is_true(z3.simplify(V.is_Int(V.fst(p))))))
        else:
            base = partial_npos(bound)
        for i, vt in enumerate(pos):
            bound = snoc(bound, V.Pair(V.Int(z3.simplify(base + i)), vt))
    bound = assoc_set(bound, S('__partial__'), V.Bool(True))     # marks functools.partial objects (isinstance(x, partial))
    for k, vt in kws:
        bound = assoc_set(bound, S(k), vt)
    return bound


def b_partial(en, st, a, kw):
    f = a[0]
    if '**' in kw:
        raise SX.OutOfSubset("partial with **")
    if any(isinstance(x, tuple) for x in a):
        raise SX.OutOfSubset("partial with *args")
    ft, st = en.term(f, st)
    bound = V.fbound(ft)
    pos = list(a[1:])
    if pos and concrete_list(z3.simplify(bound)) is None and en.fork(st, bound != VL.nil) is None:
        bound = VL.nil        # the path condition entails that nothing is bound yet
    post, kwt = [], []
    for v in pos:
        vt, st = en.term(v, st)
        post.append(vt)
    for k, v in kw.items():
        vt, st = en.term(v, st)
        kwt.append((k, vt))
    # positional bound arguments are stored under integer keys (after the ones already bound)
    res = z3.simplify(V.Fun(V.fname(ft), partial_bind(bound, post, kwt)))

    def call(en2, s, a2, kw2, f=f, kw=kw, pos=pos):
        merged = dict(kw)
        merged.update(kw2)
        return en2.call(f, s, pos + list(a2), merged)
    return [(st.assume(V.is_Fun(ft)), SX.PyFunc('partial', call, term=res))]


def b_gather(en, st, a, kw):
    """asyncio.gather(*coros, return_exceptions=b): positional results (assumed contract, DESIGN 2.6).
    The arguments have already been 'called' when the argument list was evaluated (await f(x) = call of f)."""
    items = []
    star = None
    for x in a:
        if isinstance(x, tuple) and x[0] == '*':
            star = x[1]
        else:
            items.append(x)
    if star is not None and items:
        raise SX.OutOfSubset("gather of mixed arguments")
    if star is not None:
        if isinstance(star, SX.PyMapped):
            return [(st, star)]
        t = en.read(star, st)
        # a list of coroutine objects (un-awaited call results): gather runs them all; with return_exceptions the failures are values
        capture = 'return_exceptions' in kw
        if capture:
            return [(st.assume(V.is_List(t)), V.List(gather_outcomes(V.items(t))))]
        return [(st, t)]
    ts = []
    for x in items:
        t, st = en.term(x, st)
        ts.append(t)
    return [(st, V.List(mklist(*ts)))]


gather_outcomes = z3.RecFunction('gather_outcomes', VL, VL)       # positional: value or (return_exceptions=True) exception of each awaitable
_gl = z3.Const('gl_', VL)


def _outcome(c):
    co = z3.And(V.is_Obj(c), V.ocls(c) == SX.table().cid['coroutine'])
    return z3.If(co, z3.If(SX.coro_raises(c), SX.coro_exc(c), SX.coro_value(c)), c)


z3.RecAddDefinition(gather_outcomes, [_gl], z3.If(VL.is_nil(_gl), VL.nil, VL.cons(_outcome(VL.hd(_gl)), gather_outcomes(VL.tl(_gl)))))


def _gather_lemmas(e, n):
    """gather_outcomes is a positional map (induction on the list)"""
    if n == 'gather_outcomes':
        out = [length(e) == length(e.arg(0))]
        l0 = e.arg(0)
        if z3.is_app(l0) and l0.decl().name() == 'take':
            # outcomes of a prefix one longer: the shorter prefix's outcomes, then the next one (induction on the list; proved in contracts/c08b.py)
            l, k = l0.arg(0), l0.arg(1)
            out.append(z3.Implies(z3.And(k > 0, k <= length(l)), e == app(gather_outcomes(take(l, k - 1)), VL.cons(_outcome(nth(l, k - 1)), VL.nil))))
            out.append(z3.Implies(k <= 0, e == VL.nil))
        return out
    if n == 'nth' and z3.is_app(e.arg(0)) and e.arg(0).decl().name() == 'gather_outcomes':
        l, k = e.arg(0).arg(0), e.arg(1)
        return [z3.Implies(z3.And(k >= 0, k < length(l)), e == _outcome(nth(l, k)))]
    return []


from .values import LEMMA_HOOKS as _LH   # noqa: E402
_LH.append(_gather_lemmas)


def b_iscoroutinefunction(en, st, a, kw):
    return [(st, V.Bool(fresh('iscoro', BoolS)))]


def b_get_close_matches(en, st, a, kw):
    return [(st, V.List(fresh('close', VL)))]


def b_print(en, st, a, kw):
    return [(st, V.None_)]


def b_id(en, st, a, kw):
    return [(st, V.Int(fresh('id', IntS)))]


def b_type(en, st, a, kw):
    v = en.read(a[0], st)
    cn = en.known_class(v)
    if cn is not None:
        return [(st, SX.PyClassRef(cn))]
    return [(st, V.Cls(z3.If(V.is_Obj(v), V.ocls(v), -1 - type_tag(v))))]


type_tag = z3.Function('type_tag', V, IntS)


def b_hash(en, st, a, kw):
    v = en.read(a[0], st)
    return [(st, V.Int(hash_of(v)))]


hash_of = z3.Function('hash_of', V, IntS)


def b_sorted(en, st, a, kw):
    return [(st, V.List(fresh('sorted', VL)))]


def b_min(en, st, a, kw):
    return [(st.tainted(), fresh('min'))]


BUILTINS = {'isfinite': b_isfinite, 'floor': b_floor, 'int': b_int, 'float': b_float, 'str': b_str, 'bool': b_bool, 'repr': b_repr,
            'len': b_len, 'list': b_list, 'dict': b_dict, 'set': b_set, 'tuple': b_tuple, 'enumerate': b_enumerate, 'zip': b_zip,
            'reversed': b_reversed, 'range': b_range, 'callable': b_callable, 'partial': b_partial, 'gather': b_gather,
            'iscoroutinefunction': b_iscoroutinefunction, 'isasyncgenfunction': b_iscoroutinefunction,
            'get_close_matches': b_get_close_matches, 'print': b_print, 'id': b_id, 'type': b_type, 'hash': b_hash, 'sorted': b_sorted}
EXTERNALS = {'math.isfinite': b_isfinite, 'math.floor': b_floor, 'functools.partial': b_partial, 'asyncio.gather': b_gather,
             'difflib.get_close_matches': b_get_close_matches, 'inspect.iscoroutinefunction': b_iscoroutinefunction,
             'inspect.isasyncgenfunction': b_iscoroutinefunction, 'asyncio.iscoroutinefunction': b_iscoroutinefunction}


# --------------------------------------------------------------------------- container / str methods
def _content(en, st, recv):
    return en.read(recv, st)


def m_append(en, st, recv, a, kw):
    t, st = en.term(a[0], st)
    cur = en.read(recv, st)
    return [(en.mutate(recv, st, V.List(snoc(V.items(cur), t))), V.None_)]


def m_insert(en, st, recv, a, kw):
    i = z3.simplify(en.read(a[0], st))
    if not (z3.is_app(i) and i.decl().name() == 'Int' and z3.is_int_value(i.arg(0)) and i.arg(0).as_long() == 0):
        raise SX.OutOfSubset("list.insert at a position other than 0")
    t, st = en.term(a[1], st)
    cur = en.read(recv, st)
    return [(en.mutate(recv, st.assume(V.is_List(cur)), V.List(VL.cons(t, V.items(cur)))), V.None_)]


def m_extend(en, st, recv, a, kw):
    t = en.read(a[0], st)
    cur = en.read(recv, st)
    add = z3.If(V.is_List(t), V.items(t), V.titems(t))
    s = st.assume(z3.Or(V.is_List(t), V.is_Tuple(t)))
    bad = en.fork(st, z3.Not(z3.Or(V.is_List(t), V.is_Tuple(t))))
    out = [(en.mutate(recv, s, V.List(app(V.items(cur), add))), V.None_)]
    if bad is not None:
        out.append((bad.tainted(), fresh('extend_iter')))
    return out


def m_get(en, st, recv, a, kw):
    if isinstance(recv, SX.KwBundle):
        raise SX.OutOfSubset("kwargs.get")
    c = en.read(recv, st)
    k = en.read(a[0], st)
    d = en.read(a[1], st) if len(a) > 1 else V.None_
    lk = lookup(V.ditems(c), k)
    return en.branches(st, [(z3.And(V.is_Dict(c), lk != V.Missing), lk), (z3.And(V.is_Dict(c), lk == V.Missing), d),
                            (z3.Not(V.is_Dict(c)), _E(en, 'AttributeError'))])


def m_items(en, st, recv, a, kw):
    return [(st, SX.PyIter([('items', recv)]))]


def m_keys(en, st, recv, a, kw):
    return [(st, SX.PyIter([('keys', recv)]))]


def m_values(en, st, recv, a, kw):
    return [(st, SX.PyIter([('values', recv)]))]


def m_add(en, st, recv, a, kw):
    t, st = en.term(a[0], st)
    cur = en.read(recv, st)
    return [(en.mutate(recv, st, V.Set(z3.If(mem(V.sitems(cur), t), V.sitems(cur), snoc(V.sitems(cur), t)))), V.None_)]


def m_startswith(en, st, recv, a, kw):
    s = en.read(recv, st)
    p = z3.simplify(en.read(a[0], st))
    if z3.is_app(p) and p.decl().name() == 'Str' and z3.is_int_value(p.arg(0)) and interned_text(p.arg(0).as_long()) == '__':
        return [(st, V.Bool(str_dunder(V.s(s))))]
    return [(st, V.Bool(fresh('startswith', BoolS)))]


def m_join(en, st, recv, a, kw):
    return [(st, V.Str(fresh('join', IntS)))]


def m_format(en, st, recv, a, kw):
    return [(st, V.Str(fresh('format', IntS)))]


def m_lower(en, st, recv, a, kw):
    s = en.read(recv, st)
    return [(st, V.Str(str_lower(V.s(s))))]


str_lower = z3.Function('str_lower', IntS, IntS)


def m_pop(en, st, recv, a, kw):
    if isinstance(recv, SX.KwBundle):
        k = z3.simplify(en.read(a[0], st))
        name = interned_text(k.arg(0).as_long()) if z3.is_app(k) and k.decl().name() == 'Str' and z3.is_int_value(k.arg(0)) else None
        if name is None:
            raise SX.OutOfSubset("kwargs.pop with symbolic key")
        if name in recv.known:
            v = recv.known.pop(name)
            return [(st, v)]
        if recv.rest is None:
            return [(st, a[1])] if len(a) > 1 else [(st, _E(en, 'KeyError'))]
        raise SX.OutOfSubset("kwargs.pop on an opaque bundle")
    if isinstance(recv, SX.PyRef) and recv.kind == 'list' and len(a) == 0:
        cur = en.read(recv, st)
        n = length(V.items(cur))
        out = []
        q = en.fork(st, n > 0)
        if q is not None:
            out.append((en.mutate(recv, q, V.List(take(V.items(cur), n - 1))), nth(V.items(cur), n - 1)))
        q = en.fork(st, n <= 0)
        if q is not None:
            out.append((q, _E(en, 'IndexError')))
        return out
    raise SX.OutOfSubset("pop")


def m_setdefault(en, st, recv, a, kw):
    c = en.read(recv, st)
    k, st = en.term(a[0], st)
    d, st = en.term(a[1], st) if len(a) > 1 else (V.None_, st)
    lk = lookup(V.ditems(c), k)
    out = []
    q = en.fork(st, lk != V.Missing)
    if q is not None:
        out.append((q, SX.ItemRef(recv, k, lk)))
    q = en.fork(st, lk == V.Missing)
    if q is not None:
        q = en.mutate(recv, q, V.Dict(snoc(V.ditems(c), V.Pair(k, d))))
        out.append((q, SX.ItemRef(recv, k, d)))
    return out


def m_update(en, st, recv, a, kw):
    raise SX.OutOfSubset("dict.update")


def m_copy(en, st, recv, a, kw):
    cur = en.read(recv, st)
    kind = 'dict' if isinstance(recv, SX.PyRef) and recv.kind == 'dict' else 'list'
    s, r = en.new_ref(st, kind, cur)
    return [(s, r)]


def m_split(en, st, recv, a, kw):
    return [(st, V.List(fresh('split', VL)))]


def m_strip(en, st, recv, a, kw):
    return [(st, V.Str(fresh('strip', IntS)))]


def m_encode(en, st, recv, a, kw):
    return [(st, fresh('bytes'))]


def m_index(en, st, recv, a, kw):
    return [(st.tainted(), fresh('index'))]


def m_bit_length(en, st, recv, a, kw):
    v = en.read(recv, st)
    n = int_of(v)
    mag = z3.If(n < 0, -n, n)
    bl = fresh('bitlen', IntS)
    facts = [bl >= 0, (bl == 0) == (mag == 0)] + [(bl <= k) == (mag < 2 ** k) for k in (1, 7, 8, 15, 16, 31, 32, 53, 63, 64)]
    out = []
    q = en.fork(st, is_intlike(v))
    if q is not None:
        out.append((q.assume(*facts), V.Int(bl)))
    q = en.fork(st, z3.Not(is_intlike(v)))
    if q is not None:
        out.append((q, _E(en, 'AttributeError')))
    return out


def m_popitem(en, st, recv, a, kw):
    cur = en.read(recv, st)
    n = length(V.ditems(cur))
    out = []
    q = en.fork(st, n > 0)
    if q is not None:
        last = nth(V.ditems(cur), n - 1)
        out.append((en.mutate(recv, q, V.Dict(take(V.ditems(cur), n - 1))), SX.PyTuple([V.fst(last), V.snd(last)])))
    q = en.fork(st, n <= 0)
    if q is not None:
        out.append((q, _E(en, 'KeyError')))
    return out


def m_decode(en, st, recv, a, kw):
    """bytes.decode(): text or UnicodeDecodeError (a ValueError); str has no decode"""
    v = en.read(recv, st)
    out = []
    q = en.fork(st, V.is_Str(v))
    if q is not None:
        out.append((q, _E(en, 'AttributeError')))
    q = en.fork(st, z3.Not(V.is_Str(v)))
    if q is not None:
        out.append((q, V.Str(fresh('decoded', IntS))))
        out.append((q, _E(en, 'UnicodeError')))
    return out


set_inter = z3.Function('set_inter', VL, VL, VL)       # intersection of two sets (as item lists): uninterpreted, shared with specifications


def m_intersection(en, st, recv, a, kw):
    x, y = en.read(recv, st), en.read(a[0], st)
    return [(st.assume(V.is_Set(x)), V.Set(set_inter(V.sitems(x), z3.If(V.is_Set(y), V.sitems(y), V.items(y)))))]


METHODS = {'intersection': m_intersection, 'bit_length': m_bit_length, 'popitem': m_popitem, 'decode': m_decode, 'append': m_append, 'insert': m_insert, 'extend': m_extend, 'get': m_get, 'items': m_items, 'keys': m_keys, 'values': m_values, 'add': m_add,
           'startswith': m_startswith, 'join': m_join, 'format': m_format, 'lower': m_lower, 'pop': m_pop, 'setdefault': m_setdefault,
           'update': m_update, 'copy': m_copy, 'split': m_split, 'strip': m_strip, 'encode': m_encode, 'index': m_index}
