"""Value universe of the verifier (DESIGN 2.3) and the recursive list library.

Everything here is *specification vocabulary*: SMT sorts, recursive functions over
cons lists, the abstract float, interned strings.  No repo code is modelled here.
"""
import itertools
import z3

# --------------------------------------------------------------------------- sorts
V = z3.Datatype('V')
VL = z3.Datatype('VL')
V.declare('None_')
V.declare('Undef')                       # tartiflette.constants.UNDEFINED_VALUE
V.declare('Missing')                     # internal: result of a failed lookup (never a Python value)
V.declare('Bool', ('b', z3.BoolSort()))
V.declare('Int', ('i', z3.IntSort()))
# abstract float: fk 0 finite / 1 nan / 2 +inf / 3 -inf ; fl floor ; fint integral ; fid identity
V.declare('Float', ('fk', z3.IntSort()), ('fl', z3.IntSort()), ('fint', z3.BoolSort()), ('fid', z3.IntSort()))
V.declare('Str', ('s', z3.IntSort()))    # string *content* identity (equal ids <=> equal text)
V.declare('Other', ('oid', z3.IntSort()))  # opaque object without numeric / sequence / mapping protocol
V.declare('List', ('items', VL))
V.declare('Tuple', ('titems', VL))
V.declare('Dict', ('ditems', VL))        # association list of Pair(key, value) in insertion order, keys unique
V.declare('Set', ('sitems', VL))         # list without duplicates, insertion order
V.declare('Pair', ('fst', V), ('snd', V))
V.declare('Obj', ('ocls', z3.IntSort()), ('oref', z3.IntSort()))   # instance of a class of the class table
V.declare('Fun', ('fname', z3.IntSort()), ('fbound', VL))          # callable: head id + bound keyword arguments
V.declare('Cls', ('cid', z3.IntSort()))  # a class object used as a value (type(x), exception classes)
VL.declare('nil')
VL.declare('cons', ('hd', V), ('tl', VL))
V, VL = z3.CreateDatatypes(V, VL)

IntS, BoolS = z3.IntSort(), z3.BoolSort()
_fresh = itertools.count()


def fresh(name, sort=None):
    return z3.Const(f"{name}!{next(_fresh)}", V if sort is None else sort)


# --------------------------------------------------------------------------- strings
_interned = {}
_interned_rev = {}


def strid(text):
    if text not in _interned:
        k = 1000 + len(_interned)
        _interned[text] = k
        _interned_rev[k] = text
    return _interned[text]


def S(text):
    return V.Str(strid(text))


def interned_text(k):
    return _interned_rev.get(k)


str_empty = z3.Function('str_empty', IntS, BoolS)
str_dunder = z3.Function('str_dunder', IntS, BoolS)        # text.startswith("__")
str2float = z3.Function('str2float', IntS, V)              # float(text): Float(...) or the ValueError marker
str2int = z3.Function('str2int', IntS, V)                  # int(text): Int(...) or the ValueError marker
int2str = z3.Function('int2str', IntS, IntS)               # str(int)
any2str = z3.Function('any2str', V, IntS)                  # str(x) for anything else
lexical_int = z3.Function('lexical_int', IntS, BoolS)      # text obeys the GraphQL IntValue grammar
lexical_float = z3.Function('lexical_float', IntS, BoolS)  # text obeys the GraphQL FloatValue grammar
VALUE_ERROR = V.Other(-1)                                   # marker "conversion raises ValueError"


def interned_axioms():
    ax = []
    for t, k in list(_interned.items()):
        ax.append(str_empty(k) == (t == ''))
        ax.append(str_dunder(k) == t.startswith('__'))
    return ax


# --------------------------------------------------------------------------- floats
FLOAT_OVF = 2 ** 1024 - 2 ** 970

def wf_float(v):
    return z3.And(V.fk(v) >= 0, V.fk(v) <= 3,
                  z3.Implies(V.fk(v) == 0,
                             z3.And(V.fl(v) < 2 ** 1024, V.fl(v) > -2 ** 1024,
                                    z3.Implies(z3.Or(V.fl(v) >= 2 ** 52, V.fl(v) <= -2 ** 52), V.fint(v)))))


def finite(v):
    return z3.And(V.is_Float(v), V.fk(v) == 0)


def string_axioms_for(sid):
    """ground instances of the assumed contracts of float(str) / int(str) for one string id"""
    f, n = str2float(sid), str2int(sid)
    return [z3.Or(z3.And(V.is_Float(f), wf_float(f)), f == VALUE_ERROR),
            z3.Or(V.is_Int(n), n == VALUE_ERROR),
            # blank text converts to nothing
            z3.Implies(str_empty(sid), z3.And(f == VALUE_ERROR, n == VALUE_ERROR)),
            # int() accepting a text implies float() accepts it with the same value (where exactly representable)
            z3.Implies(V.is_Int(n), z3.And(V.is_Float(f), V.fk(f) != 1,
                                           z3.Implies(V.fk(f) == 0, z3.And(V.fint(f), z3.Implies(z3.And(V.i(n) <= 2 ** 53, V.i(n) >= -2 ** 53), V.fl(f) == V.i(n)))),
                                           # round-to-nearest: decimal integers below 2^1024 - 2^970 convert to a finite double, the others to +-inf
                                           z3.Implies(z3.And(V.i(n) < FLOAT_OVF, V.i(n) > -FLOAT_OVF), V.fk(f) == 0),
                                           z3.Implies(V.i(n) >= FLOAT_OVF, V.fk(f) == 2), z3.Implies(V.i(n) <= -FLOAT_OVF, V.fk(f) == 3))),
            # lexically valid numeric text: float() defined and not NaN; int grammar => int() defined
            z3.Implies(z3.Or(lexical_int(sid), lexical_float(sid)), z3.And(V.is_Float(f), V.fk(f) != 1)),
            z3.Implies(lexical_int(sid), V.is_Int(n))]


# --------------------------------------------------------------------------- list library (recursive functions)
_l, _m = z3.Consts('l_ m_', VL)
_x, _y = z3.Consts('x_ y_', V)
_k = z3.Int('k_')

length = z3.RecFunction('length', VL, IntS)
z3.RecAddDefinition(length, [_l], z3.If(VL.is_nil(_l), 0, 1 + length(VL.tl(_l))))
nth = z3.RecFunction('nth', VL, IntS, V)
z3.RecAddDefinition(nth, [_l, _k], z3.If(VL.is_nil(_l), V.Missing, z3.If(_k <= 0, VL.hd(_l), nth(VL.tl(_l), _k - 1))))
app = z3.RecFunction('app', VL, VL, VL)
z3.RecAddDefinition(app, [_l, _m], z3.If(VL.is_nil(_l), _m, VL.cons(VL.hd(_l), app(VL.tl(_l), _m))))
mem = z3.RecFunction('mem', VL, V, BoolS)
z3.RecAddDefinition(mem, [_l, _x], z3.If(VL.is_nil(_l), False, z3.Or(VL.hd(_l) == _x, mem(VL.tl(_l), _x))))
lookup = z3.RecFunction('lookup', VL, V, V)       # association list -> value or Missing
z3.RecAddDefinition(lookup, [_l, _x], z3.If(VL.is_nil(_l), V.Missing,
                                               z3.If(V.fst(VL.hd(_l)) == _x, V.snd(VL.hd(_l)), lookup(VL.tl(_l), _x))))
assoc_set = z3.RecFunction('assoc_set', VL, V, V, VL)   # dict[k] = v : replace in place or append
z3.RecAddDefinition(assoc_set, [_l, _x, _y], z3.If(VL.is_nil(_l), VL.cons(V.Pair(_x, _y), VL.nil),
                                                    z3.If(V.fst(VL.hd(_l)) == _x, VL.cons(V.Pair(_x, _y), VL.tl(_l)),
                                                          VL.cons(VL.hd(_l), assoc_set(VL.tl(_l), _x, _y)))))
index_of = z3.RecFunction('index_of', VL, V, z3.IntSort())   # position of a key in an association list (its length when absent)
z3.RecAddDefinition(index_of, [_l, _x], z3.If(VL.is_nil(_l), 0, z3.If(V.fst(VL.hd(_l)) == _x, 0, 1 + index_of(VL.tl(_l), _x))))
keys = z3.RecFunction('keys', VL, VL)
z3.RecAddDefinition(keys, [_l], z3.If(VL.is_nil(_l), VL.nil, VL.cons(V.fst(VL.hd(_l)), keys(VL.tl(_l)))))
vals = z3.RecFunction('vals', VL, VL)
z3.RecAddDefinition(vals, [_l], z3.If(VL.is_nil(_l), VL.nil, VL.cons(V.snd(VL.hd(_l)), vals(VL.tl(_l)))))
rev_onto = z3.RecFunction('rev_onto', VL, VL, VL)
z3.RecAddDefinition(rev_onto, [_l, _m], z3.If(VL.is_nil(_l), _m, rev_onto(VL.tl(_l), VL.cons(VL.hd(_l), _m))))
take = z3.RecFunction('take', VL, IntS, VL)
z3.RecAddDefinition(take, [_l, _k], z3.If(z3.Or(VL.is_nil(_l), _k <= 0), VL.nil, VL.cons(VL.hd(_l), take(VL.tl(_l), _k - 1))))
drop = z3.RecFunction('drop', VL, IntS, VL)
z3.RecAddDefinition(drop, [_l, _k], z3.If(z3.Or(VL.is_nil(_l), _k <= 0), _l, drop(VL.tl(_l), _k - 1)))


list_set = z3.RecFunction('list_set', VL, IntS, V, VL)        # l[i] = v (0 <= i < length l)
z3.RecAddDefinition(list_set, [_l, _k, _x], z3.If(VL.is_nil(_l), VL.nil, z3.If(_k <= 0, VL.cons(_x, VL.tl(_l)), VL.cons(VL.hd(_l), list_set(VL.tl(_l), _k - 1, _x)))))


def snoc(l, x):
    return app(l, VL.cons(x, VL.nil))


def mklist(*xs):
    l = VL.nil
    for x in reversed(xs):
        l = VL.cons(x, l)
    return l


def concrete_list(l):
    """python list of element terms if `l` is a syntactically closed cons chain, else None"""
    out = []
    l = z3.simplify(l)
    while True:
        if z3.is_app(l) and l.decl().name() == 'nil':
            return out
        if z3.is_app(l) and l.decl().name() == 'cons':
            out.append(l.arg(0))
            l = l.arg(1)
            continue
        return None


def list_lemmas(terms):
    """ground instances of proved list facts for the VL terms occurring in `terms`
    (length >= 0; app(l, nil) == l; length(app) ; nth of snoc) -- instantiated, never quantified (DESIGN 2.10)."""
    import collections
    seen, out, stack = set(), [], collections.deque((t, 0) for t in terms)
    while stack:
        e, depth = stack.popleft()      # breadth first: every term of the query itself is visited at depth 0
        if e.get_id() in seen:
            continue
        seen.add(e.get_id())
        n_before = len(out)
        if z3.is_app(e):
            n = e.decl().name()
            if n == 'length':
                out.append(length(e.arg(0)) >= 0)
                out.append((length(e.arg(0)) == 0) == VL.is_nil(e.arg(0)))
            elif n == 'app':
                a, b = e.arg(0), e.arg(1)
                out.append(length(e) == length(a) + length(b))
                out.append(z3.Implies(VL.is_nil(b), e == a))
                out.append(length(a) >= 0)
                out.append(length(b) >= 0)
                out.append(VL.is_nil(e) == z3.And(VL.is_nil(a), VL.is_nil(b)))
                if z3.is_app(a) and a.decl().name() == 'app':
                    out.append(e == app(a.arg(0), app(a.arg(1), b)))
            elif n == 'list_set':
                out.append(length(e) == length(e.arg(0)))
            elif n == 'keys' or n == 'vals':
                out.append(length(e) == length(e.arg(0)))
            elif n == 'nth':
                l, k = e.arg(0), e.arg(1)
                if z3.is_app(l) and l.decl().name() == 'keys':
                    out.append(z3.Implies(z3.And(k >= 0, k < length(l.arg(0))), e == V.fst(nth(l.arg(0), k))))
                    out.append(length(l.arg(0)) >= 0)
                elif z3.is_app(l) and l.decl().name() == 'vals':
                    out.append(z3.Implies(z3.And(k >= 0, k < length(l.arg(0))), e == V.snd(nth(l.arg(0), k))))
                    out.append(length(l.arg(0)) >= 0)
                elif z3.is_app(l) and l.decl().name() == 'take':
                    out.append(z3.Implies(z3.And(k >= 0, k < l.arg(1)), e == nth(l.arg(0), k)))
                elif z3.is_app(l) and l.decl().name() == 'list_set':
                    # nth(list_set(l0, i, v), k) = v if k == i (in range) else nth(l0, k)   (induction on l0)
                    out.append(z3.Implies(z3.And(l.arg(1) >= 0, l.arg(1) < length(l.arg(0))), e == z3.If(k == l.arg(1), l.arg(2), nth(l.arg(0), k))))
                elif z3.is_app(l) and l.decl().name() == 'app':
                    a, b = l.arg(0), l.arg(1)
                    out.append(z3.Implies(z3.And(k >= 0, k < length(a)), e == nth(a, k)))
                    out.append(z3.Implies(k >= length(a), e == nth(b, k - length(a))))
                    out.append(length(a) >= 0)
            elif n == 'assoc_set':
                l0, k0, v0 = e.arg(0), e.arg(1), e.arg(2)
                if z3.is_app(l0) and l0.decl().name() == 'app' and z3.is_app(l0.arg(1)) and l0.arg(1).decl().name() == 'cons':
                    a, last = l0.arg(0), l0.arg(1)
                    # updating the entry that was just appended under a new key (induction on a)
                    out.append(z3.Implies(z3.And(VL.is_nil(VL.tl(last)), V.fst(VL.hd(last)) == k0, lookup(a, k0) == V.Missing),
                                          e == app(a, VL.cons(V.Pair(k0, v0), VL.nil))))
                out.append(lookup(e, k0) == v0)
            elif n == 'lookup':
                l, k = e.arg(0), e.arg(1)
                if z3.is_app(l) and l.decl().name() == 'assoc_set':
                    out.append(z3.If(l.arg(1) == k, e == l.arg(2), e == lookup(l.arg(0), k)))
                if z3.is_app(l) and l.decl().name() == 'app':
                    out.append(e == z3.If(lookup(l.arg(0), k) != V.Missing, lookup(l.arg(0), k), lookup(l.arg(1), k)))
                if z3.is_app(l) and l.decl().name() == 'take' and depth < 1:
                    # lookup in a prefix one longer: the shorter prefix first, then the added entry (induction on the list)
                    l0, a = l.arg(0), l.arg(1)
                    prev = lookup(take(l0, a - 1), k)
                    out.append(z3.Implies(z3.And(a > 0, a <= length(l0)),
                                          e == z3.If(prev != V.Missing, prev, z3.If(V.fst(nth(l0, a - 1)) == k, V.snd(nth(l0, a - 1)), V.Missing))))
                    out.append(z3.Implies(a <= 0, e == V.Missing))
            elif n == 'take':
                l0 = e.arg(0)
                if z3.is_app(l0) and l0.decl().name() == 'take':
                    out.append(z3.Implies(e.arg(1) <= l0.arg(1), e == take(l0.arg(0), e.arg(1))))
                if z3.is_app(l0) and l0.decl().name() == 'app':
                    out.append(z3.Implies(e.arg(1) == length(l0.arg(0)), e == l0.arg(0)))
                    out.append(length(l0.arg(0)) >= 0)
                out.append(z3.Implies(z3.And(e.arg(1) >= 0, e.arg(1) <= length(e.arg(0))), length(e) == e.arg(1)))
                if depth < 1:
                    # take(l, a) = take(l, a-1) ++ [l[a-1]]   (0 < a <= length l; induction on l)
                    out.append(z3.Implies(z3.And(e.arg(1) > 0, e.arg(1) <= length(e.arg(0))),
                                          e == app(take(e.arg(0), e.arg(1) - 1), VL.cons(nth(e.arg(0), e.arg(1) - 1), VL.nil))))
                out.append(z3.Implies(e.arg(1) >= length(e.arg(0)), e == e.arg(0)))
                out.append(length(e.arg(0)) >= 0)
            if n in UNFOLD and depth < 1:
                out.append(z3.simplify(e == UNFOLD[n](*[e.arg(i) for i in range(e.num_args())])))
            for hook in LEMMA_HOOKS:
                out += hook(e, n)
            stack.extend((c, depth) for c in e.children())
            if depth < 2:
                # lemma instances mention new list terms: instantiate for those too (bounded depth)
                stack.extend((f, depth + 1) for f in out[n_before:])
        # quantifier bodies are not visited: their terms contain bound variables
    return out


UNFOLD = {}           # rec-function name -> python function building its body: definitional instances made syntactically present
LEMMA_HOOKS = []      # functions (term, head name) -> ground instances of lemmas proved by induction elsewhere


def _index_of_lemmas(e, n):
    """positions in association lists (each proved by induction in pyvc/listlib.py): a present key sits below the length; dict stores keep the
    position of every key already present and put a new key at the end"""
    if n != 'index_of':
        return []
    l, key = e.arg(0), e.arg(1)
    out = [z3.And(e >= 0, e <= length(l)), z3.Implies(lookup(l, key) != V.Missing, e < length(l))]
    if z3.is_app(l) and l.decl().name() == 'assoc_set':
        l0, k = l.arg(0), l.arg(1)
        out.append(z3.Implies(lookup(l0, key) != V.Missing, e == index_of(l0, key)))
        out.append(z3.Implies(z3.And(index_of(l0, k) == length(l0), key == k), e == length(l0)))      # structurally absent key: appended
        out.append(z3.Implies(z3.And(key != k, index_of(l0, key) == length(l0)), e == length(l)))         # another key's store keeps an absent key absent
        out.append(length(l) == z3.If(index_of(l0, k) == length(l0), length(l0) + 1, length(l0)))          # a store appends exactly when the key is absent
    return out


LEMMA_HOOKS.append(_index_of_lemmas)


def collect_apps(exprs, names):
    seen, out, stack = set(), [], list(exprs)
    while stack:
        e = stack.pop()
        if e.get_id() in seen:
            continue
        seen.add(e.get_id())
        if z3.is_app(e):
            if e.decl().name() in names:
                out.append(e)
            stack.extend(e.children())
    return out


_AX_CACHE = {}      # expr id -> (expr kept alive, facts): instantiated background facts depend on the term only
_SIMP_CACHE = {}


def _resolve_lookups(e):
    """lookup(assoc_set(l, k, v), k') with syntactically decidable keys is rewritten by the definition of dict stores (k' == k: v; k' and k distinct
    constants: lookup(l, k')), bottom-up, so that chains of stores into nested dictionaries become visible to the syntactic lemma instantiation"""
    cache = {}

    def go(t):
        key = t.get_id()
        if key in cache:
            return cache[key]
        if not z3.is_app(t) or t.num_args() == 0:
            cache[key] = t
            return t
        kids = [go(c) for c in t.children()]
        r = t
        if any(not a.eq(b) for a, b in zip(kids, t.children())):
            r = t.decl()(*kids)
        if z3.is_app(r) and r.num_args() == 1 and z3.is_app(r.arg(0)) and r.arg(0).num_args() == 1 and \
                (r.decl().name(), r.arg(0).decl().name()) in (('ditems', 'Dict'), ('items', 'List'), ('titems', 'Tuple'), ('sitems', 'Set')):
            r = r.arg(0).arg(0)          # accessor of its own constructor
        if z3.is_app(r) and r.decl().name() == 'lookup':
            l, k = r.arg(0), r.arg(1)
            while z3.is_app(l) and l.decl().name() == 'assoc_set':
                same = z3.simplify(l.arg(1) == k)
                if z3.is_true(same):
                    r = l.arg(2); break
                if z3.is_false(same):
                    l = l.arg(0)
                    r = lookup(l, k)
                    continue
                break
        cache[key] = r
        return r
    try:
        return go(e)
    except z3.Z3Exception:
        return e


def simp(e):
    k = e.get_id()
    hit = _SIMP_CACHE.get(k)
    if hit is None:
        r = z3.simplify(e)
        if not _has_quantifier(r):
            r2 = _resolve_lookups(r)
            if not r2.eq(r):
                r = z3.simplify(r2)
        hit = (e, r)
        _SIMP_CACHE[k] = hit
    return hit[1]


def _axioms_for(e):
    k = e.get_id()
    hit = _AX_CACHE.get(k)
    if hit is None:
        ax = []
        done = set()
        for t in collect_apps([e], ('str2float', 'str2int')):
            sid = t.arg(0)
            if sid.get_id() in done:
                continue
            done.add(sid.get_id())
            ax += string_axioms_for(sid)
        ax += list_lemmas([e])
        hit = (e, ax)
        _AX_CACHE[k] = hit
    return hit[1]


def ground_axioms(exprs):
    """all instantiated background facts for a query over `exprs` (per-expression, cached)"""
    ax, seen = [], set()
    for e in exprs:
        for f in _axioms_for(e):
            if f.get_id() not in seen:
                seen.add(f.get_id())
                ax.append(f)
    for _round in range(2):     # elimination instances may expose further All_ facts (nested collections)
        base = list(exprs) + ax
        new = 0
        for f in forall_elim_facts(base):
            if f.get_id() not in seen:
                seen.add(f.get_id())
                ax.append(f)
                new += 1
                for g in _axioms_for(f):
                    if g.get_id() not in seen:
                        seen.add(g.get_id())
                        ax.append(g)
        if not new:
            break
    return ax + interned_axioms()


# --------------------------------------------------------------------------- python protocol helpers (terms)
def is_num(v):
    return z3.Or(V.is_Bool(v), V.is_Int(v), V.is_Float(v))


def is_intlike(v):
    return z3.Or(V.is_Bool(v), V.is_Int(v))


def int_of(v):
    return z3.If(V.is_Bool(v), z3.If(V.b(v), 1, 0), V.i(v))


def num(v):
    """the integer a number denotes when it is integral (floor otherwise)"""
    return z3.If(V.is_Int(v), V.i(v), z3.If(V.is_Bool(v), z3.If(V.b(v), 1, 0), V.fl(v)))


# --------------------------------------------------------------------------- abstraction of recursive definitions
_TWINS = {}


def _twin(decl):
    key = decl.name()
    if key not in _TWINS:
        doms = [decl.domain(i) for i in range(decl.arity())]
        g = z3.Function(key + '!u', *doms, decl.range())
        body = g(*[z3.Var(decl.arity() - 1 - i, doms[i]) for i in range(decl.arity())]) if False else None
        _TWINS[key] = (decl, g)
    return _TWINS[key]


_DECL_CACHE = {}


def _rec_decls(x):
    k = x.get_id()
    hit = _DECL_CACHE.get(k)
    if hit is None:
        decls = {}
        seen, stack = set(), [x]
        while stack:
            e = stack.pop()
            if e.get_id() in seen:
                continue
            seen.add(e.get_id())
            if z3.is_app(e):
                d = e.decl()
                if d.kind() == z3.Z3_OP_RECURSIVE:
                    decls[d.name()] = d
                stack.extend(e.children())
            elif z3.is_quantifier(e):
                stack.append(e.body())
        hit = (x, decls)
        _DECL_CACHE[k] = hit
    return hit[1]


_Q_CACHE = {}


def _has_quantifier(x):
    k = x.get_id()
    hit = _Q_CACHE.get(k)
    if hit is None:
        found = False
        seen, stack = set(), [x]
        while stack and not found:
            e = stack.pop()
            if e.get_id() in seen:
                continue
            seen.add(e.get_id())
            if z3.is_quantifier(e):
                found = True
            elif z3.is_app(e):
                stack.extend(e.children())
        hit = (x, found)
        _Q_CACHE[k] = hit
    return hit[1]


def abstract_recs(exprs):
    """replace every recursive function by an uninterpreted twin: the result is implied-weaker (fewer facts), so
    `unsat` of the abstracted query implies `unsat` of the original one, and `sat`/`unknown` decide nothing."""
    # formulas with quantifiers are left out (substitution templates would clash with bound variables): dropping constraints only
    # weakens the query, so `unsat` stays sound
    exprs = [x for x in exprs if not _has_quantifier(x)]
    decls = {}
    for x in exprs:
        decls.update(_rec_decls(x))
    if not decls:
        return list(exprs)
    subs = []
    for name, d in decls.items():
        _, g = _twin(d)
        n = d.arity()
        # de Bruijn: Var(0) is the LAST argument in substitute_funs templates
        subs.append((d, g(*[z3.Var(i, d.domain(i)) for i in range(n)])))
    return [z3.substitute_funs(e, *subs) for e in exprs]


# --------------------------------------------------------------------------- "every element satisfies P" for cons lists
class ForallList:
    """AllP(l, params...), defined by recursion from the END of the list (so appending unfolds by definition), together with
    the instantiated consequences  AllP(l) & 0 <= k < length(l) => P(nth(l, k))  (provable by induction on l)."""
    _made = {}

    def __init__(self, name, pred, param_sorts=()):
        self.name, self.pred, self.param_sorts = 'All_' + name, pred, tuple(param_sorts)
        l = z3.Const('fl_', VL)
        ps = [z3.Const(f'flp{i}_', srt) for i, srt in enumerate(self.param_sorts)]
        self.fn = z3.RecFunction(self.name, VL, *self.param_sorts, BoolS)
        z3.RecAddDefinition(self.fn, [l] + ps, self._body(l, *ps))
        UNFOLD[self.name] = self._body
        LEMMA_HOOKS.append(self._hook)
        ForallList._made[self.name] = self
        self.implied_by = []       # ListImplication objects concluding this predicate

    def _body(self, l, *ps):
        n = length(l)
        return z3.If(n <= 0, True, z3.And(self.fn(take(l, n - 1), *ps), self.pred(nth(l, n - 1), *ps)))

    def __call__(self, l, *ps):
        return self.fn(l, *ps)

    def _hook(self, e, n):
        if n == self.name:
            l = e.arg(0)
            ps = [e.arg(i) for i in range(1, e.num_args())]
            out = [z3.Implies(VL.is_nil(l), e)]
            if z3.is_app(l) and l.decl().name() == 'app':
                out.append(e == z3.And(self.fn(l.arg(0), *ps), self.fn(l.arg(1), *ps)))
            if z3.is_app(l) and l.decl().name() == 'list_set':
                # overwriting one position keeps the predicate when the new element satisfies it (induction on the list)
                out.append(z3.Implies(z3.And(self.fn(l.arg(0), *ps), self.pred(l.arg(2), *ps)), e))
            if z3.is_app(l) and l.decl().name() == 'assoc_set':
                # replacing or appending one entry keeps the predicate when the new entry satisfies it (induction on the list)
                out.append(z3.Implies(z3.And(self.fn(l.arg(0), *ps), self.pred(V.Pair(l.arg(1), l.arg(2)), *ps)), e))
            if z3.is_app(l) and l.decl().kind() == z3.Z3_OP_ITE:
                out.append(e == z3.If(l.arg(0), self.fn(l.arg(1), *ps), self.fn(l.arg(2), *ps)))
            for imp in self.implied_by:
                out.append(imp.instance(l, ps))
            return out
        return []

    def elem(self, l, k, *ps):
        """instance of the elimination lemma for one index"""
        return z3.Implies(z3.And(self.fn(l, *ps), k >= 0, k < length(l)), self.pred(nth(l, k), *ps))


def _forall_nth_hook(e, n):
    """AllP(l, ps) & 0 <= k < length(l) => P(nth(l,k), ps): instantiated for the AllP(l, ps) facts that mention the same list"""
    return []


class ListImplication:
    """All_P1(l, ps1) & ... & All_Pn(l, psn) => All_Q(l, psq), justified pointwise: the obligation
    forall x. P1(x, ps1) & ... & Pn(x, psn) => Q(x, psq) is discharged as a lemma of the run (induction on l is the meta-argument)."""
    registry = []

    def __init__(self, name, premises, conclusion, param_map):
        # premises: [(ForallList, fn mapping conclusion params -> premise params)]
        self.name, self.premises, self.conclusion, self.param_map = name, premises, conclusion, param_map
        conclusion.implied_by.append(self)
        ListImplication.registry.append(self)

    def instance(self, l, ps):
        prem = [fl.fn(l, *pm(*ps)) for fl, pm in self.premises]
        return z3.Implies(z3.And(*prem), self.conclusion.fn(l, *ps))

    def pointwise(self):
        x = z3.Const('pw_x', V)
        ps = [z3.Const(f'pw_p{i}', srt) for i, srt in enumerate(self.conclusion.param_sorts)]
        hyps = [fl.pred(x, *pm(*ps)) for fl, pm in self.premises]
        return hyps, self.conclusion.pred(x, *ps)


_SUB_CACHE = {}


def _subterm_ids(e):
    k = e.get_id()
    hit = _SUB_CACHE.get(k)
    if hit is None:
        ids, stack = set(), [e]
        while stack:
            x = stack.pop()
            if x.get_id() in ids:
                continue
            ids.add(x.get_id())
            if z3.is_app(x):
                stack.extend(x.children())
        hit = (e, ids)
        _SUB_CACHE[k] = hit
    return hit[1]


class CountList:
    """CountP(l, params...): number of elements of l satisfying the predicate of a ForallList, defined by recursion from the END of the list (so
    appending unfolds by definition); 0 <= CountP(l) <= length(l); the filter lemma  length([x for x in l if P(x)]) == CountP(l)  (induction on l)
    is applied by the comprehension rule of the engine."""
    _made = {}

    def __init__(self, base):
        self.base = base
        self.name = 'Count_' + base.name[4:]
        l = z3.Const('cl_', VL)
        ps = [z3.Const(f'clp{i}_', srt) for i, srt in enumerate(base.param_sorts)]
        self.fn = z3.RecFunction(self.name, VL, *base.param_sorts, IntS)
        z3.RecAddDefinition(self.fn, [l] + ps, self._body(l, *ps))
        UNFOLD[self.name] = self._body
        LEMMA_HOOKS.append(self._hook)
        CountList._made[self.name] = self

    def _body(self, l, *ps):
        n = length(l)
        return z3.If(n <= 0, 0, self.fn(take(l, n - 1), *ps) + z3.If(self.base.pred(nth(l, n - 1), *ps), 1, 0))

    def __call__(self, l, *ps):
        return self.fn(l, *ps)

    def _hook(self, e, n):
        if n == self.name:
            l = e.arg(0)
            ps = [e.arg(i) for i in range(1, e.num_args())]
            # bounds, and: nothing counted iff no element satisfies P (both by induction on l)
            return [z3.And(e >= 0, e <= length(l)), z3.Implies(VL.is_nil(l), e == 0)]
        return []


class MapList:
    """MapF(l, params...) = [F(x, params) for x in l], defined by recursion from the END of the list; length(MapF(l)) == length(l) and
    nth(MapF(l), k) == F(nth(l, k)) (induction on l) are instantiated on the terms of each query."""
    _made = {}

    def __init__(self, name, elem, param_sorts=()):
        self.name, self.elem, self.param_sorts = 'Map_' + name, elem, tuple(param_sorts)
        l = z3.Const('ml_', VL)
        ps = [z3.Const(f'mlp{i}_', srt) for i, srt in enumerate(self.param_sorts)]
        self.fn = z3.RecFunction(self.name, VL, *self.param_sorts, VL)
        z3.RecAddDefinition(self.fn, [l] + ps, self._body(l, *ps))
        UNFOLD[self.name] = self._body
        LEMMA_HOOKS.append(self._hook)
        MapList._made[self.name] = self

    def _body(self, l, *ps):
        n = length(l)
        return z3.If(n <= 0, VL.nil, app(self.fn(take(l, n - 1), *ps), VL.cons(self.elem(nth(l, n - 1), *ps), VL.nil)))

    def __call__(self, l, *ps):
        return self.fn(l, *ps)

    def _hook(self, e, n):
        if n == self.name:
            return [length(e) == length(e.arg(0))]
        if n == 'nth' and z3.is_app(e.arg(0)) and e.arg(0).decl().name() == self.name:
            m, k = e.arg(0), e.arg(1)
            ps = [m.arg(i) for i in range(1, m.num_args())]
            return [z3.Implies(z3.And(k >= 0, k < length(m.arg(0))), e == self.elem(nth(m.arg(0), k), *ps))]
        return []


# elimination instances for nth terms: generated per query for the All_* facts present
def forall_elim_facts(exprs):
    alls = collect_apps(exprs, set(ForallList._made))
    nths = collect_apps(exprs, ('nth',))
    lookups = collect_apps(exprs, ('lookup',))
    out = []
    # aliases: a path fact `x == t` (x a constant) lets nth terms over x stand for nth terms over t
    alias = {}
    for e in exprs:
        stack = [e]
        while stack:
            g = stack.pop()
            if z3.is_and(g):
                stack.extend(g.children())
            elif z3.is_eq(g) and g.num_args() == 2:
                for x, t in ((g.arg(0), g.arg(1)), (g.arg(1), g.arg(0))):
                    if z3.is_const(x) and x.decl().kind() == z3.Z3_OP_UNINTERPRETED and z3.is_app(t) and t.num_args() > 0:
                        alias.setdefault(t.get_id(), []).append(x.get_id())
                        if t.decl().name() in ('List', 'Dict', 'Tuple', 'Set') and t.num_args() == 1:
                            alias.setdefault(t.arg(0).get_id(), []).append(x.get_id())
    for a in alls:
        fl = ForallList._made[a.decl().name()]
        l = a.arg(0)
        ps = [a.arg(i) for i in range(1, a.num_args())]
        lids = {l.get_id()}
        if z3.is_app(l) and l.decl().name() in ('items', 'ditems', 'titems', 'sitems') and l.num_args() == 1:
            lids.add(l.arg(0).get_id())     # items(ite(c, x, y)) is built from x as much as from items(x)
        for i in list(lids):
            lids.update(alias.get(i, ()))
        for t in nths:
            # indices of nth terms over this list or over a list built from it (vals/keys/ite/app ...) are tried on it
            if lids & _subterm_ids(t.arg(0)):
                out.append(fl.elem(l, t.arg(1), *ps))
        for t in lookups:
            # association lists: a found entry satisfies the predicate (as a (key, value) pair)
            if lids & _subterm_ids(t.arg(0)):
                out.append(z3.Implies(z3.And(fl.fn(l, *ps), lookup(l, t.arg(1)) != V.Missing), fl.pred(V.Pair(t.arg(1), lookup(l, t.arg(1))), *ps)))
    return out
