"""Contract objects (DESIGN 2.1 step 2, 2.4): one definition yields both the obligations of the function under
contract and the summary its callers are checked against."""
import ast
import os
import time
import traceback
import z3
from .values import *
from .classtable import table
from . import symexec as SX
from .symexec import Engine, State, Raise, OutOfSubset, PyRef, PyTuple, PyFunc, field0, attr0, LoopContract
from . import solve


class Out:
    """an exit of the function: kind 'return' | 'raise', value term, final state"""
    def __init__(self, kind, value, st):
        self.kind, self.value, self.st = kind, value, st


class Contract:
    key = None                 # 'relpath::qualname'
    property_ids = ()
    decorators = None          # expected decorator names (None: do not care)
    self_class = None          # for methods: class of self
    mutable = {}               # param name -> 'list'|'dict'|'set' : containers the function may mutate (frame)
    modifies_fields = ()       # attribute arrays the function may write (frame)
    loops = {}
    comp_effects = {}
    inline = ()
    assumptions = ()
    timeout_ms = 12000         # per-obligation budget of each back end (obligations seen near 4 s on an idle machine went undecided under load)

    def __init__(self, key=None):
        if key is not None:
            self.key = key

    # ---- to be provided by concrete contracts
    def args(self, en, names):
        """parameter name -> symbolic value ; default: fresh constants"""
        a = {}
        for n in names:
            if n == 'self' and self.self_class:
                a[n] = V.Obj(en.T.cid[self.self_class], z3.Int('self_ref'))
            else:
                a[n] = z3.Const(n, V)
        return a

    def pre(self, A, st):
        return []

    def post(self, A, st0, out):
        raise NotImplementedError

    def ghost0(self, A):
        return {}

    def elem_preds(self, A):
        """[(VL term, predicate)]: element-wise preconditions on sequence parameters ("every element satisfies P").
        Used as hypotheses on the elements the body iterates over; at call sites each becomes an obligation."""
        return []

    # ---- derived: summary used at call sites (modular: callers see only this)
    def param_names(self, en):
        node, _ = en.T.functions[self.key]
        a = node.args
        return [x.arg for x in a.posonlyargs + a.args] + [x.arg for x in a.kwonlyargs]

    def bind_call(self, en, st, a, kw):
        node, _ = en.T.functions[self.key]
        saved = en.module
        en.module = self.key.split('::')[0]
        try:
            s = en.bind_params(node, st.copy(env={}), a, kw)
        finally:
            en.module = saved
        if isinstance(s, list):
            return None, s
        A = {}
        st2 = st
        for n in self.param_names(en):
            v = s.env.get(n)
            if n in self.mutable and isinstance(v, PyRef):
                A[n] = v
                continue
            if isinstance(v, (SX.KwBundle,)):
                A[n] = v
                continue
            if isinstance(v, PyFunc) and v.term is None:
                if v.fn is None:
                    # result of an unmodelled attribute / call used as an argument: arbitrary value on a tainted path
                    A[n] = fresh(f"havoc_{n}")
                    st2 = st2.tainted()
                    continue
                A[n] = v
                continue
            t, st2 = en.term(v, st2.copy(heap=s.heap if s.heap is not st.heap else st2.heap))
            A[n] = t
        return A, st2

    def summary(self, en, st, a, kw):
        """callee summary; a call whose arguments are not values of the universe (possible only on paths the quick pruner left in although they are
        infeasible, e.g. the result of an unmodelled attribute) is a havoc on a tainted path instead of a crash of the contract's formulas"""
        n0 = len(en.obligations)
        try:
            return self._summary(en, st, a, kw)
        except (z3.Z3Exception, TypeError, AttributeError) as e:
            del en.obligations[n0:]
            return en.havoc_call(f"{self.key} (argument outside the value universe: {str(e)[:60]})", st)

    def _summary(self, en, st, a, kw):
        if not hasattr(self, 'A') and type(self).args is not Contract.args:
            # auxiliary symbols of the contract (created in args()) are needed by pre/post even when only the summary is used
            self.args(en, self.param_names(en))
            self.summary_only = True
        A, st1 = self.bind_call(en, st, a, kw)
        if getattr(self, 'summary_only', False):
            self.A = A
        if A is None:
            return [(x.copy(env=st.env), v) for x, v in st1]
        st1 = st1.copy(env=st.env)
        for (label, g) in self.pre(A, st1):
            en.oblige(st1, f"call:{self.key.split('::')[1]}:pre:{label}", drop_naming_atoms(g))
        for ep in self.elem_preds(A):
            seq, pred = ep[0], ep[1]
            if len(ep) > 2:
                if en.fork(st1, ep[2]) is None:
                    continue
                guard = ep[2]
                pred = (lambda x, pred=pred, guard=guard: drop_naming_atoms(z3.Implies(guard, pred(x))))
            else:
                pred = (lambda x, pred=pred: drop_naming_atoms(pred(x)))
            xs = concrete_list(z3.simplify(seq))
            if xs is not None:
                for i, x in enumerate(xs):
                    en.oblige(st1, f"call:{self.key.split('::')[1]}:pre:elem{i}", pred(x))
            elif any(z3.simplify(t).eq(z3.simplify(seq)) and p2 is ep[1] and
                     (g2 is None or en.fork(st1.assume(ep[2]) if len(ep) > 2 else st1, z3.Not(g2)) is None) for (t, p2, g2) in st1.elem_preds):
                pass
            else:
                k = z3.Int('ek_')
                en.oblige(st1, f"call:{self.key.split('::')[1]}:pre:all_elems", z3.ForAll([k], z3.Implies(z3.And(k >= 0, k < length(seq)), pred(nth(seq, k)))))
        st2 = self.havoc_frame(en, st1, A)
        # ghost state private to the callee's own proof: unconstrained here (clauses about it say nothing to the caller)
        caller_ghost = st2.ghost
        try:
            private = {k: fresh(f"callee_ghost_{k}", v.sort()) for k, v in self.ghost0(A).items() if k not in caller_ghost}
        except Exception:
            private = {}
        if private:
            st2 = st2.copy(ghost={**caller_ghost, **private})
            st1 = st1.copy(ghost={**st1.ghost, **private})
        outs = []
        r = fresh('ret')
        o = Out('return', r, st2)
        cs = [g for (_, g) in self.post(A, st1, o)]
        q = en.fork(st2, z3.And(*cs) if cs else z3.BoolVal(True))
        if q is not None:
            outs.append((q.copy(ghost=caller_ghost) if private else q, r))
        e = V.Obj(fresh('ecls', IntS), fresh('eref', IntS))
        o = Out('raise', e, st2)
        cs = [g for (_, g) in self.post(A, st1, o)] + [en.is_instance_of(e, 'Exception')]
        q = en.fork(st2, z3.And(*cs))
        if q is not None:
            outs.append((q.copy(ghost=caller_ghost) if private else q, Raise(e)))
        return outs

    def havoc_frame(self, en, st, A):
        heap = dict(st.heap)
        for n, kind in self.mutable.items():
            v = A.get(n)
            if isinstance(v, PyRef):
                heap[v.loc] = {'list': V.List, 'dict': V.Dict, 'set': V.Set}[kind](fresh(f"mod_{n}", VL))
        fields = dict(st.fields)
        for a in self.modifies_fields:
            fields[a] = z3.Array(f"attr:{a}!{next(SX.VAL._fresh)}", V, V)
        ghost = dict(st.ghost)
        for g in getattr(self, 'modifies_ghost', ()):
            ghost[g] = fresh(f"ghost_{g}", st.ghost[g].sort()) if g in st.ghost else None
        return st.copy(heap=heap, fields=fields, ghost=ghost)


def drop_naming_atoms(g):
    """`oref(x) >= 0` says "x exists before the call" (fresh allocations of the callee get negative references).  It is a naming
    convention used while verifying the callee's body, never an obligation of the caller: every argument is old for the callee."""
    subs = []
    seen, stack = set(), [g]
    while stack:
        e = stack.pop()
        if e.get_id() in seen:
            continue
        seen.add(e.get_id())
        if z3.is_app(e):
            if e.decl().kind() == z3.Z3_OP_GE and z3.is_app(e.arg(0)) and e.arg(0).decl().name() == 'oref' and z3.is_int_value(e.arg(1)) and e.arg(1).as_long() == 0:
                subs.append((e, z3.BoolVal(True)))
            stack.extend(e.children())
        elif z3.is_quantifier(e):
            stack.append(e.body())
    return z3.substitute(g, *subs) if subs else g


class Lemma:
    """a named implication between contracts / spec functions (no code involved)"""
    def __init__(self, name, hyps, goal, property_ids=()):
        self.name, self.hyps, self.goal, self.property_ids = name, hyps, goal, property_ids


# --------------------------------------------------------------------------- verification of one function
def verify(contract, registry, tier='quick', mutate=None):
    """-> report dict.  A function that ends `out_of_subset` or crashes is tried again with a larger budget for the feasibility pruner: such verdicts
    on the unchanged tree come from paths the quick pruner could not refute in time (machine load), which then run into constructs outside the subset"""
    rep = None
    for scale in (1, 8, 40):
        rep = _verify_once(contract, registry, tier, mutate, scale)
        # a counter-model on a *tainted* path (an unmodelled construct was met) is the third verdict that unpruned infeasible paths produce
        tainted_open = any(o.get('tainted') and o.get('result') != 'unsat' for o in rep.get('obligations', []))
        if rep.get('status') not in ('out_of_subset', 'crash') and not tainted_open:
            break
    if rep is not None and scale > 1:
        rep.setdefault('notes', []).append(f"pruner budget x{scale}")
    return rep


def _verify_once(contract, registry, tier='quick', mutate=None, prune_scale=1):
    """-> report dict (JSON-able except '_models')"""
    T = table()
    rep = dict(id=contract.key, obligations=[], paths=0, status='ok', notes=[])
    t0 = time.time()
    if contract.key not in T.functions:
        rep.update(status='stale', reason='function not found')
        return rep
    node, sha, src = T.function(contract.key)
    if mutate is not None:
        node = mutate(node)
        sha = 'mutant'
    rep['sha'] = sha
    decos = [d.id if isinstance(d, ast.Name) else (d.attr if isinstance(d, ast.Attribute) else (d.func.id if isinstance(d, ast.Call) and isinstance(d.func, ast.Name) else '?')) for d in node.decorator_list]
    if contract.decorators is not None and list(contract.decorators) != decos:
        rep.update(status='stale', reason=f"decorators {decos} != expected {list(contract.decorators)}")
        return rep
    names = [x.arg for x in node.args.posonlyargs + node.args.args] + [x.arg for x in node.args.kwonlyargs]
    expected = getattr(contract, 'params', None)
    if expected is not None and list(expected) != names:
        rep.update(status='stale', reason=f"parameters {names} != expected {list(expected)}")
        return rep
    SX.number_loops(node)
    reg = {k: c for k, c in registry.items() if k != contract.key or getattr(contract, 'recursive', False)}
    en = Engine(contract.key.split('::')[0], contract=contract, registry=reg, timeout=int(os.environ.get('PYVC_PRUNE_MS', getattr(contract, 'prune_ms', 250))) * prune_scale)
    en.prune2_ms = 60 * prune_scale
    qual = contract.key.split('::')[1]
    if '.' in qual and qual.split('.')[-2] in T.classes:
        en.current_class = qual.split('.')[-2]
    try:
        A = contract.args(en, names)
        st = State(env={}, ghost={})
        env = {}
        for n in names:
            v = A[n]
            if n in contract.mutable and z3.is_expr(v):
                st, ref = en.new_ref(st, contract.mutable[n], v)
                A[n] = ref
                A[n + '@0'] = v
                env[n] = ref
            else:
                env[n] = v
        if node.args.vararg is not None:
            env[node.args.vararg.arg] = A.get(node.args.vararg.arg, PyTuple([]))
        if node.args.kwarg is not None:
            env[node.args.kwarg.arg] = A.get(node.args.kwarg.arg, SX.KwBundle({}, None))
        for k, v in getattr(contract, 'extra_env', lambda en, A: {})(en, A).items():
            env[k] = v
        st = st.copy(env=env, ghost=dict(contract.ghost0(A)), elem_preds=tuple((ep[0], ep[1], (ep[2] if len(ep) > 2 else None)) for ep in contract.elem_preds(A)))
        pre = [g for (_, g) in contract.pre(A, st)]
        if hasattr(contract, 'pre_body'):
            pre += [g for (_, g) in contract.pre_body(A, st)]
        st0 = st.assume(*pre)
        # vacuity guard: precondition satisfiable
        r = solve.check(st0.conds, z3.BoolVal(False), timeout_ms=5000)
        rep['pre_sat'] = r['result']
        outcomes = en.block(node.body, st0)
    except OutOfSubset as e:
        rep.update(status='out_of_subset', reason=str(e))
        return rep
    except Exception as e:      # checker crash
        rep.update(status='crash', reason=traceback.format_exc()[-1500:])
        return rep
    obls = []
    normal = 0
    try:
        for n, (s, kind, v) in enumerate(outcomes):
            if kind == 'fall':
                kind, v = 'return', V.None_
            if kind in ('continue', 'break'):
                rep.update(status='crash', reason='loop exit outside loop')
                return rep
            if kind == 'return':
                normal += 1
                v, s = en.term(v, s, escape=False)
            o = Out(kind, v, s)
            for (label, g) in contract.post(A, st0, o):
                obls.append((f"{contract.key}#post[{kind}]:{label}@path{n}", s.conds, g, s.taint, dict(kind=kind, path=n, clause=label)))
        for (label, hyps, goal, taint) in en.obligations:
            obls.append((f"{contract.key}#{label}", hyps, goal, taint, dict(kind='internal', clause=label)))
    except OutOfSubset as e:
        rep.update(status='out_of_subset', reason=str(e))
        return rep
    except Exception:
        rep.update(status='crash', reason=traceback.format_exc()[-1500:])
        return rep
    rep['paths'] = len(outcomes)
    rep['normal_paths'] = normal
    rep['prune_checks'] = en.nprune
    rep['notes'] = sorted(set(en.notes))[:20]
    models = {}
    for (name, hyps, goal, taint, meta) in obls:
        if z3.is_true(z3.simplify(goal)):
            rep['obligations'].append(dict(name=name, result='unsat', seconds=0.0, backend='simplifier', tainted=taint, **meta))
            continue
        r = solve.check(hyps, goal, timeout_ms=contract.timeout_ms, second=(tier == 'thorough'))
        ob = dict(name=name, result=r['result'], seconds=round(r['seconds'], 4), backend=r['backend'], tainted=taint, size=r.get('size'), **meta)
        if 'second' in r:
            ob['second'] = r['second']
        if r.get('disagreement'):
            ob['disagreement'] = True
        if r['result'] == 'sat':
            models[name] = (r['model'], A, hyps, goal, meta)
        rep['obligations'].append(ob)
    rep['seconds'] = round(time.time() - t0, 3)
    rep['_models'] = models
    rep['_A'] = A
    return rep
