"""Discharging obligations (DESIGN 2.7): z3py in process, CLI solvers on the exported SMT-LIB text as fall-back / second opinion."""
import os
import re
import subprocess
import tempfile
import time
import z3
from .values import ground_axioms, abstract_recs

Z3_OLD = '/usr/bin/z3'
Z3_NEW = 'z3-new'
CVC5 = '/usr/bin/cvc5'


def to_smt2(assertions):
    s = z3.Solver()
    s.add(*assertions)
    txt = s.to_smt2()
    txt = re.sub(r'\(\(_ ([A-Za-z_][\w!.:\-]*) 0\)', r'(\1', txt)     # z3 prints rec-fun applications as ((_ f 0) ..)
    return '(set-logic ALL)\n' + txt


def run_cli(cmd, text, timeout):
    with tempfile.NamedTemporaryFile('w', suffix='.smt2', delete=False, dir=os.environ.get('PYVC_TMP', None)) as f:
        f.write(text)
        path = f.name
    try:
        t = time.time()
        p = subprocess.run(cmd + [path], capture_output=True, text=True, timeout=timeout + 5)
        out = (p.stdout or '').strip().splitlines()
        return (out[0] if out else 'unknown'), time.time() - t
    except subprocess.TimeoutExpired:
        return 'unknown', timeout
    finally:
        os.unlink(path)


def race_cli(text, timeout_s, wait_all=False):
    """run z3 4.8.12 and cvc5 1.0.3 concurrently on the same SMT-LIB text; stop at the first `unsat` unless wait_all"""
    with tempfile.NamedTemporaryFile('w', suffix='.smt2', delete=False, dir=os.environ.get('PYVC_TMP', None)) as f:
        f.write(text)
        path = f.name
    cmds = {'z3-4.8.12': [Z3_OLD, f'-T:{max(1, int(timeout_s))}', path], 'cvc5-1.0.3': [CVC5, '--strings-exp', f'--tlimit={int(timeout_s * 1000)}', path]}
    t0 = time.time()
    procs = {n: subprocess.Popen(c, stdout=subprocess.PIPE, stderr=subprocess.DEVNULL, text=True) for n, c in cmds.items()}
    out = {}
    try:
        while procs and time.time() - t0 < timeout_s + 3:
            for n, p in list(procs.items()):
                if p.poll() is not None:
                    lines = (p.stdout.read() or '').strip().splitlines()
                    ans = lines[0] if lines and lines[0] in ('sat', 'unsat', 'unknown') else 'unknown'
                    out[n] = (ans, time.time() - t0)
                    del procs[n]
                    if ans in ('unsat', 'sat') and not wait_all:
                        raise StopIteration
            time.sleep(0.01)
    except StopIteration:
        pass
    finally:
        for n, p in procs.items():
            p.kill()
            p.wait()
            out.setdefault(n, ('unknown', time.time() - t0))
        os.unlink(path)
    return out


def check(hyps, goal, timeout_ms=10000, want_model=True, second=False, first_ms=300):
    """-> dict(result='unsat'|'sat'|'unknown', model, seconds, backend, second=...)
    portfolio: z3 5.1.0 in process (short budget) -> z3 4.8.12 / cvc5 1.0.3 on the exported text -> z3 5.1.0 full budget.
    Models are only taken from the in-process solver."""
    from .values import simp
    q = [simp(x) for x in list(hyps) + [z3.Not(goal)]]
    q = q + ground_axioms(q)
    t0 = time.time()

    def guarded(ms):
        """run the in-process check in a forked child first: z3 5.1.0 can overrun its timeout and ignore interrupts on recursive
        definitions; the parent only repeats a check the child finished in time (models cannot cross the process boundary)"""
        r_fd, w_fd = os.pipe()
        pid = os.fork()
        if pid == 0:
            try:
                os.close(r_fd)
                s = z3.Solver()
                s.set('timeout', ms)
                s.add(*q)
                os.write(w_fd, str(s.check()).encode())
            finally:
                os._exit(0)
        os.close(w_fd)
        import select
        ready, _, _ = select.select([r_fd], [], [], ms / 1000.0 + 3.0)
        ans = os.read(r_fd, 32).decode() if ready else ''
        os.close(r_fd)
        if not ready:
            try:
                os.kill(pid, 9)
            except OSError:
                pass
        os.waitpid(pid, 0)
        if ans == 'sat':
            return inproc(ms * 2)
        return (z3.unsat if ans == 'unsat' else z3.unknown), None

    def inproc(ms):
        import threading
        s = z3.Solver()
        s.set('timeout', ms)
        s.add(*q)
        # z3 5.1.0 sometimes overruns its own timeout on recursive definitions: a watchdog interrupts the context
        wd = threading.Timer(ms / 1000.0 + 2.0, lambda: z3.main_ctx().interrupt())
        wd.daemon = True
        wd.start()
        try:
            r = s.check()
        except z3.Z3Exception:
            r = z3.unknown
        finally:
            wd.cancel()
        return r, (s.model() if r == z3.sat else None)
    size = sum(len(x.sexpr()) for x in q[:50])
    bk = f"z3py-{z3.get_version_string()}"
    # stage 0: recursive definitions replaced by uninterpreted twins (plus the instantiated lemmas): unsat here is unsat there
    s0 = z3.Solver()
    s0.set('timeout', min(400, timeout_ms))
    s0.add(*abstract_recs(q))
    s0_unsat = s0.check() == z3.unsat
    if s0_unsat and not second:
        return dict(result='unsat', model=None, backend=bk + " (recursive definitions abstracted)", size=size, seconds=time.time() - t0)
    res = dict(result='unknown', model=None, backend=bk, size=size)
    text = None
    try:
        text = to_smt2(q)
    except Exception as e:      # export problems never decide anything
        res['export_error'] = str(e)[:200]
    sec = {}
    r = z3.unknown
    if text is not None:
        # stage 1: z3 4.8.12 and cvc5 1.0.3 race on the exported text (each is the only one to answer on some queries)
        answers = race_cli(text, timeout_ms / 1000, wait_all=second)
        for name, (rr, d2) in answers.items():
            sec[name] = (rr, round(d2, 3))
        unsat_by = [n for n, (rr, _) in answers.items() if rr == 'unsat']
        sat_by = [n for n, (rr, _) in answers.items() if rr == 'sat']
        if unsat_by and not sat_by:
            res.update(result='unsat', backend=unsat_by[0])
            r = z3.unsat
        elif sat_by and not unsat_by:
            # a counter-model exists (complete query, sound solver); a model is still requested from the in-process solver below
            res.update(result='sat', backend=sat_by[0])
        res['second'] = sec
    if r == z3.unknown or second:
        # stage 2: z3 5.1.0 in process with the definitions: the only source of models
        r2, model = guarded(timeout_ms)
        if r == z3.unknown and res['result'] == 'sat':
            if str(r2) == 'sat':
                res.update(model=model)
            elif str(r2) == 'unsat':
                res['disagreement'] = True
        elif r == z3.unknown:
            res.update(result=str(r2), model=model, backend=bk)
        elif str(r2) == 'sat':
            res['disagreement'] = True
        sec[bk] = (str(r2), 0)
    if res['result'] == 'unknown' and s0_unsat:
        # thorough tier: the abstraction already refuted the query (unsat there is unsat here); the other back ends were asked for a second opinion and
        # had none within their budget -- a `sat` from any of them would have been recorded above as a disagreement
        res.update(result='unsat', backend=bk + " (recursive definitions abstracted; no second opinion within the budget)")
    if res['result'] == 'unknown':
        # counterexample search in a small scope: extra constraints only restrict, so `sat` is a genuine counter-model
        from .values import collect_apps
        lens = collect_apps(q, ('length',))
        for bound in (1, 2):
            try:
                txt = to_smt2(q + [t <= bound for t in lens])
            except Exception:
                break
            rr, d2 = run_cli([Z3_OLD, f'-T:{max(2, timeout_ms // 1000)}'], txt, max(2, timeout_ms / 1000))
            sec[f'z3-4.8.12 scope<={bound}'] = (rr, round(d2, 3))
            if rr == 'sat':
                res.update(result='sat', backend=f'z3-4.8.12 (counterexample search, list lengths <= {bound})')
                break
            if rr == 'unsat':
                continue
    full = {k: v for k, v in sec.items() if 'scope' not in k}
    if res['result'] == 'unsat' and any(v[0] == 'sat' for v in full.values()):
        res['disagreement'] = True
    if res['result'] == 'sat' and any(v[0] == 'unsat' for v in full.values()):
        res['disagreement'] = True
    res['seconds'] = time.time() - t0
    return res


def quick_unsat(assertions, timeout_s=1):
    """True iff z3 4.8.12 refutes the conjunction quickly (used for path pruning when the in-process solver gives up)"""
    try:
        text = to_smt2(assertions)
    except Exception:
        return False
    rr, _ = run_cli([Z3_OLD, '-t:500', f'-T:{timeout_s}'], text, timeout_s)
    return rr == 'unsat'
