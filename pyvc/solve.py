"""Discharging obligations (DESIGN 2.7): z3py in process, CLI solvers on the exported SMT-LIB text as fall-back / second opinion."""
import os
import re
import subprocess
import tempfile
import time
import z3
from .values import ground_axioms

Z3_OLD = '/usr/bin/z3'
Z3_NEW = 'z3-new'
CVC5 = '/usr/bin/cvc5'


def to_smt2(assertions):
    s = z3.Solver()
    s.add(*assertions)
    txt = s.to_smt2()
    txt = re.sub(r'\(\(_ ([A-Za-z_][\w!.:]*) 0\)', r'(\1', txt)     # z3 prints rec-fun applications as ((_ f 0) ..)
    return '(set-logic ALL)\n' + txt


def run_cli(cmd, text, timeout):
    with tempfile.NamedTemporaryFile('w', suffix='.smt2', delete=False, dir=os.environ.get('PYVC_TMP', None)) as f:
        f.write(text)
        path = f.name
    try:
        t = time.time()
        p = subprocess.run(cmd + [path], capture_output=True, text=True, timeout=timeout + 5)
        out = (p.stdout or '').strip().splitlines()
        return (out[0] if out else 'unknown'), time.time() - t
    except subprocess.TimeoutExpired:
        return 'unknown', timeout
    finally:
        os.unlink(path)


def check(hyps, goal, timeout_ms=10000, want_model=True, second=False):
    """-> dict(result='unsat'|'sat'|'unknown', model, seconds, backend, second=...)"""
    q = [z3.simplify(x) for x in list(hyps) + [z3.Not(goal)]]
    q = q + ground_axioms(q)
    s = z3.Solver()
    s.set('timeout', timeout_ms)
    s.add(*q)
    t = time.time()
    r = s.check()
    dt = time.time() - t
    res = dict(result=str(r), model=(s.model() if r == z3.sat else None), seconds=dt, backend=f"z3py-{z3.get_version_string()}", size=sum(len(x.sexpr()) for x in q[:50]))
    if r == z3.unknown or second:
        text = None
        try:
            text = to_smt2(q)
        except Exception as e:      # export problems never decide anything
            res['export_error'] = str(e)[:200]
        if text is not None:
            sec = {}
            for name, cmd in (('z3-4.8.12', [Z3_OLD, f'-T:{max(1, timeout_ms // 1000)}']),
                              ('cvc5-1.0.3', [CVC5, '--strings-exp', f'--tlimit={timeout_ms}'])):
                rr, d2 = run_cli(cmd, text, timeout_ms / 1000)
                sec[name] = (rr, round(d2, 3))
                if r == z3.unknown and rr == 'unsat':
                    res.update(result='unsat', backend=name, seconds=dt + d2)
                    r = z3.unsat
                    if not second:
                        break
            res['second'] = sec
            if res['result'] == 'unsat' and any(v[0] == 'sat' for v in sec.values()):
                res['disagreement'] = True
            if res['result'] == 'sat' and any(v[0] == 'unsat' for v in sec.values()):
                res['disagreement'] = True
    return res
