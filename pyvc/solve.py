"""Discharging obligations (DESIGN 2.7): z3py in process, CLI solvers on the exported SMT-LIB text as fall-back / second opinion."""
import os
import re
import subprocess
import tempfile
import time
import z3
from .values import ground_axioms, abstract_recs

Z3_OLD = '/usr/bin/z3'
Z3_NEW = 'z3-new'
CVC5 = '/usr/bin/cvc5'


def to_smt2(assertions):
    s = z3.Solver()
    s.add(*assertions)
    txt = s.to_smt2()
    txt = re.sub(r'\(\(_ ([A-Za-z_][\w!.:\-]*) 0\)', r'(\1', txt)     # z3 prints rec-fun applications as ((_ f 0) ..)
    return '(set-logic ALL)\n' + txt


def run_cli(cmd, text, timeout):
    with tempfile.NamedTemporaryFile('w', suffix='.smt2', delete=False, dir=os.environ.get('PYVC_TMP', None)) as f:
        f.write(text)
        path = f.name
    try:
        t = time.time()
        p = subprocess.run(cmd + [path], capture_output=True, text=True, timeout=timeout + 5)
        out = (p.stdout or '').strip().splitlines()
        return (out[0] if out else 'unknown'), time.time() - t
    except subprocess.TimeoutExpired:
        return 'unknown', timeout
    finally:
        os.unlink(path)


def check(hyps, goal, timeout_ms=10000, want_model=True, second=False, first_ms=300):
    """-> dict(result='unsat'|'sat'|'unknown', model, seconds, backend, second=...)
    portfolio: z3 5.1.0 in process (short budget) -> z3 4.8.12 / cvc5 1.0.3 on the exported text -> z3 5.1.0 full budget.
    Models are only taken from the in-process solver."""
    q = [z3.simplify(x) for x in list(hyps) + [z3.Not(goal)]]
    q = q + ground_axioms(q)
    t0 = time.time()

    def inproc(ms):
        s = z3.Solver()
        s.set('timeout', ms)
        s.add(*q)
        r = s.check()
        return r, (s.model() if r == z3.sat else None)
    size = sum(len(x.sexpr()) for x in q[:50])
    # stage 0: recursive definitions replaced by uninterpreted twins (plus the instantiated lemmas): unsat here is unsat there
    s0 = z3.Solver()
    s0.set('timeout', min(1000, timeout_ms))
    s0.add(*abstract_recs(q))
    if s0.check() == z3.unsat and not second:
        return dict(result='unsat', model=None, backend=f"z3py-{z3.get_version_string()} (recursive definitions abstracted)", size=size, seconds=time.time() - t0)
    r, model = inproc(min(first_ms, timeout_ms))
    res = dict(result=str(r), model=model, backend=f"z3py-{z3.get_version_string()}", size=size)
    if r == z3.unknown or second:
        text = None
        try:
            text = to_smt2(q)
        except Exception as e:      # export problems never decide anything
            res['export_error'] = str(e)[:200]
        sec = {}
        if text is not None:
            for name, cmd in (('z3-4.8.12', [Z3_OLD, f'-T:{max(1, timeout_ms // 1000)}']),
                              ('cvc5-1.0.3', [CVC5, '--strings-exp', f'--tlimit={timeout_ms}'])):
                rr, d2 = run_cli(cmd, text, timeout_ms / 1000)
                sec[name] = (rr, round(d2, 3))
                if r == z3.unknown and rr == 'unsat':
                    res.update(result='unsat', backend=name)
                    r = z3.unsat
                    if not second:
                        break
            res['second'] = sec
        if r == z3.unknown:
            r, model = inproc(timeout_ms)
            res.update(result=str(r), model=model, backend=f"z3py-{z3.get_version_string()}")
        if res['result'] == 'unsat' and any(v[0] == 'sat' for v in sec.values()):
            res['disagreement'] = True
        if res['result'] == 'sat' and any(v[0] == 'unsat' for v in sec.values()):
            res['disagreement'] = True
    res['seconds'] = time.time() - t0
    return res


def quick_unsat(assertions, timeout_s=1):
    """True iff z3 4.8.12 refutes the conjunction quickly (used for path pruning when the in-process solver gives up)"""
    try:
        text = to_smt2(assertions)
    except Exception:
        return False
    rr, _ = run_cli([Z3_OLD, '-t:500', f'-T:{timeout_s}'], text, timeout_s)
    return rr == 'unsat'
