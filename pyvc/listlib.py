"""Inductive proofs of the list facts that pyvc instantiates syntactically (values.list_lemmas, ForallList): each fact is proved by
structural induction as two SMT queries, base case and step case with the induction hypothesis as a hypothesis.
Run as lemmas of the C04 check (`listlib:*`); what is not proved here stays in the trusted base (DESIGN section 8)."""
import z3
from .values import *
from .contracts import Lemma

l, t, a, b = z3.Consts('ll_l ll_t ll_a ll_b', VL)
h, x, y, kk = z3.Consts('ll_h ll_x ll_y ll_key', V)
k, m = z3.Ints('ll_k ll_m')
P = z3.Function('ll_P', V, BoolS)


def ind(name, stmt, extra_hyps=lambda lst: []):
    """stmt(list) -> Bool (free variables implicitly universally quantified); induction on the cons structure"""
    return [Lemma(f"listlib:{name}:base", [], stmt(VL.nil), property_ids=('C04',)),
            Lemma(f"listlib:{name}:step", [stmt(t)] + extra_hyps(t), stmt(VL.cons(h, t)), property_ids=('C04',))]


LEMMAS = []
LEMMAS += ind('length_nonneg', lambda L: length(L) >= 0)
LEMMAS += ind('length_zero_iff_nil', lambda L: (length(L) == 0) == VL.is_nil(L), lambda L: [length(L) >= 0])
LEMMAS += ind('app_nil_right', lambda L: app(L, VL.nil) == L)
LEMMAS += ind('length_app', lambda L: length(app(L, b)) == length(L) + length(b))
LEMMAS += ind('app_assoc', lambda L: app(app(L, a), b) == app(L, app(a, b)))
LEMMAS += ind('nil_app', lambda L: VL.is_nil(app(L, b)) == z3.And(VL.is_nil(L), VL.is_nil(b)))
LEMMAS += ind('length_keys', lambda L: length(keys(L)) == length(L))
LEMMAS += ind('length_vals', lambda L: length(vals(L)) == length(L))
# facts with an index: the hypothesis is used at k-1
LEMMAS += [Lemma('listlib:nth_keys:base', [], z3.Implies(z3.And(k >= 0, k < length(VL.nil)), nth(keys(VL.nil), k) == V.fst(nth(VL.nil, k))), property_ids=('C04',)),
           Lemma('listlib:nth_keys:step', [z3.Implies(z3.And(k - 1 >= 0, k - 1 < length(t)), nth(keys(t), k - 1) == V.fst(nth(t, k - 1))), length(t) >= 0],
                 z3.Implies(z3.And(k >= 0, k < length(VL.cons(h, t))), nth(keys(VL.cons(h, t)), k) == V.fst(nth(VL.cons(h, t), k))), property_ids=('C04',)),
           Lemma('listlib:nth_app_left:step', [z3.Implies(z3.And(k - 1 >= 0, k - 1 < length(t)), nth(app(t, b), k - 1) == nth(t, k - 1)), length(t) >= 0],
                 z3.Implies(z3.And(k >= 0, k < length(VL.cons(h, t))), nth(app(VL.cons(h, t), b), k) == nth(VL.cons(h, t), k)), property_ids=('C04',)),
           Lemma('listlib:nth_app_right:step', [z3.Implies(k - 1 >= length(t), nth(app(t, b), k - 1) == nth(b, k - 1 - length(t))), length(t) >= 0],
                 z3.Implies(k >= length(VL.cons(h, t)), nth(app(VL.cons(h, t), b), k) == nth(b, k - length(VL.cons(h, t)))), property_ids=('C04',)),
           Lemma('listlib:nth_app_right:base', [], z3.Implies(k >= length(VL.nil), nth(app(VL.nil, b), k) == nth(b, k - length(VL.nil))), property_ids=('C04',)),
           Lemma('listlib:length_take:step', [z3.Implies(z3.And(m - 1 >= 0, m - 1 <= length(t)), length(take(t, m - 1)) == m - 1), length(t) >= 0],
                 z3.Implies(z3.And(m >= 0, m <= length(VL.cons(h, t))), length(take(VL.cons(h, t), m)) == m), property_ids=('C04',)),
           Lemma('listlib:length_take:base', [], z3.Implies(z3.And(m >= 0, m <= length(VL.nil)), length(take(VL.nil, m)) == m), property_ids=('C04',)),
           Lemma('listlib:take_all:step', [z3.Implies(m - 1 >= length(t), take(t, m - 1) == t), length(t) >= 0],
                 z3.Implies(m >= length(VL.cons(h, t)), take(VL.cons(h, t), m) == VL.cons(h, t)), property_ids=('C04',)),
           Lemma('listlib:nth_take:step', [z3.Implies(z3.And(k - 1 >= 0, k - 1 < m - 1), nth(take(t, m - 1), k - 1) == nth(t, k - 1))],
                 z3.Implies(z3.And(k >= 0, k < m), nth(take(VL.cons(h, t), m), k) == nth(VL.cons(h, t), k)), property_ids=('C04',)),
           Lemma('listlib:take_app_exact:step', [take(app(t, b), length(t)) == t, length(t) >= 0],
                 take(app(VL.cons(h, t), b), length(VL.cons(h, t))) == VL.cons(h, t), property_ids=('C04',)),
           Lemma('listlib:take_app_exact:base', [], take(app(VL.nil, b), length(VL.nil)) == VL.nil, property_ids=('C04',)),
           Lemma('listlib:take_take:step', [z3.Implies(k - 1 <= m - 1, take(take(t, m - 1), k - 1) == take(t, k - 1))],
                 z3.Implies(k <= m, take(take(VL.cons(h, t), m), k) == take(VL.cons(h, t), k)), property_ids=('C04',)),
           Lemma('listlib:take_snoc:step', [z3.Implies(z3.And(m - 1 > 0, m - 1 <= length(t)), take(t, m - 1) == app(take(t, m - 2), VL.cons(nth(t, m - 2), VL.nil))), length(t) >= 0],
                 z3.Implies(z3.And(m > 0, m <= length(VL.cons(h, t))), take(VL.cons(h, t), m) == app(take(VL.cons(h, t), m - 1), VL.cons(nth(VL.cons(h, t), m - 1), VL.nil))), property_ids=('C04',)),
           Lemma('listlib:lookup_assoc_set:step', [lookup(assoc_set(t, x, y), kk) == z3.If(x == kk, y, lookup(t, kk))],
                 lookup(assoc_set(VL.cons(h, t), x, y), kk) == z3.If(x == kk, y, lookup(VL.cons(h, t), kk)), property_ids=('C04',)),
           Lemma('listlib:lookup_assoc_set:base', [], lookup(assoc_set(VL.nil, x, y), kk) == z3.If(x == kk, y, lookup(VL.nil, kk)), property_ids=('C04',)),
           Lemma('listlib:lookup_app:step', [lookup(app(t, b), kk) == z3.If(lookup(t, kk) != V.Missing, lookup(t, kk), lookup(b, kk))],
                 z3.Implies(V.snd(h) != V.Missing, lookup(app(VL.cons(h, t), b), kk) == z3.If(lookup(VL.cons(h, t), kk) != V.Missing, lookup(VL.cons(h, t), kk), lookup(b, kk))), property_ids=('C04',)),
           Lemma('listlib:assoc_set_last_new_key:step', [z3.Implies(lookup(t, x) == V.Missing, assoc_set(app(t, VL.cons(V.Pair(x, y), VL.nil)), x, kk) == app(t, VL.cons(V.Pair(x, kk), VL.nil)))],
                 z3.Implies(lookup(VL.cons(h, t), x) == V.Missing, assoc_set(app(VL.cons(h, t), VL.cons(V.Pair(x, y), VL.nil)), x, kk) == app(VL.cons(h, t), VL.cons(V.Pair(x, kk), VL.nil))), property_ids=('C04',)),
           Lemma('listlib:assoc_set_last_new_key:base', [], assoc_set(app(VL.nil, VL.cons(V.Pair(x, y), VL.nil)), x, kk) == app(VL.nil, VL.cons(V.Pair(x, kk), VL.nil)), property_ids=('C04',)),
           Lemma('listlib:length_list_set:step', [length(list_set(t, k - 1, x)) == length(t)], length(list_set(VL.cons(h, t), k, x)) == length(VL.cons(h, t)), property_ids=('C04',)),
           Lemma('listlib:nth_list_set:step', [z3.Implies(z3.And(k - 1 >= 0, k - 1 < length(t)), nth(list_set(t, k - 1, x), m - 1) == z3.If(m - 1 == k - 1, x, nth(t, m - 1))), length(t) >= 0],
                 z3.Implies(z3.And(k >= 0, k < length(VL.cons(h, t))), nth(list_set(VL.cons(h, t), k, x), m) == z3.If(m == k, x, nth(VL.cons(h, t), m))), property_ids=('C04',)),
           ]

# positions in association lists (values._index_of_lemmas)
def _snd_ok(t_):
    return True


LEMMAS += ind('index_of_bounds', lambda L: z3.And(index_of(L, kk) >= 0, index_of(L, kk) <= length(L)), lambda L: [length(L) >= 0])
LEMMAS += ind('index_of_present_below_length', lambda L: z3.Implies(lookup(L, kk) != V.Missing, index_of(L, kk) < length(L)), lambda L: [length(L) >= 0])
LEMMAS += [Lemma('listlib:index_of_store_keeps_present_keys:base', [], z3.Implies(lookup(VL.nil, kk) != V.Missing, index_of(assoc_set(VL.nil, x, y), kk) == index_of(VL.nil, kk)), property_ids=('C04',)),
           Lemma('listlib:index_of_store_keeps_present_keys:step', [z3.Implies(lookup(t, kk) != V.Missing, index_of(assoc_set(t, x, y), kk) == index_of(t, kk))],
                 z3.Implies(lookup(VL.cons(h, t), kk) != V.Missing, index_of(assoc_set(VL.cons(h, t), x, y), kk) == index_of(VL.cons(h, t), kk)), property_ids=('C04',)),
           Lemma('listlib:index_of_new_key_at_end:base', [], z3.Implies(index_of(VL.nil, x) == length(VL.nil), index_of(assoc_set(VL.nil, x, y), x) == length(VL.nil)), property_ids=('C04',)),
           Lemma('listlib:index_of_new_key_at_end:step', [z3.Implies(index_of(t, x) == length(t), index_of(assoc_set(t, x, y), x) == length(t)), length(t) >= 0,
                                                          index_of(t, x) >= 0, index_of(t, x) <= length(t)],
                 z3.Implies(index_of(VL.cons(h, t), x) == length(VL.cons(h, t)), index_of(assoc_set(VL.cons(h, t), x, y), x) == length(VL.cons(h, t))), property_ids=('C04',))]

LEMMAS += [Lemma('listlib:length_assoc_set:base', [], length(assoc_set(VL.nil, x, y)) == z3.If(index_of(VL.nil, x) == length(VL.nil), length(VL.nil) + 1, length(VL.nil)), property_ids=('C04',)),
           Lemma('listlib:length_assoc_set:step', [length(assoc_set(t, x, y)) == z3.If(index_of(t, x) == length(t), length(t) + 1, length(t)), length(t) >= 0, index_of(t, x) >= 0, index_of(t, x) <= length(t)],
                 length(assoc_set(VL.cons(h, t), x, y)) == z3.If(index_of(VL.cons(h, t), x) == length(VL.cons(h, t)), length(VL.cons(h, t)) + 1, length(VL.cons(h, t))), property_ids=('C04',)),
           Lemma('listlib:index_of_absent_stays_absent:base', [], z3.Implies(z3.And(kk != x, index_of(VL.nil, kk) == length(VL.nil)), index_of(assoc_set(VL.nil, x, y), kk) == length(assoc_set(VL.nil, x, y))), property_ids=('C04',)),
           Lemma('listlib:index_of_absent_stays_absent:step', [z3.Implies(z3.And(kk != x, index_of(t, kk) == length(t)), index_of(assoc_set(t, x, y), kk) == length(assoc_set(t, x, y))), length(t) >= 0,
                                                               index_of(t, kk) >= 0, index_of(t, kk) <= length(t), length(assoc_set(t, x, y)) >= 0],
                 z3.Implies(z3.And(kk != x, index_of(VL.cons(h, t), kk) == length(VL.cons(h, t))), index_of(assoc_set(VL.cons(h, t), x, y), kk) == length(assoc_set(VL.cons(h, t), x, y))), property_ids=('C04',))]
