"""Frame pass (DESIGN 2.6, C15/C16/C17/C08): syntactic effect analysis over the ASTs of /repo.

Every write site (attribute / subscript store, augmented assignment, mutator-method call, setattr, del) is classified by the
provenance of its receiver -- fresh (allocated in this activation), a parameter path, a module/class-level object, or unknown --
and checked against the function's frame contract: request-owned parameters may be written, engine-owned (shared) ones may not.
A frame obligation is `discharged` when the receiver's provenance set is inside the allowed set; `violated` when it contains an
engine-owned parameter or a global; `undecided` when it contains `unknown`.
"""
import ast
import os
from .classtable import table

MUTATORS = {'append', 'extend', 'insert', 'pop', 'popitem', 'remove', 'clear', 'update', 'setdefault', 'add', 'discard', 'sort', 'reverse',
            '__setitem__', '__delitem__'}
FRESH_BUILTINS = {'list', 'dict', 'set', 'tuple', 'partial', 'str', 'int', 'float', 'bool', 'repr', 'sorted', 'reversed', 'enumerate', 'zip', 'len',
                  'frozenset', 'format', 'getattr_fresh', 'deepcopy', 'copy', 'defaultdict', 'OrderedDict', 'isinstance', 'hasattr', 'callable', 'type', 'id', 'hash'}


class Site:
    def __init__(self, fn, line, kind, text, prov):
        self.fn, self.line, self.kind, self.text, self.prov = fn, line, kind, text, prov

    def ident(self):
        return f"{self.fn}#write:{self.kind}:{self.text}"


class FunctionFrame:
    """provenance analysis of one function"""
    def __init__(self, key, node, module, T, returns_fresh):
        self.key, self.node, self.module, self.T, self.returns_fresh = key, node, module, T, returns_fresh
        a = node.args
        self.params = [x.arg for x in a.posonlyargs + a.args + a.kwonlyargs]
        if a.vararg: self.params.append(a.vararg.arg)
        if a.kwarg: self.params.append(a.kwarg.arg)
        self.prov = {}
        self.sites = []
        self.calls = []       # (callee key or None, [arg provenance], line)
        self.nested = [n for n in ast.walk(node) if isinstance(n, (ast.FunctionDef, ast.AsyncFunctionDef, ast.Lambda)) and n is not node]
        self._fix()

    # ---- provenance of expressions
    def P(self, e):
        if e is None:
            return {'fresh'}
        if isinstance(e, ast.Name):
            if e.id in self.prov:
                return set(self.prov[e.id]) | ({('param', e.id)} if e.id in self.params else set())
            if e.id in self.params:
                return {('param', e.id)}
            if e.id in ('True', 'False', 'None'):
                return {'fresh'}
            r = self.T.resolve_name(self.module, e.id)
            if r is not None and r[0] in ('func', 'class', 'module', 'external'):
                return {'fresh'}       # functions / classes themselves are immutable for our purposes
            if r is not None and r[0] == 'const':
                return {('global', f"{r[1][0]}::{r[1][1]}")}
            import builtins
            if e.id in FRESH_BUILTINS or hasattr(builtins, e.id):
                return {'fresh'}
            return {('global', f"{self.module}::{e.id}")} if e.id in self.T.module_consts.get(self.module, {}) else {'unknown'}
        if isinstance(e, ast.Constant) or isinstance(e, (ast.JoinedStr, ast.Compare, ast.UnaryOp)):
            return {'fresh'}
        if isinstance(e, (ast.List, ast.Dict, ast.Set, ast.Tuple, ast.ListComp, ast.DictComp, ast.SetComp, ast.GeneratorExp, ast.Lambda)):
            return {'fresh'}
        if isinstance(e, ast.BinOp):
            return {'fresh'}
        if isinstance(e, ast.Await):
            return self.P(e.value)
        if isinstance(e, ast.IfExp):
            return self.P(e.body) | self.P(e.orelse)
        if isinstance(e, ast.BoolOp):
            out = set()
            for v in e.values:
                out |= self.P(v)
            return out
        if isinstance(e, ast.Starred):
            return self.P(e.value)
        if isinstance(e, ast.Attribute):
            out = set()
            for b in self.P(e.value):
                if isinstance(b, tuple) and b[0] == 'param':
                    out.add(('param', b[1], ) + tuple(b[2:]) + (e.attr,))
                elif isinstance(b, tuple) and b[0] == 'global':
                    out.add(('global', b[1] + '.' + e.attr))
                elif b == 'fresh':
                    out.add('fresh-attr')      # attribute of a fresh object: may alias something that was stored in it
                else:
                    out.add(b)
            return out
        if isinstance(e, ast.Subscript):
            out = set()
            for b in self.P(e.value):
                if isinstance(b, tuple) and b[0] == 'param':
                    out.add(b + ('[]',))
                elif b == 'fresh':
                    out.add('fresh-attr')
                else:
                    out.add(b)
            return out
        if isinstance(e, ast.Call):
            f = e.func
            name = f.id if isinstance(f, ast.Name) else (f.attr if isinstance(f, ast.Attribute) else None)
            if isinstance(f, ast.Name):
                r = self.T.resolve_name(self.module, f.id)
                if r is not None and r[0] == 'class':
                    return {'fresh'}
                if f.id in FRESH_BUILTINS or (f.id[:1].isupper() and r is None):
                    return {'fresh'}
                if r is not None and r[0] == 'func' and (r[1] in self.returns_fresh or r[1].split('::')[1] in self.returns_fresh):
                    return {'fresh'}
            if isinstance(f, ast.Attribute):
                if f.attr in ('get', 'setdefault', 'pop', 'popitem'):
                    return {x + ('[]',) if isinstance(x, tuple) and x[0] == 'param' else ('fresh-attr' if x == 'fresh' else x) for x in self.P(f.value)}
                if f.attr in ('copy', 'keys', 'values', 'items', 'as_list', 'format', 'join', 'split', 'lower', 'collect_value', 'coerce_value') or f.attr in self.returns_fresh:
                    return {'fresh'}
                if f.attr[:1].isupper():
                    return {'fresh'}
            if isinstance(f, ast.Name):
                r = self.T.resolve_name(self.module, f.id)
                if r is not None and r[0] == 'func':
                    return {('callret', r[1], frozenset())}
            if isinstance(f, ast.Attribute):
                return {('callret', '.' + f.attr, frozenset(x for x in self.P(f.value) if isinstance(x, tuple) and x[0] in ('param', 'global')) )}
            return {'call'}         # result of an unmodelled call
        return {'unknown'}

    def _targets(self, t):
        if isinstance(t, (ast.Tuple, ast.List)):
            for x in t.elts:
                yield from self._targets(x)
        else:
            yield t

    def _fix(self):
        own = [n for n in ast.walk(self.node)]
        skip = set()
        for nf in self.nested:
            for n in ast.walk(nf):
                if n is not nf:
                    skip.add(id(n))
        for _ in range(4):
            for n in own:
                if id(n) in skip:
                    continue
                if isinstance(n, ast.Assign):
                    for tg in n.targets:
                        tl = list(self._targets(tg))
                        for t in tl:
                            if isinstance(t, ast.Name):
                                src = self.P(n.value) if len(tl) == 1 else ({x + ('[]',) if isinstance(x, tuple) and x[0] == 'param' else x for x in self.P(n.value)})
                                self.prov.setdefault(t.id, set()).update(src)
                elif isinstance(n, ast.AnnAssign) and isinstance(n.target, ast.Name) and n.value is not None:
                    self.prov.setdefault(n.target.id, set()).update(self.P(n.value))
                elif isinstance(n, (ast.For, ast.AsyncFor)):
                    src = {x + ('[]',) if isinstance(x, tuple) and x[0] == 'param' else ('fresh-attr' if x == 'fresh' else x) for x in self.P(n.iter)}
                    if isinstance(n.iter, ast.Call) and isinstance(n.iter.func, ast.Name) and n.iter.func.id == 'zip' and isinstance(n.target, ast.Tuple) \
                            and len(n.target.elts) == len(n.iter.args):
                        for t, a in zip(n.target.elts, n.iter.args):       # positional: each target draws from its own source
                            ps = {x + ('[]',) if isinstance(x, tuple) and x[0] == 'param' else ('fresh-attr' if x == 'fresh' else x) for x in self.P(a)}
                            for tt in self._targets(t):
                                if isinstance(tt, ast.Name):
                                    self.prov.setdefault(tt.id, set()).update(ps)
                        continue
                    if isinstance(n.iter, ast.Call) and isinstance(n.iter.func, ast.Name) and n.iter.func.id in ('enumerate', 'zip', 'reversed'):
                        src = set()
                        for a in n.iter.args:
                            src |= {x + ('[]',) if isinstance(x, tuple) and x[0] == 'param' else ('fresh-attr' if x == 'fresh' else x) for x in self.P(a)}
                    if isinstance(n.iter, ast.Call) and isinstance(n.iter.func, ast.Attribute) and n.iter.func.attr in ('items', 'values', 'keys'):
                        src = {x + ('[]',) if isinstance(x, tuple) and x[0] == 'param' else ('fresh-attr' if x == 'fresh' else x) for x in self.P(n.iter.func.value)}
                    for t in self._targets(n.target):
                        if isinstance(t, ast.Name):
                            self.prov.setdefault(t.id, set()).update(src)
                elif isinstance(n, ast.ExceptHandler) and n.name:
                    self.prov.setdefault(n.name, set()).add('fresh')       # exceptions raised inside the activation
                elif isinstance(n, ast.comprehension):
                    src = {x + ('[]',) if isinstance(x, tuple) and x[0] == 'param' else ('fresh-attr' if x == 'fresh' else x) for x in self.P(n.iter)}
                    for t in self._targets(n.target):
                        if isinstance(t, ast.Name):
                            self.prov.setdefault(t.id, set()).update(src)
                elif isinstance(n, (ast.With, ast.AsyncWith)):
                    for it in n.items:
                        if it.optional_vars is not None and isinstance(it.optional_vars, ast.Name):
                            self.prov.setdefault(it.optional_vars.id, set()).add('fresh')
        self.returns = set()
        for n in own:
            if id(n) in skip:
                continue
            if isinstance(n, ast.Return) and n.value is not None:
                self.returns |= self.P(n.value)
        # write sites
        for n in own:
            if id(n) in skip:
                continue
            if isinstance(n, (ast.Assign, ast.AugAssign, ast.AnnAssign)):
                tgs = n.targets if isinstance(n, ast.Assign) else [n.target]
                for tg in tgs:
                    for t in self._targets(tg):
                        if isinstance(t, ast.Attribute):
                            self.sites.append(Site(self.key, n.lineno, 'attr', f"{ast.unparse(t)}", self.P(t.value)))
                        elif isinstance(t, ast.Subscript):
                            self.sites.append(Site(self.key, n.lineno, 'item', f"{ast.unparse(t.value)}[..]", self.P(t.value)))
                        elif isinstance(t, ast.Name) and isinstance(n, ast.AugAssign) and t.id not in self.prov and t.id not in self.params:
                            self.sites.append(Site(self.key, n.lineno, 'global', t.id, {('global', t.id)}))
            elif isinstance(n, ast.Delete):
                for t in n.targets:
                    if isinstance(t, (ast.Attribute, ast.Subscript)):
                        self.sites.append(Site(self.key, n.lineno, 'del', ast.unparse(t), self.P(t.value)))
            elif isinstance(n, (ast.Global, ast.Nonlocal)):
                for nm in n.names:
                    self.sites.append(Site(self.key, n.lineno, 'global', nm, {('global', nm)}))
            elif isinstance(n, ast.Call):
                f = n.func
                if isinstance(f, ast.Attribute) and f.attr in MUTATORS:
                    self.sites.append(Site(self.key, n.lineno, 'mutator', f"{ast.unparse(f.value)}.{f.attr}()", self.P(f.value)))
                elif isinstance(f, ast.Name) and f.id in ('setattr', 'delattr') and n.args:
                    self.sites.append(Site(self.key, n.lineno, 'setattr', ast.unparse(n.args[0]), self.P(n.args[0])))
                # record calls for the transitive check
                callee = None
                if isinstance(f, ast.Name):
                    r = self.T.resolve_name(self.module, f.id)
                    if r is not None and r[0] == 'func':
                        callee = r[1]
                self.calls.append((callee, n, n.lineno))


def roots_of(prov):
    out = set()
    for p in prov:
        if isinstance(p, tuple) and p[0] == 'param':
            out.add(('param', p[1]))
        elif isinstance(p, tuple) and p[0] == 'global':
            out.add(p)
        else:
            out.add(p)
    return out


class FramePass:
    def __init__(self, modules, owned, exempt, returns_fresh, also_owned_fn=None):
        """modules: relpaths (or prefixes ending with '/') forming the cone; owned: request-owned parameter names;
        exempt: {site ident: justification}; also_owned_fn: {function key: extra owned params}"""
        self.T = table()
        self.modules, self.owned, self.exempt, self.returns_fresh = modules, set(owned), exempt, set(returns_fresh)
        self.also = also_owned_fn or {}
        self.frames = {}
        for key, (node, src) in self.T.functions.items():
            rel = key.split('::')[0]
            if not any(rel == m or (m.endswith('/') and rel.startswith(m)) for m in modules):
                continue
            self.frames[key] = FunctionFrame(key, node, rel, self.T, self.returns_fresh)

    def owned_for(self, key):
        o = set(self.owned) | set(self.also.get(key, ()))
        qual = key.split('::')[1]
        parts = qual.split('.')
        # `self` of request-scoped classes and of any constructor (the object under construction is fresh)
        if parts[-1] == '__init__' or (len(parts) >= 2 and parts[-2] in REQUEST_CLASSES):
            o.add('self')
        return o

    def _all_frames(self):
        """frames of every function of the package (for return-provenance of callees outside the cone)"""
        if not hasattr(FramePass, '_ALL'):
            FramePass._ALL = {}
            for key, (node, src) in self.T.functions.items():
                try:
                    FramePass._ALL[key] = FunctionFrame(key, node, key.split('::')[0], self.T, self.returns_fresh)
                except RecursionError:
                    pass
        return FramePass._ALL

    def resolve(self, prov, depth=0):
        """replace ('callret', callee, receiver) elements by what the callee returns"""
        out = set()
        allf = self._all_frames()
        for p in prov:
            if not (isinstance(p, tuple) and p[0] == 'callret'):
                out.add(p)
                continue
            _, k, recv = p
            cands = [k] if not k.startswith('.') else [key for key in allf if key.split('::')[1].endswith(k) and '.' in key.split('::')[1]]
            if not cands or depth > 3:
                out.add('call')
                continue
            for c in cands:
                fr = allf.get(c)
                if fr is None:
                    out.add('call')
                    continue
                rets = fr.returns or {'fresh'}
                for r in self.resolve(rets, depth + 1):
                    if isinstance(r, tuple) and r[0] == 'param':
                        if r[1] == 'self' and k.startswith('.'):
                            out |= {x + tuple(r[2:]) for x in recv} or {'call'}
                        else:
                            out.add(('param-of-callee', c.split('::')[1], r[1]))
                    else:
                        out.add(r)
        return out

    def run(self):
        """-> (obligations: list of dict(name, status, detail))"""
        obls = []
        mutated_params = {}      # key -> set of own parameter names written (for the transitive check)
        for key, fr in self.frames.items():
            owned = self.owned_for(key)
            for s in fr.sites:
                s.prov = self.resolve(s.prov)
                roots = roots_of(s.prov)
                bad = [r for r in roots if (isinstance(r, tuple) and r[0] == 'global') or (isinstance(r, tuple) and r[0] == 'param' and r[1] not in owned)]
                unk = [r for r in roots if r in ('unknown', 'call') or (isinstance(r, tuple) and r[0] == 'param-of-callee')]
                for r in roots:
                    if isinstance(r, tuple) and r[0] == 'param':
                        mutated_params.setdefault(key, set()).add(r[1])
                name = s.ident()
                if name in self.exempt:
                    obls.append(dict(name=name, status='exempt', line=s.line, detail=self.exempt[name]))
                elif bad:
                    obls.append(dict(name=name, status='violated', line=s.line, detail=f"receiver provenance {sorted(map(str, s.prov))}: writes through {sorted(map(str, bad))} which this activation does not own"))
                elif unk and not (roots - set(unk)):
                    obls.append(dict(name=name, status='undecided', line=s.line, detail=f"receiver provenance {sorted(map(str, s.prov))}"))
                else:
                    obls.append(dict(name=name, status='discharged', line=s.line, detail=f"receiver provenance {sorted(map(str, s.prov))}"))
        # transitive: an argument passed to a callee that writes through that parameter must be owned by the caller
        for key, fr in self.frames.items():
            owned = self.owned_for(key)
            for (callee, call, line) in fr.calls:
                if callee is None or callee not in self.frames or callee not in mutated_params:
                    continue
                cf = self.frames[callee]
                names = cf.params
                bound = {}
                for i, a in enumerate(call.args):
                    if i < len(names) and not isinstance(a, ast.Starred):
                        bound[names[i]] = a
                for k in call.keywords:
                    if k.arg:
                        bound[k.arg] = k.value
                for p in mutated_params[callee]:
                    if p not in bound:
                        continue
                    roots = roots_of(fr.P(bound[p]))
                    bad = [r for r in roots if (isinstance(r, tuple) and r[0] == 'global') or (isinstance(r, tuple) and r[0] == 'param' and r[1] not in owned)]
                    name = f"{key}#call:{callee.split('::')[1]}:{p}@{ast.unparse(bound[p])[:40]}"
                    if name in self.exempt:
                        obls.append(dict(name=name, status='exempt', line=line, detail=self.exempt[name]))
                    elif bad:
                        obls.append(dict(name=name, status='violated', line=line, detail=f"passes {sorted(map(str, bad))} to a callee that writes through parameter {p}"))
                    else:
                        obls.append(dict(name=name, status='discharged', line=line, detail=f"argument provenance {sorted(map(str, roots))}"))
        return obls


REQUEST_CLASSES = {'ExecutionContext', 'ResolveInfo', 'Path', 'CoercionResult', 'TartifletteError', 'MultipleException', 'CoercionError',
                   'ExecutableVariableDefinition', 'Validators'}


def global_state_inventory():
    """every module-level or class-level binding of a mutable object in the package, and every memoising decorator"""
    T = table()
    out = []

    def mutable(v):
        if isinstance(v, (ast.List, ast.Dict, ast.Set, ast.ListComp, ast.DictComp, ast.SetComp)):
            return True
        if isinstance(v, ast.Call):
            f = v.func
            n = f.id if isinstance(f, ast.Name) else (f.attr if isinstance(f, ast.Attribute) else '')
            return n in ('dict', 'list', 'set', 'defaultdict', 'OrderedDict', 'deque', 'WeakValueDictionary', 'WeakKeyDictionary', 'Counter')
        return False
    for rel, (src, tree) in sorted(T.modules.items()):
        for n in tree.body:
            tg = None
            if isinstance(n, ast.Assign) and len(n.targets) == 1 and isinstance(n.targets[0], ast.Name):
                tg, val = n.targets[0].id, n.value
            elif isinstance(n, ast.AnnAssign) and isinstance(n.target, ast.Name) and n.value is not None:
                tg, val = n.target.id, n.value
            if tg and tg != '__all__' and mutable(val):
                out.append(f"{rel}::{tg}")
            if isinstance(n, ast.ClassDef):
                for m in n.body:
                    t2 = None
                    if isinstance(m, ast.Assign) and len(m.targets) == 1 and isinstance(m.targets[0], ast.Name):
                        t2, v2 = m.targets[0].id, m.value
                    elif isinstance(m, ast.AnnAssign) and isinstance(m.target, ast.Name) and m.value is not None:
                        t2, v2 = m.target.id, m.value
                    if t2 and t2 != '__slots__' and mutable(v2):
                        out.append(f"{rel}::{n.name}.{t2}")
        for n in ast.walk(tree):
            if isinstance(n, (ast.FunctionDef, ast.AsyncFunctionDef)):
                for d in n.decorator_list:
                    txt = ast.unparse(d)
                    if 'lru_cache' in txt or txt.split('(')[0].split('.')[-1] in ('cache', 'cached', 'memoize', 'memoized'):
                        out.append(f"{rel}::{n.name}@{txt.split('(')[0]}")
    return sorted(out)


def gather_sites(modules):
    """every asyncio.gather call of the cone with its return_exceptions flag"""
    T = table()
    out = []
    for key, (node, src) in sorted(T.functions.items()):
        rel = key.split('::')[0]
        if not any(rel == m or (m.endswith('/') and rel.startswith(m)) for m in modules):
            continue
        for n in ast.walk(node):
            if isinstance(n, ast.Call) and ((isinstance(n.func, ast.Attribute) and n.func.attr == 'gather') or (isinstance(n.func, ast.Name) and n.func.id == 'gather')):
                flag = any(k.arg == 'return_exceptions' and isinstance(k.value, ast.Constant) and k.value.value is True for k in n.keywords)
                out.append((key, n.lineno, flag, ast.unparse(n)[:80]))
    return out


def spawn_sites(modules):
    """create_task / ensure_future / as_completed / run_in_executor in the cone (none are allowed: every awaitable is awaited in place)"""
    T = table()
    out = []
    for key, (node, src) in sorted(T.functions.items()):
        rel = key.split('::')[0]
        if not any(rel == m or (m.endswith('/') and rel.startswith(m)) for m in modules):
            continue
        for n in ast.walk(node):
            if isinstance(n, ast.Call):
                nm = n.func.attr if isinstance(n.func, ast.Attribute) else (n.func.id if isinstance(n.func, ast.Name) else '')
                if nm in ('create_task', 'ensure_future', 'as_completed', 'run_in_executor', 'call_soon', 'call_later', 'wait', 'shield', 'Task'):
                    out.append((key, n.lineno, nm))
    return out
