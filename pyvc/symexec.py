"""Forward symbolic execution of the Python subset (DESIGN 2.2) producing per-path outcomes and
verification conditions.  The AST executed is the one parsed from /repo on this run.
"""
import ast
import os
import re
import itertools
import z3
from .values import *
from . import values as VAL
from .classtable import table, BUILTIN_EXC_PARENT


class OutOfSubset(Exception):
    pass


class Raise:
    """outcome of an expression: an exception value is propagating"""
    def __init__(self, exc):
        self.exc = exc


# --------------------------------------------------------------------------- python-level values
class PyRef:
    """handle of a mutable container owned by this activation (content in State.heap)"""
    def __init__(self, loc, kind):
        self.loc, self.kind = loc, kind


class PyTuple:
    def __init__(self, items):
        self.items = list(items)


class PyFunc:
    """callable known at verification time. fn(engine, state, args, kwargs) -> [(state, value|Raise)]"""
    def __init__(self, name, fn, term=None):
        self.name, self.fn, self.term = name, fn, term


class PyClassRef:
    def __init__(self, name):
        self.name = name


class PyModule:
    def __init__(self, name):
        self.name = name


class PyIter:
    """iteration descriptor: sources are (kind, value) with kind in list/keys/items/values/range ; modes enumerate/zip/reversed"""
    def __init__(self, sources, enumerate_=False, reversed_=False, start=0):
        self.sources, self.enumerate, self.reversed, self.start = sources, enumerate_, reversed_, start


class PyMapped:
    """result of a comprehension over a symbolic list: an opaque list term plus a lazy element-fact generator"""
    def __init__(self, term, n, elem):
        self.term, self.n, self.elem = term, n, elem     # term: V.List(...)


class State:
    __slots__ = ('conds', 'env', 'heap', 'fields', 'ghost', 'taint', 'escaped', 'mapped', 'cur_exc', 'elem_preds', 'inited')

    def __init__(self, conds=None, env=None, heap=None, fields=None, ghost=None, taint=False, escaped=frozenset(), mapped=None, cur_exc=None, elem_preds=(), inited=frozenset()):
        self.conds = conds or []
        self.env = env or {}
        self.heap = heap or {}
        self.fields = fields or {}
        self.ghost = ghost or {}
        self.taint = taint
        self.escaped = escaped
        self.mapped = mapped or {}
        self.cur_exc = cur_exc
        self.inited = inited              # (fresh ref, attribute) pairs already initialised (see Engine.setattr)
        self.elem_preds = elem_preds      # ((VL term, predicate), ...): "every element of this sequence satisfies predicate"

    def copy(self, **kw):
        s = State(self.conds, self.env, self.heap, self.fields, self.ghost, self.taint, self.escaped, self.mapped, self.cur_exc, self.elem_preds, self.inited)
        for k, v in kw.items():
            setattr(s, k, v)
        return s

    def bind(self, k, v):
        e = dict(self.env)
        e[k] = v
        return self.copy(env=e)

    def assume(self, *cs):
        return self.copy(conds=self.conds + [c for c in cs if not z3.is_true(c)])

    def put_heap(self, loc, v):
        h = dict(self.heap)
        h[loc] = v
        return self.copy(heap=h)

    def put_ghost(self, k, v):
        g = dict(self.ghost)
        g[k] = v
        return self.copy(ghost=g)

    def tainted(self):
        return self.copy(taint=True)


# attribute arrays: one array V -> V per attribute name; the initial version is a global constant
_FIELD0 = {}


def field0(attr):
    if attr not in _FIELD0:
        _FIELD0[attr] = z3.Array(f"attr:{attr}", V, V)
    return _FIELD0[attr]


def attr0(obj, attr):
    """attribute value in the initial heap (specification vocabulary for immutable objects)"""
    return z3.Select(field0(attr), obj)


MUTATORS = {'append', 'extend', 'insert', 'pop', 'popitem', 'remove', 'clear', 'update', 'setdefault', 'add', 'discard', 'sort', 'reverse'}
_alloc = itertools.count(1)


class Engine:
    def __init__(self, module, contract=None, registry=None, consts=None, timeout=250):
        self.T = table()
        self.module = module              # relpath of the module the function lives in (name resolution)
        self.contract = contract
        self.registry = registry or {}    # function key -> Contract (callee summaries)
        self.consts = consts or {}
        self.prune_ms = timeout          # budget of the feasibility pruner (PYVC_PRUNE_MS overrides the base value: robustness probe)
        self.prune2_ms = 60
        self.nprune = 0
        self.obligations = []             # (label, hyps, goal, taint)
        self.inline_depth = 0
        self.loop_ordinal = itertools.count()
        self.notes = []

    # ------------------------------------------------------------------ basics
    def fork(self, st, c):
        c = z3.simplify(c)
        if z3.is_false(c):
            return None
        if z3.is_true(c):
            return st
        q = st.conds + [c]
        full = [VAL.simp(x) for x in q]
        full = full + ground_axioms(full)
        self.nprune += 1
        # 1. recursive definitions abstracted (uninterpreted twins + instantiated lemmas): fast, `unsat` is sound
        s1 = z3.Solver()
        s1.set('timeout', self.prune_ms)
        s1.add(*abstract_recs(full))
        r1 = s1.check()
        if r1 == z3.unsat:
            return None
        if r1 == z3.unknown:
            # 2. with the definitions, short budget
            s2 = z3.Solver()
            s2.set('timeout', getattr(self, 'prune2_ms', 60))
            s2.add(*full)
            if s2.check() == z3.unsat:
                return None
        return st.assume(c)

    def branches(self, st, alts):
        out = []
        for c, v in alts:
            q = self.fork(st, c)
            if q is not None:
                out.append((q, v))
        return out

    def oblige(self, st, label, goal):
        self.obligations.append((label, list(st.conds), goal, st.taint))

    def alloc(self):
        return -next(_alloc)

    def exc_new(self, cname, st=None):
        return V.Obj(self.T.cid[cname], self.alloc())

    def cls_ids(self, cname):
        return [self.T.cid[c] for c in self.T.subclasses(cname)]

    def is_instance_of(self, v, cname):
        ids = self.cls_ids(cname)
        return z3.And(V.is_Obj(v), z3.Or(*[V.ocls(v) == k for k in ids])) if ids else z3.BoolVal(False)

    def known_class(self, v):
        """class name if v is syntactically Obj(<const>, _)"""
        v = z3.simplify(v) if z3.is_expr(v) else v
        if z3.is_expr(v) and z3.is_app(v) and v.decl().name() == 'Obj' and z3.is_int_value(v.arg(0)):
            return self.T.cname.get(v.arg(0).as_long())
        return None

    def possible_classes(self, st, v, candidates):
        """subset of candidate class names feasible for v's class under st"""
        out = []
        for c in candidates:
            if self.fork(st, z3.And(V.is_Obj(v), V.ocls(v) == self.T.cid[c])) is not None:
                out.append(c)
        return out

    # ------------------------------------------------------------------ heap / freezing
    def new_ref(self, st, kind, content):
        loc = self.alloc()
        return st.put_heap(loc, content), PyRef(loc, kind)

    def term(self, v, st, escape=True):
        """freeze a python-level value into a V term (marks refs as escaped)"""
        if z3.is_expr(v):
            return v, st
        if isinstance(v, PyRef):
            if escape:
                st = st.copy(escaped=st.escaped | {v.loc})
            return st.heap[v.loc], st
        if isinstance(v, PyTuple):
            ts = []
            for x in v.items:
                t, st = self.term(x, st, escape)
                ts.append(t)
            return V.Tuple(mklist(*ts)), st
        if isinstance(v, PyMapped):
            return v.term, st
        if isinstance(v, PyFunc):
            if v.term is not None:
                return v.term, st
            if v.fn is None:
                # value of an unmodelled attribute / call (the path is already tainted): arbitrary
                return fresh('havoc_value'), st.tainted()
            raise OutOfSubset(f"callable {v.name} used as a value")
        if isinstance(v, PyClassRef):
            return V.Cls(self.T.cid.get(v.name, 0)), st
        if isinstance(v, PyIter):
            if len(v.sources) == 1 and not v.enumerate and not v.reversed:
                k, s = v.sources[0]
                if k == 'list':
                    return self.term(s, st, escape)
                if k in ('keys', 'values', 'items'):
                    # dict views used as values (e.g. compared with ==): modelled as the list of keys / values / pairs in order
                    return V.List(self.src_seq(k, s, st)), st
            raise OutOfSubset("iterator used as a value")
        raise OutOfSubset(f"cannot freeze {type(v).__name__}")

    def read(self, v, st):
        """view of a value for reading (no escape)"""
        if isinstance(v, PyRef):
            return st.heap[v.loc]
        if isinstance(v, FieldRef):
            return z3.Select(st.fields.get(v.attr, field0(v.attr)), v.obj)
        if isinstance(v, ItemRef):
            cur = self.read(v.owner, st)
            return lookup(V.ditems(cur), v.key)
        if isinstance(v, PyMapped):
            return v.term
        if z3.is_expr(v):
            return v
        t, _ = self.term(v, st, escape=False)
        return t

    # ------------------------------------------------------------------ python semantics helpers
    def truthy(self, v, st):
        if isinstance(v, (PyFunc, PyClassRef, PyModule)):
            return z3.BoolVal(True)
        if isinstance(v, PyTuple):
            return z3.BoolVal(len(v.items) > 0)
        v = self.read(v, st)
        return z3.If(V.is_Bool(v), V.b(v),
               z3.If(V.is_Int(v), V.i(v) != 0,
               z3.If(V.is_Float(v), z3.Not(z3.And(V.fk(v) == 0, V.fint(v), V.fl(v) == 0)),
               z3.If(V.is_Str(v), z3.Not(str_empty(V.s(v))),
               z3.If(V.is_List(v), z3.Not(VL.is_nil(V.items(v))),
               z3.If(V.is_Tuple(v), z3.Not(VL.is_nil(V.titems(v))),
               z3.If(V.is_Dict(v), z3.Not(VL.is_nil(V.ditems(v))),
               z3.If(V.is_Set(v), z3.Not(VL.is_nil(V.sitems(v))),
               z3.If(z3.Or(v == V.None_, v == V.Undef, v == V.Missing), False,
               z3.If(V.is_Obj(v), self.obj_truthy(v), True))))))))))

    def obj_truthy(self, v):
        """objects are truthy unless their class defines __bool__/__len__ (then: uninterpreted, refined by contracts)"""
        special = [c for c in self.T.classes if self.T.resolve_attr(c, '__bool__') or self.T.resolve_attr(c, '__len__')]
        if not special:
            return z3.BoolVal(True)
        ids = [self.T.cid[c] for c in special]
        return z3.If(z3.Or(*[V.ocls(v) == k for k in ids]), VAL_obj_bool(v), True)

    def isinstance_term(self, v, names):
        tests = []
        for n in names:
            if n == 'bool': tests.append(V.is_Bool(v))
            elif n == 'int': tests.append(is_intlike(v))
            elif n == 'float': tests.append(V.is_Float(v))
            elif n == 'str': tests.append(V.is_Str(v))
            elif n == 'list': tests.append(V.is_List(v))
            elif n == 'dict': tests.append(V.is_Dict(v))
            elif n == 'tuple': tests.append(V.is_Tuple(v))
            elif n == 'set': tests.append(V.is_Set(v))
            elif n == 'NoneType': tests.append(v == V.None_)
            elif n == 'bytes': tests.append(z3.And(V.is_Other(v), other_is_bytes(V.oid(v))))
            elif n == 'partial': tests.append(z3.And(V.is_Fun(v), lookup(V.fbound(v), S('__partial__')) != V.Missing))
            elif n in self.T.cid: tests.append(self.is_instance_of(v, n))
            else: raise OutOfSubset(f"isinstance against {n}")
        return z3.Or(*tests) if tests else z3.BoolVal(False)

    # ------------------------------------------------------------------ expressions
    def ev(self, e, st):
        m = getattr(self, 'ev_' + type(e).__name__, None)
        if m is None:
            raise OutOfSubset(f"expression {type(e).__name__} at line {getattr(e, 'lineno', '?')}")
        return m(e, st)

    def ev_term(self, e, st):
        """evaluate and freeze to a term"""
        out = []
        for (s, v) in self.ev(e, st):
            if isinstance(v, Raise):
                out.append((s, v))
            else:
                t, s = self.term(v, s)
                out.append((s, t))
        return out

    def ev_Name(self, e, st):
        if e.id in st.env:
            return [(st, st.env[e.id])]
        if e.id in self.consts:
            return [(st, self.consts[e.id])]
        return [(st, self.global_name(e.id, st))]

    def global_name(self, name, st):
        if name == 'UNDEFINED_VALUE':
            return V.Undef
        if name in ('True', 'False', 'None'):
            return {'True': V.Bool(True), 'False': V.Bool(False), 'None': V.None_}[name]
        r = self.T.resolve_name(self.module, name)
        if r is not None:
            kind, what = r
            if kind == 'func':
                return self.func_value(what)
            if kind == 'class':
                return PyClassRef(what)
            if kind == 'module':
                return PyModule(what)
            if kind == 'external':
                return self.external_value(what)
            if kind == 'const':
                mp, nm = what
                if nm == 'UNDEFINED_VALUE':
                    return V.Undef
                expr = self.T.module_consts[mp][nm]
                if isinstance(expr, ast.Call) and isinstance(expr.func, ast.Name) and expr.func.id == 'object' and not expr.args:
                    return V.Other(-(10 + strid(f"sentinel:{mp}:{nm}")))      # a module-level sentinel object: unique opaque value
                try:
                    val = ast.literal_eval(expr)
                except Exception:
                    if isinstance(expr, ast.Dict) and all(isinstance(k, ast.Constant) for k in expr.keys) and all(isinstance(v, (ast.Name, ast.Constant)) for v in expr.values):
                        # a module-level table of names / literals, read as an immutable value (its mutation is a C17 inventory matter)
                        saved, self.module = self.module, mp
                        try:
                            items = []
                            for k, v in zip(expr.keys, expr.values):
                                vv = self.global_name(v.id, st) if isinstance(v, ast.Name) else self.lit(v.value)
                                vt, _ = self.term(vv, st)
                                items.append(V.Pair(self.lit(k.value), vt))
                        finally:
                            self.module = saved
                        return V.Dict(mklist(*items))
                    raise OutOfSubset(f"module constant {nm} is not a literal")
                return self.lit(val)
        if name in BUILTIN_EXC_PARENT or name in ('object',):
            return PyClassRef(name)
        if name in BUILTINS:
            return PyFunc(name, BUILTINS[name])
        if name in ('bool', 'int', 'float', 'str', 'list', 'dict', 'tuple', 'set'):
            return PyClassRef(name)
        raise OutOfSubset(f"unresolved name {name}")

    def external_value(self, dotted):
        short = dotted.split('.')[-1]
        if dotted in EXTERNALS:
            return PyFunc(dotted, EXTERNALS[dotted])
        if short in BUILTINS and dotted.split('.')[0] in ('math', 'functools', 'asyncio', 'inspect', 'difflib'):
            return PyFunc(dotted, BUILTINS[short])
        return PyFunc(dotted, None)      # unknown external: havoc on call

    def func_value(self, key):
        """a repo function used as a value/callee"""
        return PyFunc(key, lambda en, s, a, kw, key=key: en.call_repo_function(key, s, a, kw), term=V.Fun(fun_id(key), VL.nil))

    def lit(self, v):
        if v is None: return V.None_
        if isinstance(v, bool): return V.Bool(v)
        if isinstance(v, int): return V.Int(v)
        if isinstance(v, str): return S(v)
        if isinstance(v, float):
            return V.Float(0, int(v // 1), v == int(v), strid(repr(v)))
        if isinstance(v, tuple):
            return PyTuple([self.lit(x) for x in v])
        if isinstance(v, list):
            return V.List(mklist(*[self.lit(x) for x in v]))
        raise OutOfSubset(f"literal {v!r}")

    def ev_Constant(self, e, st):
        if e.value is Ellipsis:
            return [(st, V.None_)]
        if isinstance(e.value, bytes):
            return [(st, fresh('bytes'))]
        return [(st, self.lit(e.value))]

    def ev_JoinedStr(self, e, st):
        # message text is opaque; formatting values of the universe never raises (str()/repr() total)
        outs = [(st, None)]
        for part in e.values:
            if isinstance(part, ast.FormattedValue):
                nxt = []
                for (s, _) in outs:
                    for (s2, v) in self.ev(part.value, s):
                        nxt.append((s2, v))
                if any(isinstance(v, Raise) for _, v in nxt):
                    return [(s, v) for s, v in nxt if isinstance(v, Raise)] + [(s, V.Str(fresh('fstr', IntS))) for s, v in nxt if not isinstance(v, Raise)]
                outs = [(s, None) for s, _ in nxt]
        return [(s, V.Str(fresh('fstr', IntS))) for (s, _) in outs]

    def ev_Await(self, e, st):
        # await f(x) = call under f's contract (frames: see frame pass).  A value that is a *coroutine object* (a call model
        # returned it un-awaited) is run now: it yields its value or raises its exception.
        if not isinstance(e.value, (ast.Name, ast.Attribute, ast.Subscript)):
            return self.ev(e.value, st)      # the awaited expression is evaluated (called) right here
        out = []
        for (s, v) in self.ev(e.value, st):
            if isinstance(v, Raise) or not z3.is_expr(v):
                out.append((s, v)); continue
            co = self.is_instance_of(v, 'coroutine')
            q = self.fork(s, z3.Not(co))
            if q is not None:
                out.append((q, v))
            q = self.fork(s, co)
            if q is not None:
                out += self.branches(q, [(z3.Not(coro_raises(v)), coro_value(v)), (coro_raises(v), Raise(coro_exc(v)))])
        return out

    def ev_Yield(self, e, st):
        """async generators: `yield v` appends v to the ghost output sequence `yielded`"""
        out = []
        for (s, v) in (self.ev(e.value, st) if e.value is not None else [(st, V.None_)]):
            if isinstance(v, Raise):
                out.append((s, v)); continue
            t, s = self.term(v, s)
            cur = s.ghost.get('yielded', V.List(VL.nil))
            out.append((s.put_ghost('yielded', V.List(snoc(V.items(cur), t))), V.None_))
        return out

    def ev_Lambda(self, e, st):
        env = dict(st.env)

        def call(en, s, a, kw, e=e, env=env):
            names = [x.arg for x in e.args.args]
            if e.args.vararg is None and len(a) > len(names):
                return [(s, Raise(en.exc_new('TypeError')))]
            s2 = s.copy(env=dict(env))
            for n, v in zip(names, a):
                s2 = s2.bind(n, v)
            for k, v in kw.items():
                if k in names:
                    s2 = s2.bind(k, v)
            return [(r.copy(env=s.env), v) for (r, v) in en.ev(e.body, s2)]
        return [(st, PyFunc('<lambda>', call, term=V.Fun(fun_id(f"lambda@{self.module}:{e.lineno}"), VL.nil)))]

    def ev_Tuple(self, e, st):
        return [(s, v if isinstance(v, Raise) else PyTuple(v)) for (s, v) in self.ev_seq(e.elts, st)]

    def ev_seq(self, elts, st):
        outs = [(st, [])]
        res = []
        for a in elts:
            nxt = []
            for (s1, acc) in outs:
                if isinstance(a, ast.Starred):
                    raise OutOfSubset("starred element")
                for (s2, v) in self.ev(a, s1):
                    if isinstance(v, Raise):
                        res.append((s2, v))
                    else:
                        nxt.append((s2, acc + [v]))
            outs = nxt
        return res + outs

    def ev_List(self, e, st):
        out = []
        for (s, vs) in self.ev_seq(e.elts, st):
            if isinstance(vs, Raise):
                out.append((s, vs)); continue
            ts = []
            for v in vs:
                t, s = self.term(v, s)
                ts.append(t)
            s, r = self.new_ref(s, 'list', V.List(mklist(*ts)))
            out.append((s, r))
        return out

    def ev_Set(self, e, st):
        raise OutOfSubset("set literal")

    def ev_Dict(self, e, st):
        if any(k is None for k in e.keys):
            raise OutOfSubset("dict unpacking")
        out = []
        for (s, vs) in self.ev_seq(list(e.keys) + list(e.values), st):
            if isinstance(vs, Raise):
                out.append((s, vs)); continue
            n = len(e.keys)
            ts = []
            for v in vs:
                t, s = self.term(v, s)
                ts.append(t)
            items = VL.nil
            for k, v in zip(ts[:n], ts[n:]):
                items = assoc_set(items, k, v)
            s, r = self.new_ref(s, 'dict', V.Dict(z3.simplify(items)))
            out.append((s, r))
        return out

    def ev_BoolOp(self, e, st):
        out = []

        def go(i, s):
            for (s1, v) in self.ev(e.values[i], s):
                if isinstance(v, Raise) or i == len(e.values) - 1:
                    out.append((s1, v)); continue
                t = self.truthy(v, s1)
                stop, cont = (z3.Not(t), t) if isinstance(e.op, ast.And) else (t, z3.Not(t))
                q = self.fork(s1, stop)
                if q is not None:
                    out.append((q, v))
                q = self.fork(s1, cont)
                if q is not None:
                    go(i + 1, q)
        go(0, st)
        return self.merge_values(out)

    def merge_values(self, out):
        """merge-always mode: the alternatives of a pure `a or b` / `x if c else y` rejoin into one state whose value is an if-then-else term"""
        if getattr(self.contract, 'merge_ifs', False) != 'always' or len(out) < 2 or any(isinstance(v, Raise) or not z3.is_expr(v) for _, v in out):
            return out
        m = self.merge_states([s.bind('__merge_tmp', v) for s, v in out])
        if m is None:
            return out
        v = m.env['__merge_tmp']
        env = dict(m.env); env.pop('__merge_tmp', None)
        return [(m.copy(env=env), v)]

    def ev_UnaryOp(self, e, st):
        out = []
        for (s, v) in self.ev(e.operand, st):
            if isinstance(v, Raise):
                out.append((s, v))
            elif isinstance(e.op, ast.Not):
                out.append((s, V.Bool(z3.Not(self.truthy(v, s)))))
            elif isinstance(e.op, ast.USub):
                v = self.read(v, s)
                out += self.branches(s, [(is_intlike(v), V.Int(-int_of(v))), (z3.Not(is_intlike(v)), fresh('neg'))])
            else:
                raise OutOfSubset("unary op")
        return out

    def ev_IfExp(self, e, st):
        out = []
        for (s1, c) in self.ev(e.test, st):
            if isinstance(c, Raise):
                out.append((s1, c)); continue
            t = self.truthy(c, s1)
            q = self.fork(s1, t)
            if q is not None:
                out += self.ev(e.body, q)
            q = self.fork(s1, z3.Not(t))
            if q is not None:
                out += self.ev(e.orelse, q)
        return self.merge_values(out)

    def ev_Compare(self, e, st):
        out = []

        def go(i, left, s):
            for (s1, r) in self.ev(e.comparators[i], s):
                if isinstance(r, Raise):
                    out.append((s1, r)); continue
                for (s2, c) in self.cmp(e.ops[i], left, r, s1):
                    if isinstance(c, Raise):
                        out.append((s2, c)); continue
                    if i == len(e.ops) - 1:
                        out.append((s2, V.Bool(c))); continue
                    q = self.fork(s2, z3.Not(c))
                    if q is not None:
                        out.append((q, V.Bool(False)))
                    q = self.fork(s2, c)
                    if q is not None:
                        go(i + 1, r, q)
        for (s0, l) in self.ev(e.left, st):
            if isinstance(l, Raise):
                out.append((s0, l)); continue
            go(0, l, s0)
        return out

    def identity(self, l, r, st):
        if isinstance(l, PyRef) or isinstance(r, PyRef):
            return z3.BoolVal(isinstance(l, PyRef) and isinstance(r, PyRef) and l.loc == r.loc)
        if isinstance(l, PyClassRef) and isinstance(r, PyClassRef):
            return z3.BoolVal(l.name == r.name)
        if isinstance(l, (PyFunc, PyClassRef, PyModule, PyTuple)) or isinstance(r, (PyFunc, PyClassRef, PyModule, PyTuple)):
            if isinstance(l, PyFunc) and isinstance(r, PyFunc):
                return z3.BoolVal(l is r or (l.name == r.name and l.name != '<lambda>'))
            lt = self.read(l, st) if not isinstance(l, (PyModule,)) else None
            rt = self.read(r, st) if not isinstance(r, (PyModule,)) else None
            if lt is None or rt is None:
                return z3.BoolVal(False)
            return lt == rt
        return self.read(l, st) == self.read(r, st)

    def cmp(self, op, l, r, st):
        if isinstance(op, (ast.Is, ast.IsNot)):
            c = self.identity(l, r, st)
            return [(st, c if isinstance(op, ast.Is) else z3.Not(c))]
        if isinstance(op, (ast.In, ast.NotIn)):
            res = []
            for (s, c) in self.contains(r, l, st):
                res.append((s, c if isinstance(c, Raise) or isinstance(op, ast.In) else z3.Not(c)))
            return res
        if isinstance(l, PyClassRef) or isinstance(r, PyClassRef) or isinstance(l, PyFunc) or isinstance(r, PyFunc):
            c = self.identity(l, r, st)
            if isinstance(op, ast.Eq): return [(st, c)]
            if isinstance(op, ast.NotEq): return [(st, z3.Not(c))]
            raise OutOfSubset("ordering of classes/functions")
        l, r = self.read(l, st), self.read(r, st)
        both = z3.And(is_num(l), is_num(r))
        alts = []
        if isinstance(op, (ast.Eq, ast.NotEq)):
            objs = z3.And(V.is_Obj(l), V.is_Obj(r))
            eq = z3.If(objs, z3.Or(l == r, obj_eq(l, r)), l == r)
            alts.append((z3.Not(both), eq if isinstance(op, ast.Eq) else z3.Not(eq)))
        else:
            alts.append((z3.Not(both), Raise(self.exc_new('TypeError'))))
        lf, rf = V.is_Float(l), V.is_Float(r)
        a, b = int_of(l), int_of(r)
        ii = {ast.LtE: a <= b, ast.Lt: a < b, ast.GtE: a >= b, ast.Gt: a > b, ast.Eq: a == b, ast.NotEq: a != b}[type(op)]
        alts.append((z3.And(both, z3.Not(lf), z3.Not(rf)), ii))
        alts.append((z3.And(both, lf, z3.Not(rf)), self.ficmp(op, l, b, True)))
        alts.append((z3.And(both, z3.Not(lf), rf), self.ficmp(op, r, a, False)))
        alts.append((z3.And(both, lf, rf), self.ffcmp(op, l, r)))
        return self.branches(st, alts)

    def ficmp(self, op, f, n, lfloat):
        fin = V.fk(f) == 0
        fl, isint = V.fl(f), V.fint(f)
        f_le = z3.If(isint, fl <= n, fl < n); f_lt = fl < n; f_ge = fl >= n
        f_gt = z3.If(isint, fl > n, fl >= n); f_eq = z3.And(isint, fl == n)
        pinf, ninf = V.fk(f) == 2, V.fk(f) == 3
        T, F = z3.BoolVal(True), z3.BoolVal(False)
        w = lambda a, b, c: z3.If(fin, a, z3.If(pinf, b, z3.If(ninf, c, False)))
        m = {ast.LtE: w(f_le, F, T), ast.Lt: w(f_lt, F, T), ast.GtE: w(f_ge, T, F), ast.Gt: w(f_gt, T, F), ast.Eq: w(f_eq, F, F)} if lfloat else \
            {ast.LtE: w(f_ge, T, F), ast.Lt: w(f_gt, T, F), ast.GtE: w(f_le, F, T), ast.Gt: w(f_lt, F, T), ast.Eq: w(f_eq, F, F)}
        return z3.Not(m[ast.Eq]) if type(op) is ast.NotEq else m[type(op)]

    def ffcmp(self, op, l, r):
        same = V.fid(l) == V.fid(r)
        eq = z3.If(same, V.fk(l) != 1, z3.And(V.fk(l) == 0, V.fk(r) == 0, V.fint(l), V.fint(r), V.fl(l) == V.fl(r)))
        if type(op) is ast.Eq: return eq
        if type(op) is ast.NotEq: return z3.Not(eq)
        return fresh('ffcmp', BoolS)     # ordering between two floats: unconstrained

    def contains(self, container, x, st):
        if isinstance(container, PyTuple):
            xt = self.read(x, st)
            return [(st, z3.Or(*[self.read(i, st) == xt for i in container.items]) if container.items else z3.BoolVal(False))]
        c = self.read(container, st)
        xt = self.read(x, st)
        alts = [(V.is_List(c), mem(V.items(c), xt)), (V.is_Tuple(c), mem(V.titems(c), xt)),
                (V.is_Dict(c), lookup(V.ditems(c), xt) != V.Missing), (V.is_Set(c), mem(V.sitems(c), xt)),
                (z3.And(V.is_Str(c)), fresh('substr', BoolS)),
                (z3.Not(z3.Or(V.is_List(c), V.is_Tuple(c), V.is_Dict(c), V.is_Set(c), V.is_Str(c))), Raise(self.exc_new('TypeError')))]
        return self.branches(st, alts)

    def ev_BinOp(self, e, st):
        out = []
        for (s, vs) in self.ev_seq([e.left, e.right], st):
            if isinstance(vs, Raise):
                out.append((s, vs)); continue
            l, r = self.read(vs[0], s), self.read(vs[1], s)
            dunder = {ast.Add: '__add__'}.get(type(e.op))
            done = False
            if dunder:
                for cn, ci in self.T.classes.items():
                    if dunder in ci.methods and self.fork(s, z3.Not(self.is_instance_of(l, cn))) is None:
                        key = f"{ci.module}::{cn}.{dunder}"
                        out += self.call_repo_function(key, s, [l, r], {})
                        done = True
                        break
            if done:
                continue
            if isinstance(e.op, ast.Add):
                out += self.branches(s, [
                    (z3.And(is_intlike(l), is_intlike(r)), V.Int(int_of(l) + int_of(r))),
                    (z3.And(V.is_Str(l), V.is_Str(r)), V.Str(str_concat(V.s(l), V.s(r)))),
                    (z3.And(V.is_List(l), V.is_List(r)), V.List(app(V.items(l), V.items(r)))),
                    (z3.And(z3.Not(z3.And(is_intlike(l), is_intlike(r))), z3.Not(z3.And(V.is_Str(l), V.is_Str(r))), z3.Not(z3.And(V.is_List(l), V.is_List(r))),
                            z3.Or(z3.Not(is_num(l)), z3.Not(is_num(r)))), Raise(self.exc_new('TypeError'))),
                    (z3.And(is_num(l), is_num(r), z3.Or(V.is_Float(l), V.is_Float(r))), fresh('fadd'))])
            elif isinstance(e.op, ast.Sub):
                out += self.branches(s, [(z3.And(is_intlike(l), is_intlike(r)), V.Int(int_of(l) - int_of(r))),
                                         (z3.Not(z3.And(is_intlike(l), is_intlike(r))), fresh('sub'))])
            elif isinstance(e.op, ast.Mod):
                out.append((s, V.Str(fresh('fmt', IntS))) if isinstance(e.left, ast.Constant) and isinstance(e.left.value, str) else (s.tainted(), fresh('mod')))
            else:
                raise OutOfSubset(f"binary op {type(e.op).__name__}")
        return out

    # ---- attributes
    def ev_Attribute(self, e, st):
        out = []
        for (s1, v) in self.ev(e.value, st):
            if isinstance(v, Raise):
                out.append((s1, v)); continue
            out += self.getattr(v, e.attr, s1)
        return out

    def getattr(self, v, attr, st):
        if isinstance(v, PyModule):
            dotted = v.name + '.' + attr
            mp = self.T._modpath(dotted)
            if mp is not None:
                return [(st, PyModule(dotted))]
            mp = self.T._modpath(v.name)
            if mp is not None:
                r = self.T.resolve_name(mp, attr)
                if r and r[0] == 'func': return [(st, self.func_value(r[1]))]
                if r and r[0] == 'class': return [(st, PyClassRef(r[1]))]
            return [(st, self.external_value(dotted))]
        if isinstance(v, PyClassRef):
            r = self.T.resolve_attr(v.name, attr) if v.name in self.T.classes else None
            if r and r[0] == 'const':
                return self.ev(r[2], st)
            if attr == '__name__':
                return [(st, S(v.name))]
            if r and r[0] == 'method':
                # Class.method(...): a staticmethod is called with the arguments as they are, a classmethod gets the class first
                decos = [d.id if isinstance(d, ast.Name) else getattr(d, 'attr', '?') for d in r[2].decorator_list]
                key = f"{self.T.classes[r[1]].module}::{r[1]}.{attr}"
                if 'staticmethod' in decos:
                    return [(st, PyFunc(key, lambda en, s, a, kw, key=key: en.call_repo_function(key, s, list(a), kw)))]
                if 'classmethod' in decos:
                    return [(st, PyFunc(key, lambda en, s, a, kw, key=key, v=v: en.call_repo_function(key, s, [v] + list(a), kw)))]
            raise OutOfSubset(f"class attribute {v.name}.{attr}")
        if isinstance(v, PyFunc) and v.fn is None:
            return [(st.tainted(), PyFunc(f"{v.name}.{attr}", None))]      # attribute of an unmodelled value: still unmodelled (tainted)
        if isinstance(v, (PyRef, PyTuple, PyMapped, PyFunc, PyIter, KwBundle, ItemRef)):
            return [(st, PyFunc(f".{attr}", lambda en, s, a, kw, v=v, attr=attr: en.container_method(v, attr, s, a, kw)))]
        # term
        hook = getattr(self.contract, 'getattr_hook', None)
        if hook is not None:
            r = hook(self, st, v, attr)
            if r is not None:
                return r
        if attr == 'keywords' and self.fork(st, z3.Not(V.is_Fun(v))) is None:
            return [(st, V.Dict(V.fbound(v)))]       # functools.partial.keywords (extra marker entries are never looked up)
        cn = self.known_class(v)
        if cn is not None:
            return self.getattr_class(v, cn, attr, st)
        # class not syntactically known: non-objects have container/str methods; objects fork over feasible classes
        outs = []
        nonobj = self.fork(st, z3.Not(V.is_Obj(v)))
        if nonobj is not None:
            if attr in CONTAINER_ATTRS:
                outs.append((nonobj, PyFunc(f".{attr}", lambda en, s, a, kw, v=v, attr=attr: en.container_method(v, attr, s, a, kw))))
            else:
                # None has no attributes besides the dunder ones: AttributeError, exactly (NoneType cannot be patched)
                isnone = self.fork(nonobj, v == V.None_) if not attr.startswith('__') else None
                if isnone is not None:
                    outs.append((isnone, Raise(self.exc_new('AttributeError'))))
                    nonobj = self.fork(nonobj, v != V.None_)
                # attribute of another builtin value that is not modelled: never guess AttributeError (DESIGN 2.4: havoc + taint)
                if nonobj is not None:
                    self.notes.append(f"unmodelled attribute .{attr} on a non-object value")
                    outs.append((nonobj.tainted(), PyFunc(f".{attr}", None)))
        isobj = self.fork(st, V.is_Obj(v))
        if isobj is not None:
            const_term = self.const_attr_term(v, attr)
            if const_term is not None:
                missing, term = const_term
                q = self.fork(isobj, z3.Not(missing))
                if q is not None:
                    outs.append((q, term))
                q = self.fork(isobj, missing)
                if q is not None:
                    outs.append((q, Raise(self.exc_new('AttributeError'))))
                return outs
            groups = {}
            for c in self.T.cid:
                r = self.T.resolve_attr(c, attr) if (c in self.T.classes) else None
                key = (('inst',) if r[0] == 'inst' else (r[0], r[1], id(r[2]))) if r else None
                groups.setdefault(key, (r, []))[1].append(c)
            for key, (r, classes) in groups.items():
                cond = z3.Or(*[V.ocls(v) == self.T.cid[c] for c in classes])
                q = self.fork(isobj, cond)
                if q is None:
                    continue
                if r is None:
                    outs.append((q, Raise(self.exc_new('AttributeError'))))
                else:
                    outs += self.getattr_resolved(v, r, attr, q)
        return outs

    def const_attr_term(self, v, attr):
        """class-level constant attribute (literal per class): an if-chain over the class id instead of one path per class"""
        cache = self.__dict__.setdefault('_const_cache', {})
        if attr not in cache:
            table_ = {}
            ok = True
            for c in self.T.cid:
                r = self.T.resolve_attr(c, attr) if c in self.T.classes else None
                if r is None:
                    table_.setdefault(None, []).append(c)
                    continue
                if r[0] != 'const':
                    ok = False
                    break
                try:
                    val = ast.literal_eval(r[2])
                except Exception:
                    ok = False
                    break
                if not isinstance(val, (bool, int, str, type(None))):
                    ok = False
                    break
                table_.setdefault(('v', val), []).append(c)
            cache[attr] = table_ if ok and any(k is not None for k in table_) else None
        table_ = cache[attr]
        if table_ is None:
            return None
        term = V.None_
        for key, classes in table_.items():
            if key is None:
                continue
            term = z3.If(z3.Or(*[V.ocls(v) == self.T.cid[c] for c in classes]), self.lit(key[1]), term)
        have = [c for key, classes in table_.items() if key is not None for c in classes]
        missing = z3.Not(z3.Or(*[V.ocls(v) == self.T.cid[c] for c in have]))
        return missing, term

    def getattr_class(self, v, cn, attr, st):
        r = self.T.resolve_attr(cn, attr) if cn in self.T.classes else None
        if r is None:
            if cn in BUILTIN_EXC_PARENT and attr == 'args':
                return [(st, fresh('args'))]
            return [(st, Raise(self.exc_new('AttributeError')))]
        return self.getattr_resolved(v, r, attr, st)

    def getattr_resolved(self, v, r, attr, st):
        kind, owner, node = r
        if kind == 'inst':
            return [(st, z3.Select(st.fields.get(attr, field0(attr)), v))]
        if kind == 'const':
            return self.ev(node, st)
        if kind == 'prop':
            key = f"{self.T.classes[owner].module}::{owner}.{attr}"
            return self.call_repo_function(key, st, [v], {})
        if kind == 'method' and attr in (getattr(self.contract, 'instance_overrides', ()) if self.contract else ()):
            # an instance attribute may shadow the method (set by located_error): Missing in the attribute array = not shadowed
            key = f"{self.T.classes[owner].module}::{owner}.{attr}"
            meth = V.Fun(fun_id(key), mklist(V.Pair(S('self'), v)))
            inst = z3.Select(st.fields.get(attr, field0(attr)), v)
            return [(st, z3.If(inst == V.Missing, meth, inst))]
        if kind == 'method':
            key = f"{self.T.classes[owner].module}::{owner}.{attr}"
            return [(st, PyFunc(key, lambda en, s, a, kw, key=key, v=v: en.call_repo_function(key, s, [v] + list(a), kw),
                                term=V.Fun(fun_id(key), mklist(V.Pair(S('self'), v)))))]
        raise OutOfSubset("attribute kind")

    def setattr(self, obj, attr, val, st):
        # First write to an attribute of an object allocated by this activation (concrete negative reference): the
        # allocation is modelled as picking a blank object of the initial heap whose attribute already holds the value
        # ("prophecy" allocation).  The fact lands on the initial array, so specification functions, which read the
        # initial heap, see freshly constructed immutable objects.  Later writes are ordinary stores.
        o = z3.simplify(obj)
        if z3.is_app(o) and o.decl().name() == 'Obj' and z3.is_int_value(o.arg(1)) and o.arg(1).as_long() < 0:
            key = (o.arg(1).as_long(), attr)
            if key not in st.inited and attr not in st.fields:
                # fact on the initial array (for specification functions) AND a store (so that reads simplify to the value)
                f = dict(st.fields)
                f[attr] = z3.Store(field0(attr), o, val)
                return st.copy(inited=st.inited | {key}, fields=f).assume(z3.Select(field0(attr), o) == val)
            if key not in st.inited and self.only_fresh_stores(st.fields[attr], attr):
                f = dict(st.fields)
                f[attr] = z3.Store(st.fields[attr], o, val)
                return st.copy(inited=st.inited | {key}, fields=f).assume(z3.Select(field0(attr), o) == val)
        arr = st.fields.get(attr, field0(attr))
        f = dict(st.fields)
        f[attr] = z3.Store(arr, obj, val)
        return st.copy(fields=f)

    # ---- subscripts
    def ev_Subscript(self, e, st):
        out = []
        if isinstance(e.slice, ast.Slice):
            sl = e.slice
            if sl.lower is None and sl.upper is None and isinstance(sl.step, ast.UnaryOp) and isinstance(sl.step.op, ast.USub) \
                    and isinstance(sl.step.operand, ast.Constant) and sl.step.operand.value == 1:
                for (s, v) in self.ev(e.value, st):
                    if isinstance(v, Raise):
                        out.append((s, v)); continue
                    t = self.read(v, s)
                    s2, r = self.new_ref(s, 'list', V.List(rev_onto(V.items(t), VL.nil)))
                    out.append((s2.assume(V.is_List(t)), r))
                return out
            raise OutOfSubset("slice")
        for (s, vs) in self.ev_seq([e.value, e.slice], st):
            if isinstance(vs, Raise):
                out.append((s, vs)); continue
            c, k = vs
            if isinstance(c, PyTuple) and z3.is_expr(k) and z3.is_int_value(z3.simplify(V.i(k))):
                out.append((s, c.items[z3.simplify(V.i(k)).as_long()])); continue
            out += self.subscript(c, k, s)
        return out

    def subscript(self, c, k, st):
        if isinstance(c, PyMapped):
            kk = self.read(k, st)
            outs = []
            for s2 in c.elem(self, st, V.i(kk)):
                outs.append((s2, nth(V.items(c.term), V.i(kk))))
            return outs
        c, k = self.read(c, st), self.read(k, st)
        idx = z3.If(V.i(k) < 0, V.i(k) + length(V.items(c)), V.i(k))
        tidx = z3.If(V.i(k) < 0, V.i(k) + length(V.titems(c)), V.i(k))
        lk = lookup(V.ditems(c), k)
        return self.branches(st, [
            (z3.And(V.is_Dict(c), lk != V.Missing), lk),
            (z3.And(V.is_Dict(c), lk == V.Missing), Raise(self.exc_new('KeyError'))),
            (z3.And(V.is_List(c), is_intlike(k), idx >= 0, idx < length(V.items(c))), nth(V.items(c), idx)),
            (z3.And(V.is_List(c), is_intlike(k), z3.Or(idx < 0, idx >= length(V.items(c)))), Raise(self.exc_new('IndexError'))),
            (z3.And(V.is_Tuple(c), is_intlike(k), tidx >= 0, tidx < length(V.titems(c))), nth(V.titems(c), tidx)),
            (z3.And(V.is_Tuple(c), is_intlike(k), z3.Or(tidx < 0, tidx >= length(V.titems(c)))), Raise(self.exc_new('IndexError'))),
            (z3.Not(z3.Or(V.is_Dict(c), z3.And(z3.Or(V.is_List(c), V.is_Tuple(c)), is_intlike(k)))), Raise(self.exc_new('TypeError')))])

    # ---- comprehensions
    def ev_ListComp(self, e, st):
        if len(e.generators) != 1 or e.generators[0].is_async:
            raise OutOfSubset("comprehension shape")
        g = e.generators[0]
        out = []
        for (s, it) in self.ev(g.iter, st):
            if isinstance(it, Raise):
                out.append((s, it)); continue
            out += self.comprehension(e, g, it, s)
        return out

    def comprehension(self, e, g, it, st):
        desc = self.iter_desc(it, st)
        conc = self.concrete_iter(desc, st)
        out = []
        if conc is not None:
            # unroll over a list of known length
            states = [(st, [])]
            for elem in conc:
                nxt = []
                for (s, acc) in states:
                    s2 = self.bind_target(g.target, elem, s)
                    conds = [(s2, True)]
                    for cnd in g.ifs:
                        nc = []
                        for (s3, keep) in conds:
                            if keep is not True and keep is False:
                                nc.append((s3, False)); continue
                            for (s4, cv) in self.ev(cnd, s3):
                                if isinstance(cv, Raise):
                                    out.append((s4.copy(env=st.env), cv)); continue
                                t = self.truthy(cv, s4)
                                q = self.fork(s4, t)
                                if q is not None: nc.append((q, True))
                                q = self.fork(s4, z3.Not(t))
                                if q is not None: nc.append((q, False))
                        conds = nc
                    for (s3, keep) in conds:
                        if not keep:
                            nxt.append((s3, acc)); continue
                        for (s4, v) in self.ev(e.elt, s3):
                            if isinstance(v, Raise):
                                out.append((s4.copy(env=st.env), v)); continue
                            t, s4 = self.term(v, s4)
                            nxt.append((s4, acc + [t]))
                states = nxt
            for (s, acc) in states:
                s = s.copy(env=st.env)
                s, r = self.new_ref(s, 'list', V.List(mklist(*acc)))
                out.append((s, r))
            return out
        if g.ifs:
            return self.filter_comprehension(e, g, desc, st)
        # symbolic length: map rule with lazy element facts
        n = self.iter_len(desc, st)
        R = fresh('comp', VL)
        env0 = st.env
        capture = getattr(self, 'capture_exc', False)
        comp_all = (getattr(self.contract, 'comp_all', None) or {}).get(self.comp_ordinal(e)) if self.contract else None
        effect = getattr(self.contract, 'comp_effects', {}).get(self.comp_ordinal(e)) if self.contract else None
        comp_map = (getattr(self.contract, 'comp_maps', None) or {}).get(self.comp_ordinal(e)) if self.contract else None
        if comp_map is not None:
            comp_map = (comp_map[0], list(comp_map[1](self)))
        pre_state = st
        if effect is not None:
            st = effect.enter(self, st, n)          # obligation inv(0); havoc; nothing assumed yet

        def elem(en, s, k, g=g, e=e, desc=desc, env0=env0, pre_state=pre_state):
            """states refining s with the facts about nth(R, k) -- element expression evaluated at index k.
            The element may only allocate fresh objects (checked when the comprehension is built), so evaluating it
            lazily in the current heap is equivalent to evaluating it at comprehension time."""
            key = (R.get_id(), z3.simplify(k).get_id())
            if key in s.mapped:
                return [s]
            s = s.copy(mapped={**s.mapped, key: True})
            facts = []
            x = en.iter_elem(desc, k, s.copy(env=env0), facts)
            s = s.assume(*facts)
            inner = en.bind_target(g.target, x, s.copy(env=dict(env0)))
            res = []
            for (s2, v) in en.ev(e.elt, inner):
                if isinstance(v, Raise):
                    if not capture:
                        continue        # raising elements are accounted for when the comprehension is built
                    v = v.exc           # gather(return_exceptions=True): the exception is the element
                t, s2 = en.term(v, s2)
                if effect is not None:
                    s2 = s2.copy(fields=s.fields, ghost=s.ghost)     # effects were summarised by the effect invariant
                res.append(s2.copy(env=s.env, heap=s.heap).assume(nth(R, k) == t))
            return res
        # evaluate the element once for an arbitrary index: raising paths make the comprehension raise
        watermark = next(_alloc)
        k0 = fresh('ck', IntS)
        gen = st.assume(k0 >= 0, k0 < n)
        if effect is not None:
            gen = effect.at(self, gen, k0)
        facts = []
        x = self.iter_elem(desc, k0, gen, facts)
        gen = gen.assume(*facts)
        inner = self.bind_target(g.target, x, gen)
        any_ok = False
        for (s2, v) in self.ev(e.elt, inner):
            if isinstance(v, Raise) and capture:
                v = v.exc
            if isinstance(v, Raise):
                out.append((s2.copy(env=st.env), v))
            else:
                any_ok = True
                if comp_all is not None:
                    t, s2 = self.term(v, s2)
                    for (fl, ps) in comp_all:
                        self.oblige(s2, f"comp{self.comp_ordinal(e)}:element:{fl.name}", fl.pred(t, *ps))
                if comp_map is not None and len(desc.sources) == 1:
                    t, s2 = self.term(v, s2)
                    self.oblige(s2, f"comp{self.comp_ordinal(e)}:map:element_is_the_named_function_of_the_source_element", t == comp_map[0].elem(x, *comp_map[1]))
                if effect is not None:
                    effect.step(self, s2, k0)      # obligation inv(k0+1)
                elif not self.only_fresh_writes(s2, inner, watermark):
                    raise OutOfSubset("comprehension element writes pre-existing object state (needs comp_effects in the contract)")
        if any_ok or True:
            s = st.assume(length(R) == n, n >= 0)
            if comp_all is not None:
                # map rule: the element expression satisfies P at an arbitrary index, hence every element of the result does
                s = s.assume(*[fl(R, *ps) for (fl, ps) in comp_all])
            if comp_map is not None and len(desc.sources) == 1:
                # the contract names the mapping (MapList): pointwise equal lists of equal length are equal (extensionality; induction on the source)
                seq = z3.simplify(self.src_seq(desc.sources[0][0], desc.sources[0][1], st))
                s = s.assume(R == comp_map[0](seq, *comp_map[1]))
            if effect is not None:
                s = effect.exit(self, s, n)
            out.append((s, PyMapped(V.List(R), n, elem)))
        return out

    def only_fresh_stores(self, arr, attr):
        """the array is the initial one updated only at freshly allocated objects (prophecy-initialised), so the initial array
        still describes every other object and facts about it stay valid"""
        cur = arr
        while True:
            if cur.eq(field0(attr)):
                return True
            if z3.is_app(cur) and cur.decl().kind() == z3.Z3_OP_STORE:
                obj = z3.simplify(cur.arg(1))
                if not (z3.is_app(obj) and obj.decl().name() == 'Obj' and z3.is_int_value(obj.arg(1)) and obj.arg(1).as_long() < 0):
                    return False
                cur = cur.arg(0)
                continue
            return False

    def only_fresh_writes(self, after, before, watermark):
        """every attribute store made between `before` and `after` targets an object allocated after `watermark`"""
        ignore = getattr(self.contract, 'ignore_fields', ()) if self.contract else ()
        for a, arr in after.fields.items():
            if a in ignore:
                continue          # declared: no clause of this contract depends on the attribute (message texts)
            base = before.fields.get(a)
            cur = arr
            while True:
                if base is not None and cur.eq(base):
                    break
                if z3.is_app(cur) and cur.decl().kind() == z3.Z3_OP_STORE:
                    obj = z3.simplify(cur.arg(1))
                    ok = z3.is_app(obj) and obj.decl().name() == 'Obj' and z3.is_int_value(obj.arg(1)) and obj.arg(1).as_long() < -watermark
                    if not ok:
                        return False
                    cur = cur.arg(0)
                    continue
                if base is None and cur.eq(field0(a)):
                    break
                return False
        return True

    def filter_comprehension(self, e, g, desc, st):
        """[elt for x in L if c]: result is an opaque list; element facts are lost (weak, sound) unless elt is the loop variable"""
        n = self.iter_len(desc, st)
        R = fresh('filt', VL)
        k0 = fresh('ck', IntS)
        gen = st.assume(k0 >= 0, k0 < n)
        x = self.iter_elem(desc, k0, gen)
        inner = self.bind_target(g.target, x, gen)
        out = []
        for cnd in g.ifs:
            for (s2, v) in self.ev(cnd, inner):
                if isinstance(v, Raise):
                    out.append((s2.copy(env=st.env), v))
        for (s2, v) in self.ev(e.elt, inner):
            if isinstance(v, Raise):
                out.append((s2.copy(env=st.env), v))
        hook = getattr(self.contract, 'filter_facts', None)
        s = st.assume(length(R) >= 0, length(R) <= n)
        # a filtered list keeps every "all elements satisfy P" fact of its (single) source
        if len(desc.sources) == 1 and desc.sources[0][0] in ('list',) and isinstance(e.elt, ast.Name) and isinstance(g.target, ast.Name) and e.elt.id == g.target.id:
            seq = z3.simplify(self.src_seq(desc.sources[0][0], desc.sources[0][1], st))
            full = [VAL.simp(x) for x in st.conds]
            for a in collect_apps(full + ground_axioms(full), set(ForallList._made)):
                if z3.simplify(a.arg(0)).eq(seq):
                    fl = ForallList._made[a.decl().name()]
                    s = s.assume(z3.Implies(a, fl.fn(R, *[a.arg(i) for i in range(1, a.num_args())])))
        # [elt for x in L if c(x)] with a side-effect free condition: the result is empty iff no element of L satisfies c (filter lemma:
        # induction on L); when elt is x itself, every element of the result satisfies c.  Either the contract names the predicates
        # (filter_specs: obligation "in every evaluation of the condition at an arbitrary element its truth value is P(x)"); without filter_specs the
        # result stays an opaque list no longer than its source.
        if len(desc.sources) == 1 and desc.sources[0][0] in ('list', 'values', 'keys') and not desc.enumerate and isinstance(g.target, ast.Name) and len(g.ifs) == 1 and z3.is_expr(x):
            same_elt = isinstance(e.elt, ast.Name) and e.elt.id == g.target.id
            seq = z3.simplify(self.src_seq(desc.sources[0][0], desc.sources[0][1], st))
            spec = (getattr(self.contract, 'filter_specs', None) or {}).get(self.comp_ordinal(e)) if self.contract else None
            fresh_mark = next(VAL._fresh)
            paths, pure = [], True
            for (s2, v) in self.ev(g.ifs[0], inner):
                if isinstance(v, Raise):
                    continue        # a raising evaluation is an outcome of the comprehension (reported above); it keeps no element
                if s2.fields is not inner.fields and any(not s2.fields[a].eq(inner.fields.get(a, field0(a))) for a in s2.fields):
                    pure = False; break
                if s2.heap != inner.heap and any(k_ not in inner.heap or not (inner.heap[k_] is v_ or (z3.is_expr(v_) and z3.is_expr(inner.heap[k_]) and v_.eq(inner.heap[k_]))) for k_, v_ in s2.heap.items()):
                    pure = False; break
                paths.append((s2, self.truthy(v, s2)))
            none_ = all_ = None
            if pure and paths and spec is not None:
                kept_fl, rej_fl, ps = spec[0], spec[1], list(spec[2](self))
                for (s2, tv) in paths:
                    self.oblige(s2, f"comp{self.comp_ordinal(e)}:filter:condition_is_the_kept_predicate", tv == kept_fl.pred(x, *ps))
                self.oblige(inner, f"comp{self.comp_ordinal(e)}:filter:rejected_predicate_is_its_negation", rej_fl.pred(x, *ps) == z3.Not(kept_fl.pred(x, *ps)))
                none_ = (lambda l_, f=rej_fl, ps=ps: f(l_, *ps))
                all_ = (lambda l_, f=kept_fl, ps=ps: f(l_, *ps))
                if len(spec) > 3 and spec[3] is not None:
                    if spec[3].base is not kept_fl:
                        raise OutOfSubset("filter_specs: the count function must count the kept predicate")
                    s = s.assume(length(R) == spec[3](seq, *ps))      # filter lemma: as many results as elements satisfying P
            if none_ is not None:
                s = s.assume(VL.is_nil(R) == none_(seq))
                if same_elt:
                    s = s.assume(all_(R))
        if hook is not None:
            s = hook(self, s, e, desc, R)
        s, r = self.new_ref(s, 'list', V.List(R))
        out.append((s, r))
        return out

    def comp_ordinal(self, e):
        return getattr(e, '_ordinal', None)

    def ev_DictComp(self, e, st):
        """{k: v for targets in it if c}  ==  d = {}; for targets in it: if c: d[k] = v   (same loop rule, invariant keyed by
        ('dictcomp', ordinal) in the contract)"""
        if len(e.generators) != 1 or e.generators[0].is_async:
            raise OutOfSubset("dict comprehension shape")
        g = e.generators[0]
        name = f"__dictcomp{getattr(e, '_ordinal', 0)}"
        st1, ref = self.new_ref(st, 'dict', V.Dict(VL.nil))
        st1 = st1.bind(name, ref)
        store = ast.Assign(targets=[ast.Subscript(value=ast.Name(id=name, ctx=ast.Load()), slice=e.key, ctx=ast.Store())], value=e.value)
        body = store
        for cnd in reversed(g.ifs):
            body = ast.If(test=cnd, body=[body], orelse=[])
        loop = ast.For(target=g.target, iter=g.iter, body=[body], orelse=[])
        ast.copy_location(loop, e)
        ast.fix_missing_locations(loop)
        loop._ordinal = ('dictcomp', getattr(e, '_ordinal', 0))
        out = []
        for (s2, kind, v) in self.st_For(loop, st1):
            if kind == 'raise':
                out.append((s2.copy(env=st.env), Raise(v)))
            elif kind == 'fall':
                out.append((s2.copy(env=st.env), s2.env[name]))
            else:
                raise OutOfSubset("control flow out of a dict comprehension")
        return out

    def ev_SetComp(self, e, st):
        raise OutOfSubset("set comprehension")

    def ev_GeneratorExp(self, e, st):
        raise OutOfSubset("generator expression")

    def ev_Starred(self, e, st):
        raise OutOfSubset("starred")

    # ---- iteration helpers
    def iter_desc(self, it, st):
        if isinstance(it, PyIter):
            return it
        if isinstance(it, PyTuple):
            return PyIter([('tuple', it)])
        return PyIter([('list', it)])

    def concrete_iter(self, d, st):
        """list of python-level elements when every source has a syntactically known length"""
        cols = []
        for kind, src in d.sources:
            if kind == 'tuple':
                cols.append(list(src.items)); continue
            if kind == 'range':
                return None
            t = self.read(src, st)
            t = z3.simplify(t)
            if not (z3.is_app(t) and t.decl().name() in ('List', 'Tuple', 'Dict', 'Set')):
                return None
            inner = t.arg(0)
            xs = concrete_list(inner)
            if xs is None:
                return None
            if t.decl().name() == 'Dict':
                if kind in ('list', 'keys'): xs = [z3.simplify(V.fst(p)) for p in xs]
                elif kind == 'values': xs = [z3.simplify(V.snd(p)) for p in xs]
                elif kind == 'items': xs = [PyTuple([z3.simplify(V.fst(p)), z3.simplify(V.snd(p))]) for p in xs]
            cols.append(xs)
        n = min(len(c) for c in cols)
        rows = []
        for i in range(n):
            vals = [c[i] for c in cols]
            x = vals[0] if len(vals) == 1 else PyTuple(vals)
            rows.append(x)
        if d.reversed:
            rows = rows[::-1]
        if d.enumerate:
            rows = [PyTuple([V.Int(i + d.start), x]) for i, x in enumerate(rows)]
        return rows

    def src_seq(self, kind, src, st):
        """VL term of the sequence iterated for one source"""
        if kind == 'tuple':
            t, _ = self.term(src, st, escape=False)
            return V.titems(t)
        t = self.read(src, st)
        if kind == 'list':
            for test, sel in ((V.is_List, V.items), (V.is_Tuple, V.titems), (V.is_Set, V.sitems)):
                if self.fork(st, z3.Not(test(t))) is None:
                    return z3.simplify(sel(t))
            if self.fork(st, z3.Not(V.is_Dict(t))) is None:
                return keys(V.ditems(t))
            return z3.If(V.is_List(t), V.items(t), z3.If(V.is_Tuple(t), V.titems(t), z3.If(V.is_Dict(t), keys(V.ditems(t)), V.sitems(t))))
        if kind == 'keys': return keys(V.ditems(t))
        if kind == 'values': return vals(V.ditems(t))
        if kind == 'items': return V.ditems(t)
        raise OutOfSubset(kind)

    def iter_len(self, d, st):
        ls = []
        for kind, src in d.sources:
            if kind == 'range':
                ls.append(src)
            else:
                ls.append(length(self.src_seq(kind, src, st)))
        n = ls[0]
        for l in ls[1:]:
            n = z3.If(l < n, l, n)
        return n

    def elem_facts_for(self, st, seq, x):
        seq = z3.simplify(seq)
        return [(pred(x) if g is None else z3.Implies(g, pred(x))) for (t, pred, g) in st.elem_preds if z3.simplify(t).eq(seq)]

    def iter_elem(self, d, k, st, facts=None):
        n = self.iter_len(d, st)
        idx = (n - 1 - k) if d.reversed else k
        vals_ = []
        for kind, src in d.sources:
            if kind == 'range':
                vals_.append(V.Int(idx)); continue
            seq = self.src_seq(kind, src, st)
            x = nth(seq, idx)
            if facts is not None:
                facts += self.elem_facts_for(st, seq, x)
            if kind == 'items':
                x = PyTuple([V.fst(x), V.snd(x)])
            vals_.append(x)
        x = vals_[0] if len(vals_) == 1 else PyTuple(vals_)
        if d.enumerate:
            x = PyTuple([V.Int(k + d.start), x])
        return x

    def mapped_sources(self, d):
        return [src for kind, src in d.sources if isinstance(src, PyMapped)]

    def bind_target(self, target, val, st):
        if isinstance(target, ast.Name):
            return st.bind(target.id, val)
        if isinstance(target, (ast.Tuple, ast.List)):
            if isinstance(val, PyTuple):
                if len(val.items) != len(target.elts):
                    raise OutOfSubset("unpack arity")
                for t, v in zip(target.elts, val.items):
                    st = self.bind_target(t, v, st)
                return st
            # unpacking a symbolic value: tuples/lists of the right length, or objects with __iter__ (CoercionResult)
            v = self.read(val, st)
            parts = self.unpack(v, len(target.elts), st)
            for t, p in zip(target.elts, parts):
                st = self.bind_target(t, p, st)
            return st
        raise OutOfSubset("assignment target")

    def unpack(self, v, n, st):
        hook = getattr(self.contract, 'unpack_hook', None)
        if hook is not None:
            r = hook(self, st, v, n)
            if r is not None:
                return r
        cn = self.known_class(v)
        if cn is None:
            # CoercionResult is the only iterable object class of the package reached by unpacking
            if self.fork(st, z3.Not(self.is_instance_of(v, 'CoercionResult'))) is None:
                cn = 'CoercionResult'
        if cn == 'CoercionResult':
            # CoercionResult.__iter__: `yield from [self.value, self.errors]` (modelled: yields the two attributes in order)
            return [z3.Select(st.fields.get('value', field0('value')), v), z3.Select(st.fields.get('errors', field0('errors')), v)]
        seq = z3.If(V.is_Tuple(v), V.titems(v), V.items(v))
        self.oblige(st, 'unpack:arity', z3.And(z3.Or(V.is_Tuple(v), V.is_List(v)), length(seq) == n))
        return [nth(seq, i) for i in range(n)]

    # ------------------------------------------------------------------ calls
    def ev_Call(self, e, st):
        fn = e.func
        # isinstance / hasattr / getattr / super need syntactic arguments
        if isinstance(fn, ast.Name) and fn.id == 'isinstance' and fn.id not in st.env:
            cn = e.args[1]
            names = [self.class_name_of(x, st) for x in (cn.elts if isinstance(cn, ast.Tuple) else [cn])]
            return [(s, v if isinstance(v, Raise) else V.Bool(self.isinstance_term(self.read(v, s), names))) for (s, v) in self.ev(e.args[0], st)]
        if isinstance(fn, ast.Name) and fn.id in ('hasattr', 'getattr') and fn.id not in st.env and isinstance(e.args[1], ast.Constant):
            attr = e.args[1].value
            out = []
            for (s, v) in self.ev(e.args[0], st):
                if isinstance(v, Raise):
                    out.append((s, v)); continue
                for (s2, r) in self.getattr(v, attr, s):
                    missing = isinstance(r, Raise)
                    if fn.id == 'hasattr':
                        out.append((s2, V.Bool(not missing)))
                    elif missing and len(e.args) > 2:
                        out += self.ev(e.args[2], s2)
                    else:
                        out.append((s2, r))
            return out
        if isinstance(fn, ast.Attribute) and isinstance(fn.value, ast.Call) and isinstance(fn.value.func, ast.Name) and fn.value.func.id == 'super':
            return self.super_call(e, st)
        out = []
        is_gather = (isinstance(fn, ast.Attribute) and fn.attr == 'gather') or (isinstance(fn, ast.Name) and fn.id == 'gather')
        if is_gather and any(k.arg == 'return_exceptions' and isinstance(k.value, ast.Constant) and k.value.value is True for k in e.keywords):
            # gather(..., return_exceptions=True): an awaitable that raises contributes its exception as a value (assumed contract)
            saved = getattr(self, 'capture_exc', False)
            self.capture_exc = True
            try:
                states = list(self.ev_args(e, st, out))
            finally:
                self.capture_exc = saved
            for (s1, a, kw) in states:
                out += BUILTINS['gather'](self, s1, a, kw)
            return out
        if isinstance(fn, ast.Attribute) and fn.attr in MUTATORS and isinstance(fn.value, ast.Attribute):
            # obj.attr.append(x): in-place mutation of a container held in an attribute
            for (s0, o) in self.ev(fn.value.value, st):
                if isinstance(o, Raise):
                    out.append((s0, o)); continue
                if not z3.is_expr(o):
                    raise OutOfSubset("mutation through an attribute of a non-object")
                for (s1, cur) in self.getattr(o, fn.value.attr, s0):
                    if isinstance(cur, Raise):
                        out.append((s1, cur)); continue
                    ref = FieldRef(o, fn.value.attr)
                    for (s2, a, kw) in self.ev_args(e, s1, out):
                        out += self.container_method(ref, fn.attr, s2, a, kw)
            return out
        if isinstance(fn, ast.Attribute) and fn.attr in MUTATORS and isinstance(fn.value, ast.Subscript) and isinstance(fn.value.value, ast.Name) \
                and isinstance(st.env.get(fn.value.value.id), PyRef) and st.env[fn.value.value.id].kind == 'dict':
            # d[key].append(x) on a dictionary owned by this activation: in-place mutation of the container stored under key (KeyError when absent)
            owner = st.env[fn.value.value.id]
            for (s0, k) in self.ev(fn.value.slice, st):
                if isinstance(k, Raise):
                    out.append((s0, k)); continue
                kt, s0 = self.term(k, s0)
                cur = lookup(V.ditems(self.read(owner, s0)), kt)
                q = self.fork(s0, cur == V.Missing)
                if q is not None:
                    out.append((q, Raise(self.exc_new('KeyError'))))
                q = self.fork(s0, cur != V.Missing)
                if q is not None:
                    ref = ItemRef(owner, kt, cur)
                    for (s2, a, kw) in self.ev_args(e, q, out):
                        out += self.container_method(ref, fn.attr, s2, a, kw)
            return out
        for (s0, f) in self.ev(fn, st):
            if isinstance(f, Raise):
                out.append((s0, f)); continue
            for (s1, a, kw) in self.ev_args(e, s0, out):
                out += self.call(f, s1, a, kw)
        return out

    def class_name_of(self, x, st):
        if isinstance(x, ast.Name):
            if x.id in st.env and isinstance(st.env[x.id], PyClassRef):
                return st.env[x.id].name
            return x.id
        if isinstance(x, ast.Attribute):
            return x.attr
        if isinstance(x, ast.Call) and isinstance(x.func, ast.Name) and x.func.id == 'type' and len(x.args) == 1 \
                and isinstance(x.args[0], ast.Constant) and x.args[0].value is None:
            return 'NoneType'
        raise OutOfSubset("isinstance class expression")

    def ev_args(self, e, st, out):
        """-> [(state, positional values, keyword dict)] ; raising paths appended to out"""
        states = [(st, [], {})]
        for a in e.args:
            nxt = []
            for (s, pos, kw) in states:
                if isinstance(a, ast.Starred):
                    for (s2, v) in self.ev(a.value, s):
                        if isinstance(v, Raise):
                            out.append((s2, v)); continue
                        nxt.append((s2, pos + [('*', v)], kw))
                else:
                    for (s2, v) in self.ev(a, s):
                        if isinstance(v, Raise):
                            out.append((s2, v)); continue
                        nxt.append((s2, pos + [v], kw))
            states = nxt
        for k in e.keywords:
            nxt = []
            for (s, pos, kw) in states:
                for (s2, v) in self.ev(k.value, s):
                    if isinstance(v, Raise):
                        out.append((s2, v)); continue
                    if k.arg is None:
                        # f(..., **a, **b): the second mapping is kept apart (only contract call models look at it)
                        nxt.append((s2, pos, {**kw, ('**2' if '**' in kw else '**'): v}))
                    else:
                        nxt.append((s2, pos, {**kw, k.arg: v}))
            states = nxt
        res = []
        for (s, pos, kw) in states:
            if isinstance(kw.get('**'), KwBundle):
                b = kw.pop('**')
                for k2, v2 in b.known.items():
                    kw.setdefault(k2, v2)
                if b.rest is not None:
                    kw['**'] = b.rest
            flat = []
            for p in pos:
                if isinstance(p, tuple) and p[0] == '*':
                    v = p[1]
                    if isinstance(v, PyTuple):
                        flat += v.items; continue
                    if isinstance(v, PyRef):
                        xs = concrete_list(V.items(s.heap[v.loc]))
                        if xs is not None:
                            flat += xs; continue
                    flat.append(('*', v))
                else:
                    flat.append(p)
            res.append((s, flat, kw))
        return res

    def call(self, f, st, a, kw):
        if isinstance(f, PyFunc):
            if f.fn is None:
                return self.havoc_call(f.name, st)
            return f.fn(self, st, a, kw)
        if isinstance(f, PyClassRef):
            return self.construct(f.name, st, a, kw)
        if z3.is_expr(f):
            return self.call_value(f, st, a, kw)
        raise OutOfSubset(f"call of {type(f).__name__}")

    def havoc_call(self, name, st):
        """unknown callee: arbitrary result, may raise any Exception; path is tainted (DESIGN 2.4)"""
        self.notes.append(f"havoc call: {name}")
        t = st.tainted()
        e = V.Obj(fresh('hcls', IntS), fresh('href', IntS))
        t2 = t.assume(self.is_instance_of(e, 'Exception'))
        return [(t, fresh('havoc')), (t2, Raise(e))]

    def call_value(self, f, st, a, kw):
        """call of a callable held in a term"""
        f = z3.simplify(f)
        hook = getattr(self.contract, 'call_model', None)
        if hook is not None:
            r = hook(self, st, f, a, kw)
            if r is not None:
                return r
        if z3.is_app(f) and f.decl().name() == 'Fun' and z3.is_int_value(f.arg(0)):
            key = fun_key(f.arg(0).as_long())
            bound = concrete_list(f.arg(1))
            if key is not None and bound is not None:
                kw2 = dict(kw)
                selfv = None
                posb = {}
                for p in bound:
                    if z3.is_true(z3.simplify(V.is_Int(V.fst(p)))):
                        posb[z3.simplify(V.i(V.fst(p))).as_long()] = z3.simplify(V.snd(p))
                        continue
                    k = z3.simplify(V.s(V.fst(p)))
                    name = interned_text(k.as_long()) if z3.is_int_value(k) else None
                    if name is None:
                        raise OutOfSubset("bound keyword with symbolic name")
                    if name == '__partial__':
                        continue
                    if name == 'self':
                        selfv = z3.simplify(V.snd(p))
                    elif name not in kw2:
                        kw2[name] = z3.simplify(V.snd(p))
                if key in self.T.functions:
                    return self.call_repo_function(key, st, ([selfv] if selfv is not None else []) + [posb[i] for i in sorted(posb)] + list(a), kw2)
        return self.havoc_call(f"value {f.sexpr()[:40]}", st)

    def call_repo_function(self, key, st, a, kw):
        if self.contract is not None and key in getattr(self.contract, 'callee_models', {}):
            return self.contract.callee_models[key](self, st, a, kw)      # a callee this contract abstracts (stated as an assumption of the contract)
        if self.contract is not None and key in getattr(self.contract, 'inline', ()):
            return self.inline(key, st, a, kw)      # the contract under proof treats this private helper as part of the unit
        c = self.registry.get(key)
        if c is not None and getattr(c, 'params', None) is not None:
            node, _ = self.T.functions[key]
            names = [x.arg for x in node.args.posonlyargs + node.args.args] + [x.arg for x in node.args.kwonlyargs]
            if list(c.params) != names:
                raise OutOfSubset(f"stale contract of callee {key.split('::')[1]} (parameters changed)")
        if c is not None and not (self.contract is not None and getattr(self.contract, 'inline_self', False) and c is self.contract and self.inline_depth == 0 and False):
            return c.summary(self, st, a, kw)
        if key in INLINE or self.inlinable(key):
            return self.inline(key, st, a, kw)
        return self.havoc_call(key, st)

    def inlinable(self, key):
        extra = getattr(self.contract, 'inline', ()) if self.contract else ()
        if key in extra:
            return True
        node, _ = self.T.functions[key]
        # trivial accessors: a single return / constructor bodies (__init__) are executed in place
        body = [n for n in node.body if not (isinstance(n, ast.Expr) and isinstance(n.value, ast.Constant))]
        if node.name == '__init__':
            return True
        return len(body) == 1 and isinstance(body[0], ast.Return) and sum(1 for _ in ast.walk(body[0])) <= 40

    def inline(self, key, st, a, kw):
        if self.inline_depth > 6:
            raise OutOfSubset(f"inline depth at {key}")
        node, _ = self.T.functions[key]
        module = key.split('::')[0]
        saved_module, self.module = self.module, module
        self.inline_depth += 1
        try:
            s = self.bind_params(node, st.copy(env={}), a, kw)
            if isinstance(s, list):
                return [(x.copy(env=st.env), v) for x, v in s]
            res = []
            for (s2, kind, v) in self.block(node.body, s):
                s2 = s2.copy(env=st.env)
                if kind == 'raise':
                    res.append((s2, Raise(v)))
                elif kind == 'return':
                    res.append((s2, v))
                else:
                    res.append((s2, V.None_))
            return res
        finally:
            self.inline_depth -= 1
            self.module = saved_module

    def bind_params(self, node, st, a, kw):
        args = node.args
        names = [x.arg for x in args.posonlyargs + args.args]
        defaults = dict(zip(names[len(names) - len(args.defaults):], args.defaults))
        kw = dict(kw)
        if '**2' in kw:
            raise OutOfSubset("two ** mappings at a call of a known function")
        star = kw.pop('**', None)
        a = list(a)
        if any(isinstance(x, tuple) and x[0] == '*' for x in a):
            raise OutOfSubset("symbolic *args at a call of known function")
        bound = {}
        for n, v in zip(names, a):
            bound[n] = v
        extra = a[len(names):]
        if extra and args.vararg is None:
            return [(st, Raise(self.exc_new('TypeError')))]
        for n in names + [x.arg for x in args.kwonlyargs]:
            if n in kw:
                if n in bound:
                    return [(st, Raise(self.exc_new('TypeError')))]
                bound[n] = kw.pop(n)
        kwdefaults = {x.arg: d for x, d in zip(args.kwonlyargs, args.kw_defaults) if d is not None}
        for n in names + [x.arg for x in args.kwonlyargs]:
            if n not in bound:
                d = defaults.get(n, kwdefaults.get(n))
                if d is None:
                    if star is not None:
                        bound[n] = fresh(f"kw_{n}")     # may come from the **bundle
                        continue
                    return [(st, Raise(self.exc_new('TypeError')))]
                outs = self.ev(d, st)
                if len(outs) != 1 or isinstance(outs[0][1], Raise):
                    raise OutOfSubset("default expression")
                st, bound[n] = outs[0][0], outs[0][1]
        if kw and args.kwarg is None:
            return [(st, Raise(self.exc_new('TypeError')))]
        for n, v in bound.items():
            st = st.bind(n, v)
        if args.vararg is not None:
            st = st.bind(args.vararg.arg, PyTuple(extra))
        if args.kwarg is not None:
            st = st.bind(args.kwarg.arg, KwBundle(kw, star))
        return st

    def super_call(self, e, st):
        meth = e.func.attr
        selfv = st.env.get('self')
        owner = getattr(self, 'current_class', None)
        if selfv is None or owner is None:
            raise OutOfSubset("super() outside a method")
        mro = self.T.mro(owner)[1:]
        for c in mro:
            ci = self.T.classes.get(c)
            if ci and meth in ci.methods:
                key = f"{ci.module}::{c}.{meth}"
                out = []
                for (s1, a, kw) in self.ev_args(e, st, out):
                    saved = self.current_class
                    self.current_class = c
                    try:
                        out += self.call_repo_function(key, s1, [selfv] + a, kw)
                    finally:
                        self.current_class = saved
                return out
        # builtin base (Exception.__init__, object.__init__): no effect
        out = []
        for (s1, a, kw) in self.ev_args(e, st, out):
            out.append((s1, V.None_))
        return out

    def construct(self, cname, st, a, kw):
        if cname in ('bool', 'int', 'float', 'str', 'list', 'dict', 'tuple', 'set'):
            return BUILTINS[cname](self, st, a, kw)
        hook = getattr(self.contract, 'construct_hook', None)
        if hook is not None:
            r = hook(self, st, cname, a, kw)
            if r is not None:
                return r
        obj = V.Obj(self.T.cid[cname], self.alloc())
        if cname not in self.T.classes:
            return [(st, obj)]
        r = self.T.resolve_attr(cname, '__init__')
        if r is None or r[0] != 'method':
            return [(st, obj)]
        key = f"{self.T.classes[r[1]].module}::{r[1]}.__init__"
        saved = getattr(self, 'current_class', None)
        self.current_class = r[1]
        try:
            res = []
            for (s, v) in self.call_repo_function(key, st, [obj] + list(a), kw):
                res.append((s, v if isinstance(v, Raise) else obj))
            return res
        finally:
            self.current_class = saved

    # ---- container / string methods
    def container_method(self, recv, name, st, a, kw):
        m = METHODS.get(name)
        if m is None:
            raise OutOfSubset(f"method .{name} on a container/str")
        return m(self, st, recv, a, kw)

    def mutate(self, recv, st, new_content):
        """write new content to an owned container"""
        if isinstance(recv, PyRef):
            if recv.loc in st.escaped:
                raise OutOfSubset("mutation of a container after it escaped (aliasing not modelled)")
            return st.put_heap(recv.loc, new_content)
        if isinstance(recv, FieldRef):
            return self.setattr(recv.obj, recv.attr, new_content, st)
        if isinstance(recv, ItemRef):
            cur = self.read(recv.owner, st)
            return self.mutate(recv.owner, st, V.Dict(assoc_set(V.ditems(cur), recv.key, new_content)))
        raise OutOfSubset("mutation of a container not owned by this activation (declare it mutable in the contract)")

    # ------------------------------------------------------------------ statements
    def merge_states(self, states):
        """join several fall-through states into one (path conditions disjoined, differing values become if-then-else terms);
        returns None when the states are not structurally compatible.  Used at loop entries to avoid re-running loop bodies."""
        if len(states) < 2:
            return None
        first = states[0]
        n = min(len(s.conds) for s in states)
        k = 0
        while k < n and all(s.conds[k].eq(first.conds[k]) for s in states):
            k += 1
        guards = [z3.And(*s.conds[k:]) if len(s.conds) > k else z3.BoolVal(True) for s in states]

        def ite(vals):
            r = vals[-1]
            for g, v in zip(reversed(guards[:-1]), reversed(vals[:-1])):
                r = z3.If(g, v, r)
            return r
        env = {}
        keys = set(first.env)
        if any(set(s.env) != keys for s in states):
            keys = set.intersection(*[set(s.env) for s in states])
        heap = dict(first.heap)
        for key in keys:
            vals = [s.env[key] for s in states]
            if all(v is vals[0] for v in vals) or all(z3.is_expr(v) and v.eq(vals[0]) for v in vals if z3.is_expr(vals[0])) and all(z3.is_expr(v) for v in vals):
                env[key] = vals[0]
            elif all(z3.is_expr(v) for v in vals):
                env[key] = ite(vals)
            elif all(isinstance(v, PyRef) for v in vals) and all(v.kind == vals[0].kind for v in vals):
                if any(v.loc in s.escaped for v, s in zip(vals, states)):
                    return None
                loc = self.alloc()
                heap[loc] = ite([s.heap[v.loc] for v, s in zip(vals, states)])
                env[key] = PyRef(loc, vals[0].kind)
            elif all(isinstance(v, PyFunc) for v in vals) and all(v.name == vals[0].name for v in vals):
                env[key] = vals[0]
            elif all(isinstance(v, (PyClassRef, PyModule)) for v in vals) and all(v.name == vals[0].name for v in vals):
                env[key] = vals[0]
            else:
                try:
                    ts = [self.term(v, s, escape=False)[0] for v, s in zip(vals, states)]
                except OutOfSubset:
                    return None
                env[key] = ite(ts)
        for s in states[1:]:
            for loc, c in s.heap.items():
                if loc not in heap:
                    heap[loc] = c
                elif not heap[loc].eq(c) and loc in first.heap and not any(isinstance(v, PyRef) and v.loc == loc for v in env.values()):
                    pass
        # heap entries referenced by unchanged PyRefs must agree
        for key, v in env.items():
            if isinstance(v, PyRef) and v.loc in first.heap:
                cs = [s.heap.get(v.loc) for s in states]
                if any(c is None for c in cs):
                    return None
                if not all(c.eq(cs[0]) for c in cs):
                    heap[v.loc] = ite(cs)
        fields = {}
        for a in set().union(*[set(s.fields) for s in states]):
            arrs = [s.fields.get(a, field0(a)) for s in states]
            fields[a] = arrs[0] if all(x.eq(arrs[0]) for x in arrs) else ite(arrs)
        ghost = {}
        for gk in set().union(*[set(s.ghost) for s in states]):
            gs = [s.ghost.get(gk) for s in states]
            if any(g is None for g in gs):
                return None
            ghost[gk] = gs[0] if all(x.eq(gs[0]) for x in gs) else ite(gs)
        merged = State(list(first.conds[:k]) + [z3.Or(*guards)], env, heap, fields, ghost, any(s.taint for s in states),
                       frozenset().union(*[s.escaped for s in states]), {}, first.cur_exc,
                       first.elem_preds, frozenset.intersection(*[s.inited for s in states]))
        if any(s.cur_exc is not first.cur_exc for s in states) or any(s.elem_preds != first.elem_preds for s in states):
            return None
        return merged

    def block(self, stmts, st):
        states = [(st, 'fall', None)]
        for sm in stmts:
            if isinstance(sm, (ast.For, ast.While)) and sum(1 for x in states if x[1] == 'fall') > 1 and not getattr(self.contract, 'no_merge', False):
                falls = [x[0] for x in states if x[1] == 'fall']
                m = self.merge_states(falls)
                if m is not None:
                    states = [x for x in states if x[1] != 'fall'] + [(m, 'fall', None)]
            nxt = []
            for (s, kind, v) in states:
                if kind == 'fall':
                    nxt += self.stmt(sm, s)
                else:
                    nxt.append((s, kind, v))
            states = nxt
        return states

    def stmt(self, sm, st):
        m = getattr(self, 'st_' + type(sm).__name__, None)
        if m is None:
            raise OutOfSubset(f"statement {type(sm).__name__} at line {getattr(sm, 'lineno', '?')}")
        return m(sm, st)

    def st_Pass(self, sm, st):
        return [(st, 'fall', None)]

    def st_Expr(self, sm, st):
        if isinstance(sm.value, ast.Constant):
            return [(st, 'fall', None)]
        return [(s, 'raise', v.exc) if isinstance(v, Raise) else (s, 'fall', None) for (s, v) in self.ev(sm.value, st)]

    def st_Return(self, sm, st):
        if sm.value is None:
            return [(st, 'return', V.None_)]
        return [(s, 'raise', v.exc) if isinstance(v, Raise) else (s, 'return', v) for (s, v) in self.ev(sm.value, st)]

    def st_Assign(self, sm, st):
        out = []
        for (s, v) in self.ev(sm.value, st):
            if isinstance(v, Raise):
                out.append((s, 'raise', v.exc)); continue
            states = [s]
            for tg in sm.targets:
                nxt = []
                for s1 in states:
                    nxt += self.assign(tg, v, s1, out)
                states = nxt
            out += [(s1, 'fall', None) for s1 in states]
        return out

    def st_AnnAssign(self, sm, st):
        if sm.value is None:
            return [(st, 'fall', None)]
        out = []
        for (s, v) in self.ev(sm.value, st):
            if isinstance(v, Raise):
                out.append((s, 'raise', v.exc)); continue
            out += [(s1, 'fall', None) for s1 in self.assign(sm.target, v, s, out)]
        return out

    def st_AugAssign(self, sm, st):
        binop = ast.BinOp(left=self.load_of(sm.target), op=sm.op, right=sm.value)
        ast.copy_location(binop, sm)
        out = []
        for (s, v) in self.ev(binop, st):
            if isinstance(v, Raise):
                out.append((s, 'raise', v.exc)); continue
            out += [(s1, 'fall', None) for s1 in self.assign(sm.target, v, s, out)]
        return out

    def load_of(self, t):
        import copy
        t2 = copy.deepcopy(t)
        for n in ast.walk(t2):
            if hasattr(n, 'ctx'):
                n.ctx = ast.Load()
        return t2

    def assign(self, tg, v, st, out):
        if isinstance(tg, (ast.Name, ast.Tuple, ast.List)):
            return [self.bind_target(tg, v, st)]
        if isinstance(tg, ast.Attribute):
            res = []
            for (s, o) in self.ev(tg.value, st):
                if isinstance(o, Raise):
                    out.append((s, 'raise', o.exc)); continue
                t, s = self.term(v, s)
                res.append(self.setattr(self.read(o, s), tg.attr, t, s))
            return res
        if isinstance(tg, ast.Subscript):
            res = []
            for (s, vs) in self.ev_seq([tg.value, tg.slice], st):
                if isinstance(vs, Raise):
                    out.append((s, 'raise', vs.exc)); continue
                c, k = vs
                t, s = self.term(v, s)
                kt, s = self.term(k, s)
                res += self.store_item(tg.value, c, kt, t, s)
            return res
        raise OutOfSubset("assignment target")

    def store_item(self, recv_expr, c, k, v, st):
        if isinstance(c, PyRef):
            cur = st.heap[c.loc]
            if c.kind == 'dict':
                return [self.mutate(c, st, V.Dict(assoc_set(V.ditems(cur), k, v)))]
            if c.kind == 'list':
                n = length(V.items(cur))
                idx = V.i(k)
                out = []
                q = self.fork(st, z3.And(is_intlike(k), idx >= 0, idx < n))
                if q is not None:
                    out.append(self.mutate(c, q, V.List(list_set(V.items(cur), idx, v))))
                q = self.fork(st, z3.Not(z3.And(is_intlike(k), idx >= 0, idx < n)))
                if q is not None:
                    self.notes.append('list item store possibly out of range (IndexError path dropped into taint)')
                    out.append(self.mutate(c, q.tainted(), V.List(fresh('list_after_bad_store', VL))))
                return out
            raise OutOfSubset("item store on a set")
        if isinstance(recv_expr, ast.Attribute):
            # obj.attr[k] = v on a dict held in a field: functional update of the field
            outs = []
            for (s, o) in self.ev(recv_expr.value, st):
                if isinstance(o, Raise):
                    continue
                cur = self.read(c, s)
                outs.append(self.setattr(self.read(o, s), recv_expr.attr, V.Dict(assoc_set(V.ditems(cur), k, v)), s))
            return outs
        raise OutOfSubset("item store on a container not owned by this activation")

    def st_If(self, sm, st):
        out = []
        for (s1, c) in self.ev(sm.test, st):
            if isinstance(c, Raise):
                out.append((s1, 'raise', c.exc)); continue
            t = self.truthy(c, s1)
            q = self.fork(s1, t)
            if q is not None:
                out += self.block(sm.body, q)
            q = self.fork(s1, z3.Not(t))
            if q is not None:
                out += self.block(sm.orelse, q)
        if getattr(self.contract, 'merge_ifs', False) and (getattr(self, 'loop_depth', 0) > 0 or getattr(self.contract, 'merge_ifs', False) == 'always'):
            falls = [x[0] for x in out if x[1] == 'fall']
            if len(falls) > 1:
                m = self.merge_states(falls)
                if m is not None:
                    out = [x for x in out if x[1] != 'fall'] + [(m, 'fall', None)]
        return out

    def st_Raise(self, sm, st):
        if sm.exc is None:
            if st.cur_exc is None:
                raise OutOfSubset("bare raise outside handler")
            return [(st, 'raise', st.cur_exc)]
        out = []
        for (s, v) in self.ev(sm.exc, st):
            if isinstance(v, Raise):
                out.append((s, 'raise', v.exc)); continue
            if isinstance(v, PyClassRef):
                for (s2, o) in self.construct(v.name, s, [], {}):
                    out.append((s2, 'raise', o.exc if isinstance(o, Raise) else o))
                continue
            t = self.read(v, s)
            out += [(q, 'raise', x) for (q, x) in self.branches(s, [(self.is_instance_of(t, 'BaseException'), t)])]
            q = self.fork(s, z3.Not(self.is_instance_of(t, 'BaseException')))
            if q is not None:
                out.append((q, 'raise', self.exc_new('TypeError')))
        return out

    def st_Try(self, sm, st):
        if sm.finalbody:
            raise OutOfSubset("try/finally")
        out = []
        for (s1, kind, v) in self.block(sm.body, st):
            if kind == 'fall' and sm.orelse:
                out += self.block(sm.orelse, s1); continue
            if kind != 'raise':
                out.append((s1, kind, v)); continue
            rest = s1
            for h in sm.handlers:
                if h.type is None:
                    names = ['BaseException']
                else:
                    names = [self.class_name_of(x, rest) for x in (h.type.elts if isinstance(h.type, ast.Tuple) else [h.type])]
                m = z3.Or(*[self.is_instance_of(v, n) for n in names])
                q = self.fork(rest, m)
                if q is not None:
                    q2 = q.bind(h.name, v) if h.name else q
                    saved = q2.cur_exc
                    q2 = q2.copy(cur_exc=v)
                    for (s3, k3, v3) in self.block(h.body, q2):
                        out.append((s3.copy(cur_exc=saved), k3, v3))
                rest = self.fork(rest, z3.Not(m))
                if rest is None:
                    break
            if rest is not None:
                out.append((rest, kind, v))
        if getattr(self.contract, 'merge_ifs', False) == 'always':
            falls = [x[0] for x in out if x[1] == 'fall']
            if len(falls) > 1:
                m = self.merge_states(falls)
                if m is not None:
                    out = [x for x in out if x[1] != 'fall'] + [(m, 'fall', None)]
        return out

    def st_Continue(self, sm, st):
        return [(st, 'continue', None)]

    def st_Break(self, sm, st):
        return [(st, 'break', None)]

    def st_FunctionDef(self, sm, st):
        env_cell = {}

        def call(en, s, a, kw, sm=sm, env_cell=env_cell):
            return en.call_closure(sm, env_cell['env'], s, a, kw)
        f = PyFunc(sm.name, call, term=V.Fun(fun_id(f"{self.module}:{sm.name}@{sm.lineno}"), VL.nil))
        st2 = st.bind(sm.name, f)
        env_cell['env'] = st2.env
        return [(st2, 'fall', None)]

    st_AsyncFunctionDef = st_FunctionDef

    def call_closure(self, node, env, st, a, kw):
        self.inline_depth += 1
        try:
            if self.inline_depth > 8:
                raise OutOfSubset("closure recursion")
            s = self.bind_params(node, st.copy(env=dict(env)), a, kw)
            if isinstance(s, list):
                return [(x.copy(env=st.env), v) for x, v in s]
            res = []
            for (s2, kind, v) in self.block(node.body, s):
                s2 = s2.copy(env=st.env)
                res.append((s2, Raise(v)) if kind == 'raise' else (s2, v if kind == 'return' else V.None_))
            return res
        finally:
            self.inline_depth -= 1

    def st_Import(self, sm, st):
        return [(st, 'fall', None)]

    st_ImportFrom = st_Import

    def st_Assert(self, sm, st):
        raise OutOfSubset("assert")

    def st_Delete(self, sm, st):
        raise OutOfSubset("del")

    # ---- loops
    def modified_in(self, body):
        """names assigned / containers mutated / attributes written in a loop body (syntactic)"""
        names, muts, attrs = set(), set(), set()
        for n in body:
            for w in ast.walk(n):
                if isinstance(w, (ast.Assign, ast.AugAssign, ast.AnnAssign, ast.For, ast.AsyncFor)):
                    tg = w.targets if isinstance(w, ast.Assign) else [w.target]
                    for t in tg:
                        for tt in ast.walk(t):
                            if isinstance(tt, ast.Name):
                                names.add(tt.id)
                            elif isinstance(tt, ast.Attribute) and isinstance(tt.ctx, ast.Store):
                                attrs.add(tt.attr)
                            elif isinstance(tt, ast.Subscript) and isinstance(tt.ctx, ast.Store):
                                base = tt.value
                                if isinstance(base, ast.Name): muts.add(base.id)
                                elif isinstance(base, ast.Attribute): attrs.add(base.attr)
                elif isinstance(w, ast.ExceptHandler) and w.name:
                    names.add(w.name)
                elif isinstance(w, ast.Call) and isinstance(w.func, ast.Attribute) and w.func.attr in MUTATORS:
                    base = w.func.value
                    while isinstance(base, ast.Call) and isinstance(base.func, ast.Attribute):
                        base = base.func.value
                    if isinstance(base, ast.Name): muts.add(base.id)
                    elif isinstance(base, ast.Attribute): attrs.add(base.attr)
                elif isinstance(w, (ast.ListComp,)):
                    for g in w.generators:
                        for tt in ast.walk(g.target):
                            if isinstance(tt, ast.Name): names.add(tt.id)
        return names, muts, attrs

    def havoc_loop_state(self, st, names, muts, attrs, extra_fields=(), ghost_keys=()):
        if ghost_keys:
            g = dict(st.ghost)
            for gk in ghost_keys:
                g[gk] = fresh(f"ghost_{gk}", st.ghost[gk].sort())
            st = st.copy(ghost=g)
        env = dict(st.env)
        heap = dict(st.heap)
        for n in sorted(names):
            if n in env and (z3.is_expr(env[n])):
                env[n] = fresh(f"loop_{n}")
            elif n in env and isinstance(env[n], PyRef):
                # rebinding a name that holds a container: the new binding is an unknown fresh container
                loc = self.alloc()
                heap[loc] = fresh(f"loop_{n}")
                env[n] = PyRef(loc, env[n].kind)
            elif n in env and isinstance(env[n], (PyTuple, PyMapped)):
                t = self.read(env[n], st)
                env[n] = fresh(f"loop_{n}")
        for n in sorted(muts):
            v = env.get(n)
            if isinstance(v, PyRef):
                k = fresh(f"loop_{n}", VL)
                heap[v.loc] = {'list': V.List, 'dict': V.Dict, 'set': V.Set}[v.kind](k)
        fields = dict(st.fields)
        for a in sorted(set(attrs) | set(extra_fields)):
            fields[a] = z3.Array(f"attr:{a}!{next(VAL._fresh)}", V, V)
        return st.copy(env=env, heap=heap, fields=fields)

    def propagate_definitions(self, st, clauses):
        """an exit-invariant clause `v == t` that defines a havocked loop variable v makes later terms speak about t itself (the equality
        stays among the path facts; this only keeps instantiation syntactic)"""
        subs = []
        for g in clauses:
            g = z3.simplify(g)
            if not (z3.is_eq(g) and g.num_args() == 2):
                continue
            for a, b in ((g.arg(0), g.arg(1)), (g.arg(1), g.arg(0))):
                # Dict(k) == Dict(t) has been simplified to k == t already; also accept constructor applications on both sides
                if z3.is_const(a) and a.decl().kind() == z3.Z3_OP_UNINTERPRETED and a.decl().name().startswith('loop_') and a.get_id() not in VAL._subterm_ids(b):
                    subs.append((a, b))
                    break
        if not subs:
            return st
        env = {k: (z3.substitute(v, *subs) if z3.is_expr(v) else v) for k, v in st.env.items()}
        heap = {k: (z3.substitute(v, *subs) if z3.is_expr(v) else v) for k, v in st.heap.items()}
        return st.copy(env=env, heap=heap)

    def loop_contract(self, ordinal):
        loops = getattr(self.contract, 'loops', None) or {}
        return loops.get(ordinal)

    def st_For(self, sm, st):
        ordinal = getattr(sm, '_ordinal', None)
        out = []
        for (s0, it) in self.ev(sm.iter, st):
            if isinstance(it, Raise):
                out.append((s0, 'raise', it.exc)); continue
            desc = self.iter_desc(it, s0)
            conc = self.concrete_iter(desc, s0)
            if conc is not None and len(conc) <= getattr(self.contract, 'unroll_limit', 8) and not any(isinstance(src, PyMapped) for _, src in desc.sources):
                out += self.unrolled_for(sm, conc, s0)
            else:
                out += self.invariant_for(sm, desc, s0, ordinal)
        return out

    def st_AsyncFor(self, sm, st):
        """async for x in stream: the stream is consumed as the abstract finite event sequence stream_events(stream)"""
        ordinal = getattr(sm, '_ordinal', None)
        out = []
        for (s0, it) in self.ev(sm.iter, st):
            if isinstance(it, Raise):
                out.append((s0, 'raise', it.exc)); continue
            t, s0 = self.term(it, s0)
            desc = PyIter([('list', V.List(stream_events(t)))])
            out += self.invariant_for(sm, desc, s0, ordinal)
        return out

    def unrolled_for(self, sm, elems, st):
        out = []
        states = [st]
        broke = []
        for x in elems:
            nxt = []
            for s in states:
                s = self.bind_target(sm.target, x, s)
                self.loop_depth = getattr(self, 'loop_depth', 0) + 1
                try:
                    body_out = self.block(sm.body, s)
                finally:
                    self.loop_depth -= 1
                for (s2, kind, v) in body_out:
                    if kind in ('fall', 'continue'): nxt.append(s2)
                    elif kind == 'break': broke.append(s2)
                    else: out.append((s2, kind, v))
            if len(nxt) > 1 and getattr(self.contract, 'merge_ifs', False):
                m = self.merge_states(nxt)
                if m is not None:
                    nxt = [m]
            states = nxt
        for s in states:
            out += self.block(sm.orelse, s) if sm.orelse else [(s, 'fall', None)]
        out += [(s, 'fall', None) for s in broke]
        return out

    def invariant_for(self, sm, desc, st, ordinal):
        lc = self.loop_contract(ordinal)
        n = self.iter_len(desc, st)
        names, muts, attrs = self.modified_in(sm.body)
        for t in ast.walk(sm.target):
            if isinstance(t, ast.Name): names.add(t.id)
        extra = lc.modifies_fields if lc is not None else ()
        label = f"loop{ordinal}"
        if lc is not None:
            for (nm, g) in lc.inv(self, st, z3.IntVal(0), st):
                self.oblige(st, f"{label}:init:{nm}", g)
        out = []
        # arbitrary iteration
        k = fresh('k', IntS)
        h = self.havoc_loop_state(st, names, muts, attrs, extra, lc.modifies_ghost if lc is not None else ()).assume(k >= 0, k < n, n >= 0)
        if lc is not None:
            h = h.assume(*[g for (_, g) in lc.inv(self, h, k, st)])
        facts = []
        x = self.iter_elem(desc, k, h, facts)
        h = h.assume(*facts)
        states = [h]
        for src in self.mapped_sources(desc):
            nxt = []
            for s in states:
                nxt += src.elem(self, s, (self.iter_len(desc, s) - 1 - k) if desc.reversed else k)
            states = nxt
        for hs in states:
            b = self.bind_target(sm.target, x, hs)
            self.loop_depth = getattr(self, 'loop_depth', 0) + 1
            try:
                body_out = self.block(sm.body, b)
            finally:
                self.loop_depth -= 1
            for (s2, kind, v) in body_out:
                if kind in ('fall', 'continue'):
                    if lc is not None:
                        for (nm, g) in lc.inv(self, s2, k + 1, st):
                            self.oblige(s2, f"{label}:preserve:{nm}", g)
                elif kind == 'break':
                    out.append((s2, 'fall', None))
                else:
                    out.append((s2, kind, v))
        # after the loop
        e = self.havoc_loop_state(st, names, muts, attrs, extra, lc.modifies_ghost if lc is not None else ()).assume(n >= 0)
        if lc is not None:
            clauses = [g for (_, g) in lc.inv(self, e, n, st)]
            e = e.assume(*clauses)
        q = self.fork(e, z3.BoolVal(True))
        if sm.orelse:
            out += self.block(sm.orelse, e)
        else:
            out.append((e, 'fall', None))
        return out

    def st_While(self, sm, st):
        ordinal = getattr(sm, '_ordinal', None)
        lc = self.loop_contract(ordinal)
        if sm.orelse:
            raise OutOfSubset("while/else")
        names, muts, attrs = self.modified_in(sm.body)
        extra = lc.modifies_fields if lc is not None else ()
        label = f"loop{ordinal}"
        if lc is not None:
            for (nm, g) in lc.inv(self, st, None, st):
                self.oblige(st, f"{label}:init:{nm}", g)
        out = []
        h = self.havoc_loop_state(st, names, muts, attrs, extra, lc.modifies_ghost if lc is not None else ())
        if lc is not None:
            h = h.assume(*[g for (_, g) in lc.inv(self, h, None, st)])
        exits = []
        for (s1, c) in self.ev(sm.test, h):
            if isinstance(c, Raise):
                out.append((s1, 'raise', c.exc)); continue
            t = self.truthy(c, s1)
            q = self.fork(s1, t)
            if q is not None:
                for (s2, kind, v) in self.block(sm.body, q):
                    if kind in ('fall', 'continue'):
                        if lc is not None:
                            for (nm, g) in lc.inv(self, s2, None, st):
                                self.oblige(s2, f"{label}:preserve:{nm}", g)
                            if lc.measure is not None:
                                m0, m1 = lc.measure(self, q), lc.measure(self, s2)
                                self.oblige(s2, f"{label}:decreases", z3.And(m0 >= 0, m1 < m0))
                    elif kind == 'break':
                        exits.append(s2)
                    else:
                        out.append((s2, kind, v))
            q = self.fork(s1, z3.Not(t))
            if q is not None:
                exits.append(q)
        out += [(s, 'fall', None) for s in exits]
        return out


class KwBundle:
    """**kwargs of a wrapper: known keys plus an optional opaque rest (forwarded intact)"""
    def __init__(self, known, rest=None):
        self.known, self.rest = dict(known), rest


class FieldRef:
    """obj.attr used as the receiver of a mutating container method: the container lives in the attribute array"""
    def __init__(self, obj, attr):
        self.obj, self.attr = obj, attr


class ItemRef:
    """d.setdefault(k, default): handle on the value stored under k in container `owner`"""
    def __init__(self, owner, key, value):
        self.owner, self.key, self.value = owner, key, value


class CompEffect:
    """effect invariant of a comprehension whose element expression writes object state (same rule as a loop invariant)"""
    def __init__(self, inv, modifies_fields):
        self._inv, self.modifies_fields = inv, modifies_fields

    def _clauses(self, en, st, k, st0):
        r = self._inv(en, st, k, st0)
        return list(r.items()) if isinstance(r, dict) else [('inv', r)]

    def enter(self, en, st, n):
        self.st0 = st
        for nm, g in self._clauses(en, st, z3.IntVal(0), st):
            en.oblige(st, f"comp:effect:init:{nm}", g)
        return st

    def _havoc(self, en, st):
        fields = dict(st.fields)
        for a in self.modifies_fields:
            fields[a] = z3.Array(f"attr:{a}!{next(VAL._fresh)}", V, V)
        return st.copy(fields=fields)

    def at(self, en, st, k):
        h = self._havoc(en, st)
        return h.assume(*[g for _, g in self._clauses(en, h, k, self.st0)])

    def step(self, en, st, k):
        for nm, g in self._clauses(en, st, k + 1, self.st0):
            en.oblige(st, f"comp:effect:preserve:{nm}", g)

    def exit(self, en, st, n):
        h = self._havoc(en, st)
        return h.assume(*[g for _, g in self._clauses(en, h, n, self.st0)])


class LoopContract:
    def __init__(self, inv, measure=None, modifies_fields=(), modifies_ghost=()):
        self._inv, self.measure, self.modifies_fields, self.modifies_ghost = inv, measure, modifies_fields, modifies_ghost

    def inv(self, en, st, k, st0):
        r = self._inv(en, st, k, st0)
        if isinstance(r, dict):
            return list(r.items())
        if isinstance(r, (list, tuple)):
            return [(f"c{i}", g) for i, g in enumerate(r)]
        return [('inv', r)]


# uninterpreted helpers
obj_eq = z3.Function('obj_eq', V, V, BoolS)         # __eq__ of two objects that are not identical
_obj_bool = z3.Function('obj_bool', V, BoolS)        # __bool__/__len__ based truthiness of an object
str_concat = z3.Function('str_concat', IntS, IntS, IntS)
coro_raises = z3.Function('coro_raises', V, BoolS)         # coroutine objects: awaiting them raises ...
coro_exc = z3.Function('coro_exc', V, V)                    # ... this exception
coro_value = z3.Function('coro_value', V, V)                # ... or yields this value
stream_events = z3.Function('stream_events', V, VL)      # the finite sequence of events an async iterable produces
other_is_bytes = z3.Function('other_is_bytes', IntS, BoolS)   # opaque values that are bytes objects


def VAL_obj_bool(v):
    return _obj_bool(v)


_FUN_IDS, _FUN_KEYS = {}, {}


def fun_id(key):
    if key not in _FUN_IDS:
        k = 5000 + len(_FUN_IDS)
        _FUN_IDS[key] = k
        _FUN_KEYS[k] = key
    return z3.IntVal(_FUN_IDS[key])


def fun_key(k):
    return _FUN_KEYS.get(k)


INLINE = set()
CONTAINER_ATTRS = {'intersection', 'popitem', 'bit_length', 'append', 'extend', 'get', 'items', 'keys', 'values', 'pop', 'setdefault', 'add', 'update', 'startswith',
                   'endswith', 'join', 'format', 'lower', 'upper', 'split', 'strip', 'copy', 'index', 'count', 'insert', 'remove', 'encode', 'decode', 'replace'}

from .builtins import BUILTINS, EXTERNALS, METHODS  # noqa: E402  (models of builtins; needs the classes above)


def number_loops(fn_node):
    """attach stable ordinals to loops and comprehensions in source order (contracts refer to them)"""
    k = itertools.count()
    c = itertools.count()

    def visit(n, top):
        for ch in ast.iter_child_nodes(n):
            if isinstance(ch, (ast.FunctionDef, ast.AsyncFunctionDef, ast.Lambda)) and not top:
                pass
            if isinstance(ch, (ast.For, ast.AsyncFor, ast.While)):
                ch._ordinal = next(k)
            if isinstance(ch, (ast.ListComp, ast.DictComp, ast.SetComp, ast.GeneratorExp)):
                ch._ordinal = next(c)
            visit(ch, False)
    visit(fn_node, True)
