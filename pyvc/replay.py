"""Counterexample -> replay on the real code (DESIGN 2.8).
reify: z3 model values -> tagged JSON ; the native side (native_replay.py under /venv/bin/python) rebuilds real objects,
calls the real function from /repo and abstracts the outcome back ; the failed contract is then evaluated on ground terms."""
import json
import math
import os
import subprocess
import z3
from .values import *
from .symexec import field0
from .classtable import table

NATIVE_PY = os.environ.get('PYVC_NATIVE_PY', '/venv/bin/python')
HERE = os.path.dirname(os.path.abspath(__file__))


class CannotReify(Exception):
    pass


class Reifier:
    def __init__(self, model):
        self.m = model
        self.T = table()
        self.strings = {}
        self.used_texts = set()

    def ev(self, t):
        return self.m.eval(t, model_completion=True)

    def text_of(self, sid):
        sid = self.ev(sid)
        k = sid.as_long()
        if k in self.strings:
            return self.strings[k]
        t = interned_text(k)
        if t is None:
            n = self.ev(str2int(sid))
            f = self.ev(str2float(sid))
            if z3.is_true(self.ev(str_empty(sid))):
                t = ''
            elif z3.is_true(self.ev(V.is_Int(n))):
                t = str(self.ev(V.i(n)).as_long())
            elif z3.is_true(self.ev(V.is_Float(f))):
                t = repr(self.float_of(f)) if self.ev(V.fk(f)).as_long() == 0 else {1: 'nan', 2: '1e999', 3: '-1e999'}[self.ev(V.fk(f)).as_long()]
                if z3.is_true(self.ev(lexical_int(sid))) and self.ev(V.fk(f)).as_long() in (2, 3):
                    t = ('-' if self.ev(V.fk(f)).as_long() == 3 else '') + '9' * 400
            else:
                t = ('__' if z3.is_true(self.ev(str_dunder(sid))) else '') + f"s{k}"
            while t in self.used_texts and t != '':
                t += '_'
        self.used_texts.add(t)
        self.strings[k] = t
        return t

    def float_of(self, f):
        fk = self.ev(V.fk(f)).as_long()
        if fk == 1: return float('nan')
        if fk == 2: return float('inf')
        if fk == 3: return float('-inf')
        fl = self.ev(V.fl(f)).as_long()
        if z3.is_true(self.ev(V.fint(f))):
            try:
                return float(fl)
            except OverflowError:
                raise CannotReify("float out of range")
        return fl + 0.5

    def value(self, t, attrs_of=None, depth=0):
        if depth > 12:
            raise CannotReify("too deep")
        t = self.ev(t)
        n = t.decl().name()
        if n == 'None_': return {'t': 'none'}
        if n == 'Undef': return {'t': 'undef'}
        if n == 'Missing': raise CannotReify("Missing")
        if n == 'Bool': return {'t': 'bool', 'v': z3.is_true(t.arg(0))}
        if n == 'Int': return {'t': 'int', 'v': str(t.arg(0).as_long())}
        if n == 'Float':
            f = self.float_of(t)
            return {'t': 'float', 'v': repr(f)}
        if n == 'Str': return {'t': 'str', 'v': self.text_of(t.arg(0))}
        if n == 'Other': return {'t': 'other', 'id': t.arg(0).as_long()}
        if n in ('List', 'Tuple', 'Set'):
            xs = concrete_list(t.arg(0))
            return {'t': n.lower(), 'v': [self.value(x, attrs_of, depth + 1) for x in xs]}
        if n == 'Dict':
            xs = concrete_list(t.arg(0))
            return {'t': 'dict', 'v': [[self.value(self.ev(V.fst(p)), attrs_of, depth + 1), self.value(self.ev(V.snd(p)), attrs_of, depth + 1)] for p in xs]}
        if n == 'Obj':
            cid = t.arg(0).as_long()
            cname = self.T.cname.get(cid)
            if cname is None:
                raise CannotReify(f"class id {cid}")
            attrs = {}
            want = (attrs_of or {}).get(cname)
            if want is None:
                ci = self.T.classes.get(cname)
                want = sorted(a for c in self.T.mro(cname) if c in self.T.classes for a in self.T.classes[c].inst_attrs) if ci else []
                want = [a for a in want if a not in ('location',)]
            for a in want:
                try:
                    attrs[a] = self.value(z3.Select(field0(a), t), attrs_of, depth + 1)
                except CannotReify:
                    attrs[a] = {'t': 'none'}
            return {'t': 'obj', 'cls': cname, 'ref': t.arg(1).as_long(), 'attrs': attrs}
        raise CannotReify(n)


_float_ids = {}


def float_term(x):
    if math.isnan(x): return V.Float(1, 0, False, -7)
    if math.isinf(x): return V.Float(2 if x > 0 else 3, 0, False, -8 if x > 0 else -9)
    key = repr(x)
    fid = _float_ids.setdefault(key, 100000 + len(_float_ids))
    return V.Float(0, math.floor(x), x == math.floor(x), fid)


def term_of_json(j, facts, T=None):
    """tagged JSON -> ground term ; attribute facts about objects are appended to `facts`"""
    T = T or table()
    t = j['t']
    if t == 'none': return V.None_
    if t == 'undef': return V.Undef
    if t == 'bool': return V.Bool(bool(j['v']))
    if t == 'int': return V.Int(int(j['v']))
    if t == 'float': return float_term(float(j['v']))
    if t == 'str': return S(j['v'])
    if t == 'other': return V.Other(j['id'])
    if t in ('list', 'tuple', 'set'):
        xs = [term_of_json(x, facts, T) for x in j['v']]
        return {'list': V.List, 'tuple': V.Tuple, 'set': V.Set}[t](mklist(*xs))
    if t == 'dict':
        return V.Dict(mklist(*[V.Pair(term_of_json(k, facts, T), term_of_json(v, facts, T)) for k, v in j['v']]))
    if t in ('obj', 'exc'):
        cid = T.cid.get(j['cls'])
        if cid is None:
            cid = T.cid['Exception'] if t == 'exc' else 0
        o = V.Obj(cid, j.get('ref', -999))
        for a, v in (j.get('attrs') or {}).items():
            facts.append(z3.Select(field0(a), o) == term_of_json(v, facts, T))
        return o
    raise CannotReify(t)


def string_facts(strings):
    """native facts about float(text) / int(text) / emptiness for every text involved"""
    facts = []
    for text, info in strings.items():
        sid = strid(text)
        f, n = info.get('float'), info.get('int')
        facts.append(str2float(sid) == (VALUE_ERROR if f is None else float_term(float(f))))
        facts.append(str2int(sid) == (VALUE_ERROR if n is None else V.Int(int(n))))
        facts.append(str_empty(sid) == (text == ''))
        facts.append(str_dunder(sid) == text.startswith('__'))
    return facts


def run_native(spec, timeout=60):
    p = subprocess.run([NATIVE_PY, os.path.join(HERE, 'native_replay.py')], input=json.dumps(spec), capture_output=True, text=True, timeout=timeout,
                       env={**os.environ, 'PYTHONPATH': os.environ.get('PYVC_REPO', '/repo')})
    if p.returncode != 0:
        return {'error': (p.stderr or '')[-800:]}
    try:
        return json.loads(p.stdout.strip().splitlines()[-1])
    except Exception:
        return {'error': 'unparseable native output: ' + p.stdout[-300:]}
