"""Mechanical extraction from /repo (DESIGN 2.1): functions, classes, import maps.

Re-read on every run; nothing here is hand-written about the repo.
Dropped by extraction: docstrings, comments, type annotations.
"""
import ast
import hashlib
import os

REPO = os.environ.get('PYVC_REPO', '/repo')
PKG = 'tartiflette'

BUILTIN_EXC_PARENT = {
    'BaseException': None, 'Exception': 'BaseException', 'TypeError': 'Exception', 'ValueError': 'Exception',
    'ArithmeticError': 'Exception', 'OverflowError': 'ArithmeticError', 'ZeroDivisionError': 'ArithmeticError',
    'AttributeError': 'Exception', 'LookupError': 'Exception', 'KeyError': 'LookupError', 'IndexError': 'LookupError',
    'RuntimeError': 'Exception', 'NotImplementedError': 'RuntimeError', 'RecursionError': 'RuntimeError',
    'StopIteration': 'Exception', 'StopAsyncIteration': 'Exception', 'ImportError': 'Exception',
    'ModuleNotFoundError': 'ImportError', 'OSError': 'Exception', 'FileNotFoundError': 'OSError',
    'AssertionError': 'Exception', 'UnicodeError': 'ValueError', 'NameError': 'Exception',
    'CancelledError': 'BaseException', 'KeyboardInterrupt': 'BaseException',
}
BUILTIN_CLASSES = ['coroutine', 'object', 'bool', 'int', 'float', 'str', 'list', 'dict', 'tuple', 'set', 'bytes', 'NoneType', 'function']


class ClassInfo:
    def __init__(self, name, module, node, bases):
        self.name, self.module, self.node, self.bases = name, module, node, bases
        self.methods, self.props, self.consts, self.inst_attrs = {}, {}, {}, set()
        self.cid = None

    def __repr__(self):
        return f"<class {self.name}@{self.module}>"


class Table:
    def __init__(self, repo=None):
        self.repo = repo or REPO
        self.modules = {}      # relpath -> (src, ast.Module)
        self.classes = {}      # name -> ClassInfo  (class names are unique in the package; checked)
        self.dupe_classes = set()
        self.functions = {}    # "relpath::qual" -> (node, src)
        self.imports = {}      # relpath -> {local name: (relpath or None, original name)}
        self.module_consts = {}  # relpath -> {name: ast expr}
        self._load()

    # ---- loading
    def _load(self):
        root = os.path.join(self.repo, PKG)
        for d, _, files in os.walk(root):
            for f in sorted(files):
                if not f.endswith('.py'):
                    continue
                path = os.path.join(d, f)
                rel = os.path.relpath(path, self.repo)
                try:
                    src = open(path).read()
                    tree = ast.parse(src)
                except (SyntaxError, OSError):
                    continue
                self.modules[rel] = (src, tree)
        for rel, (src, tree) in self.modules.items():
            self._scan_module(rel, src, tree)
        names = sorted(set(BUILTIN_EXC_PARENT) | set(BUILTIN_CLASSES) | set(self.classes))
        self.cid = {n: k + 1 for k, n in enumerate(names)}
        self.cname = {k: n for n, k in self.cid.items()}
        for c in self.classes.values():
            c.cid = self.cid[c.name]

    def _modpath(self, dotted):
        p = dotted.replace('.', '/')
        for cand in (p + '.py', p + '/__init__.py'):
            if cand in self.modules:
                return cand
        return None

    def _scan_module(self, rel, src, tree):
        imp, consts = {}, {}
        for n in tree.body:
            if isinstance(n, ast.ImportFrom) and n.module:
                mod = n.module
                if n.level:
                    base = os.path.dirname(rel).split('/')
                    base = base[:len(base) - (n.level - 1)]
                    mod = '.'.join(base + ([n.module] if n.module else []))
                for a in n.names:
                    imp[a.asname or a.name] = (mod, a.name)
            elif isinstance(n, ast.Import):
                for a in n.names:
                    imp[a.asname or a.name.split('.')[0]] = (a.name, None)
            elif isinstance(n, ast.Assign) and len(n.targets) == 1 and isinstance(n.targets[0], ast.Name):
                consts[n.targets[0].id] = n.value
            elif isinstance(n, ast.AnnAssign) and isinstance(n.target, ast.Name) and n.value is not None:
                consts[n.target.id] = n.value
        self.imports[rel] = imp
        self.module_consts[rel] = consts
        self._scan_body(rel, src, tree.body, '')

    def _scan_body(self, rel, src, body, prefix):
        for n in body:
            if isinstance(n, (ast.FunctionDef, ast.AsyncFunctionDef)):
                q = prefix + n.name
                self.functions[f"{rel}::{q}"] = (n, src)
                self._scan_body(rel, src, n.body, q + '.<locals>.')
            elif isinstance(n, ast.ClassDef):
                bases = []
                for b in n.bases:
                    if isinstance(b, ast.Name):
                        bases.append(b.id)
                    elif isinstance(b, ast.Attribute):
                        bases.append(b.attr)
                ci = ClassInfo(n.name, rel, n, bases)
                if n.name in self.classes:
                    self.dupe_classes.add(n.name)
                self.classes[n.name] = ci
                for m in n.body:
                    if isinstance(m, (ast.FunctionDef, ast.AsyncFunctionDef)):
                        decos = [d.id if isinstance(d, ast.Name) else (d.attr if isinstance(d, ast.Attribute) else '?') for d in m.decorator_list]
                        if 'property' in decos:
                            ci.props[m.name] = m
                        elif 'setter' in decos:
                            pass
                        else:
                            ci.methods[m.name] = m
                        self.functions[f"{rel}::{prefix}{n.name}.{m.name}"] = (m, src)
                        for w in ast.walk(m):
                            if isinstance(w, (ast.Assign, ast.AnnAssign, ast.AugAssign)):
                                tg = w.targets if isinstance(w, ast.Assign) else [w.target]
                                for t in tg:
                                    for tt in (t.elts if isinstance(t, ast.Tuple) else [t]):
                                        if isinstance(tt, ast.Attribute) and isinstance(tt.value, ast.Name) and tt.value.id == 'self':
                                            ci.inst_attrs.add(tt.attr)
                        self._scan_body(rel, src, m.body, f"{prefix}{n.name}.{m.name}.<locals>.")
                    elif isinstance(m, ast.Assign) and len(m.targets) == 1 and isinstance(m.targets[0], ast.Name):
                        if m.targets[0].id == '__slots__':
                            try:
                                for s in ast.literal_eval(m.value):
                                    ci.inst_attrs.add(s)
                            except Exception:
                                pass
                        else:
                            ci.consts[m.targets[0].id] = m.value
                    elif isinstance(m, ast.AnnAssign) and isinstance(m.target, ast.Name) and m.value is not None:
                        ci.consts[m.target.id] = m.value

    # ---- queries
    def function(self, key):
        """key 'relpath::Qual.name' -> (node, source segment sha, full src)"""
        node, src = self.functions[key]
        seg = ast.get_source_segment(src, node) or ''
        return node, hashlib.sha256(seg.encode()).hexdigest()[:16], src

    def parent(self, cname):
        if cname in self.classes:
            b = self.classes[cname].bases
            return b[0] if b else 'object'
        if cname in BUILTIN_EXC_PARENT:
            return BUILTIN_EXC_PARENT[cname]
        return None if cname == 'object' else 'object'

    def mro(self, cname):
        """linearisation (left-to-right DFS, duplicates removed; the package uses no diamond that matters)"""
        out, stack = [], [cname]
        while stack:
            c = stack.pop(0)
            if c is None or c in out:
                continue
            out.append(c)
            if c in self.classes:
                stack = list(self.classes[c].bases) + stack
            elif c in BUILTIN_EXC_PARENT and BUILTIN_EXC_PARENT[c]:
                stack = [BUILTIN_EXC_PARENT[c]] + stack
        if 'object' not in out:
            out.append('object')
        return out

    def subclasses(self, cname):
        """all known class names whose mro contains cname (including itself)"""
        return [c for c in self.cid if cname in self.mro(c)]

    def resolve_attr(self, cname, attr):
        """-> ('method'|'prop'|'const'|'inst', owner class, node) or None"""
        inst = False
        for c in self.mro(cname):
            ci = self.classes.get(c)
            if ci is None:
                continue
            if attr in ci.props:
                return ('prop', c, ci.props[attr])
            if attr in ci.methods:
                return ('method', c, ci.methods[attr])
            if attr in ci.inst_attrs:
                inst = True
            if attr in ci.consts:
                return ('inst', c, None) if inst else ('const', c, ci.consts[attr])
        return ('inst', cname, None) if inst else None

    def is_exception_class(self, cname):
        return 'BaseException' in self.mro(cname)

    def resolve_name(self, rel, name):
        """a bare name used in module `rel` -> function key 'relpath::name' or class name or None"""
        if f"{rel}::{name}" in self.functions:
            return ('func', f"{rel}::{name}")
        if name in self.classes and self.classes[name].module == rel:
            return ('class', name)
        imp = self.imports.get(rel, {}).get(name)
        seen = set()
        while imp is not None and imp not in seen:
            seen.add(imp)
            mod, orig = imp
            if orig is None:
                return ('module', mod)
            mp = self._modpath(mod)
            if mp is None:
                return ('external', f"{mod}.{orig}")
            if f"{mp}::{orig}" in self.functions:
                return ('func', f"{mp}::{orig}")
            if orig in self.classes and self.classes[orig].module == mp:
                return ('class', orig)
            if orig in self.module_consts.get(mp, {}):
                return ('const', (mp, orig))
            sub = self._modpath(mod + '.' + orig)
            if sub is not None:
                return ('module', mod + '.' + orig)
            imp = self.imports.get(mp, {}).get(orig)
        if name in self.module_consts.get(rel, {}):
            return ('const', (rel, name))
        if name in self.classes:
            return ('class', name)
        return None


_TABLE = None


def table():
    global _TABLE
    if _TABLE is None:
        _TABLE = Table()
    return _TABLE
