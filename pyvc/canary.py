"""Canary mutants (DESIGN 2.13): every contract must reject at least one built-in AST mutation of its function;
run: python3-vt -m pyvc.canary <PID> [regex]"""
import ast
import copy
import multiprocessing as mp
import os
import re
import sys
import time

ROOT = os.path.dirname(os.path.dirname(os.path.abspath(__file__)))
sys.path.insert(0, ROOT)


def mutants(f):
    nodes = list(ast.walk(f))
    out = []
    for idx, n in enumerate(nodes):
        if isinstance(n, (ast.If, ast.IfExp, ast.While)):
            out.append((f"negate-test@{n.lineno}", idx, 'neg'))
        if isinstance(n, ast.Compare):
            for j, op in enumerate(n.ops):
                if type(op) in SWAP:
                    out.append((f"relop@{n.lineno}.{j}", idx, ('rel', j)))
        if isinstance(n, ast.BoolOp):
            out.append((f"boolop@{n.lineno}", idx, 'bool'))
        if isinstance(n, ast.Return) and n.value is not None and not (isinstance(n.value, ast.Constant) and n.value.value is None):
            out.append((f"return-none@{n.lineno}", idx, 'retnone'))
        if isinstance(n, (ast.Expr, ast.Assign, ast.AugAssign)) and not (isinstance(n, ast.Expr) and isinstance(n.value, ast.Constant)):
            out.append((f"drop-stmt@{n.lineno}", idx, 'drop'))
    return out


SWAP = {ast.LtE: ast.Lt, ast.Lt: ast.LtE, ast.GtE: ast.Gt, ast.Gt: ast.GtE, ast.Eq: ast.NotEq, ast.NotEq: ast.Eq, ast.Is: ast.IsNot,
        ast.IsNot: ast.Is, ast.In: ast.NotIn, ast.NotIn: ast.In}


def apply(f, idx, what):
    g = copy.deepcopy(f)
    m = list(ast.walk(g))[idx]
    if what == 'neg':
        m.test = ast.UnaryOp(op=ast.Not(), operand=m.test)
    elif what == 'bool':
        m.op = ast.Or() if isinstance(m.op, ast.And) else ast.And()
    elif what == 'retnone':
        m.value = ast.Constant(value=None)
    elif what == 'drop':
        for parent in ast.walk(g):
            for field in ('body', 'orelse', 'finalbody'):
                lst = getattr(parent, field, None)
                if isinstance(lst, list) and m in lst:
                    lst[lst.index(m)] = ast.Pass()
    elif isinstance(what, tuple) and what[0] == 'rel':
        m.ops[what[1]] = SWAP[type(m.ops[what[1]])]()
    ast.fix_missing_locations(g)
    return g


def work(task):
    mn, idx, label, nidx, what = task
    from pyvc.run import load_all
    from pyvc.contracts import verify
    props, mods, registry = load_all()
    c = mods[mn].CONTRACTS[idx]
    try:
        rep = verify(c, registry, mutate=lambda f: apply(f, nidx, what))
        rep.pop('_models', None); rep.pop('_A', None)
        dead = rep['status'] != 'ok' or any(o['result'] != 'unsat' for o in rep['obligations'])
        why = rep['status'] if rep['status'] != 'ok' else next((o['name'].split('#')[1] + ':' + o['result'] for o in rep['obligations'] if o['result'] != 'unsat'), '')
    except Exception as e:
        dead, why = True, 'exception ' + str(e)[:80]
    return (c.key, label, dead, why)


def main():
    pid = sys.argv[1]
    pat = sys.argv[2] if len(sys.argv) > 2 else None
    from pyvc.run import load_all
    from pyvc.classtable import table
    props, mods, registry = load_all()
    tasks = []
    for mn in props[pid]['modules']:
        for i, c in enumerate(mods[mn].CONTRACTS):
            if pid not in c.property_ids or (pat and not re.search(pat, c.key)) or c.key not in table().functions:
                continue
            node, _ = table().functions[c.key]
            for (label, nidx, what) in mutants(node):
                tasks.append((mn, i, label, nidx, what))
    t0 = time.time()
    with mp.Pool(16) as pool:
        res = pool.map(work, tasks, chunksize=1)
    per = {}
    for key, label, dead, why in res:
        per.setdefault(key, []).append((label, dead, why))
    tooth = 0
    for key, lst in per.items():
        k = sum(1 for _, d, _ in lst if d)
        print(f"{key:<90} mutants={len(lst):<3} killed={k}")
        for label, d, why in lst:
            if not d:
                print(f"      survivor {label}")
        if k == 0:
            tooth += 1
    print(f"canary {pid}: mutants={len(res)} killed={sum(1 for r in res if r[2])} toothless_contracts={tooth} wall={time.time()-t0:.1f}s")
    return 3 if tooth else 0


if __name__ == '__main__':
    sys.exit(main())
