"""Runs under /venv/bin/python: rebuild real objects from tagged JSON, call the real function of /repo, abstract the outcome.
The dlopen shim only replaces the missing libgraphqlparser.so (text -> JSON AST), nothing of the code under test."""
import asyncio
import importlib
import inspect
import json
import math
import sys


def shim():
    import cffi

    class _Dummy:
        def __getattr__(self, n):
            raise RuntimeError("libgraphqlparser is not available in this sandbox")
    cffi.FFI.dlopen = lambda self, *a, **k: _Dummy()


class Opaque:
    """stands for the `Other` values of the universe: no numeric / sequence / mapping protocol"""
    def __init__(self, k):
        self.k = k

    def __repr__(self):
        return f"<opaque {self.k}>"


STRINGS = {}


def note_string(s):
    if s in STRINGS:
        return
    info = {}
    try:
        f = float(s)
        info['float'] = repr(f)
    except Exception:
        info['float'] = None
    try:
        info['int'] = str(int(s))
    except Exception:
        info['int'] = None
    STRINGS[s] = info


def build(j, objs):
    t = j['t']
    if t == 'none': return None
    if t == 'undef':
        from tartiflette.constants import UNDEFINED_VALUE
        return UNDEFINED_VALUE
    if t == 'bool': return bool(j['v'])
    if t == 'int': return int(j['v'])
    if t == 'float': return float(j['v'])
    if t == 'str':
        note_string(j['v'])
        return j['v']
    if t == 'other': return objs.setdefault(('other', j['id']), Opaque(j['id']))
    if t == 'list': return [build(x, objs) for x in j['v']]
    if t == 'tuple': return tuple(build(x, objs) for x in j['v'])
    if t == 'set': return set(build(x, objs) for x in j['v'])
    if t == 'dict': return {build(k, objs): build(v, objs) for k, v in j['v']}
    if t == 'obj':
        key = ('obj', j['cls'], j.get('ref'))
        if key in objs:
            return objs[key]
        cls = find_class(j['cls'])
        o = cls.__new__(cls)
        objs[key] = o
        for a, v in (j.get('attrs') or {}).items():
            try:
                object.__setattr__(o, a, build(v, objs))
            except Exception:
                pass
        for a in ('location',) + tuple(getattr(cls, '__slots__', ()) or ()):
            if not hasattr(o, a):
                try:
                    object.__setattr__(o, a, None)
                except Exception:
                    pass
        return o
    raise ValueError(t)


_CLASS_CACHE = {}


def find_class(name):
    if name in _CLASS_CACHE:
        return _CLASS_CACHE[name]
    import builtins
    if hasattr(builtins, name):
        return getattr(builtins, name)
    import pkgutil
    import tartiflette
    for m in pkgutil.walk_packages(tartiflette.__path__, 'tartiflette.'):
        try:
            mod = importlib.import_module(m.name)
        except Exception:
            continue
        c = getattr(mod, name, None)
        if inspect.isclass(c) and c.__module__ == m.name:
            _CLASS_CACHE[name] = c
            return c
    raise LookupError(name)


def abstract(v, depth=0, attrs=None):
    from tartiflette.constants import UNDEFINED_VALUE
    if depth > 10:
        return {'t': 'other', 'id': -2}
    if v is None: return {'t': 'none'}
    if v is UNDEFINED_VALUE: return {'t': 'undef'}
    if isinstance(v, bool): return {'t': 'bool', 'v': v}
    if isinstance(v, int): return {'t': 'int', 'v': str(v)}
    if isinstance(v, float): return {'t': 'float', 'v': repr(v)}
    if isinstance(v, str):
        note_string(v)
        return {'t': 'str', 'v': v}
    if isinstance(v, Opaque): return {'t': 'other', 'id': v.k}
    if isinstance(v, list): return {'t': 'list', 'v': [abstract(x, depth + 1, attrs) for x in v]}
    if isinstance(v, tuple): return {'t': 'tuple', 'v': [abstract(x, depth + 1, attrs) for x in v]}
    if isinstance(v, dict): return {'t': 'dict', 'v': [[abstract(k, depth + 1, attrs), abstract(x, depth + 1, attrs)] for k, x in v.items()]}
    if isinstance(v, BaseException):
        d = {'t': 'exc', 'cls': type(v).__name__, 'msg': str(v)[:300], 'mro': [c.__name__ for c in type(v).__mro__], 'attrs': {}}
        for a in (attrs or {}).get(type(v).__name__, ()):
            if hasattr(v, a):
                d['attrs'][a] = abstract(getattr(v, a), depth + 1, attrs)
        return d
    try:
        rp = repr(v)[:200]
    except Exception:
        rp = '<unrepresentable>'
    d = {'t': 'obj', 'cls': type(v).__name__, 'ref': -(id(v) % 1000003) - 10, 'attrs': {}, 'repr': rp}
    want = (attrs or {}).get(type(v).__name__)
    if want is None:
        want = [a for a in (getattr(v, '__slots__', None) or getattr(v, '__dict__', {}).keys())][:12]
    for a in want:
        try:
            d['attrs'][a] = abstract(getattr(v, a), depth + 1, attrs)
        except Exception:
            pass
    return d


def resolve(key):
    path, qual = key.split('::')
    mod = importlib.import_module(path[:-3].replace('/', '.'))
    obj = mod
    for part in qual.split('.'):
        obj = getattr(obj, part)
    return obj


def main():
    spec = json.load(sys.stdin)
    shim()
    sys.setrecursionlimit(3000)
    objs = {}
    fn = resolve(spec['target'])
    args = [build(a, objs) for a in spec.get('args', [])]
    kwargs = {k: build(v, objs) for k, v in spec.get('kwargs', {}).items()}
    if spec.get('self_class'):
        cls = find_class(spec['self_class'])
        try:
            selfo = cls()
        except Exception:
            selfo = cls.__new__(cls)
        args = [selfo] + args
    if spec.get('unwrap'):      # functions wrapped by a decorator: call what the module exports (the decorated one)
        pass
    out = {}
    try:
        r = fn(*args, **kwargs)
        if inspect.isawaitable(r):
            r = asyncio.run(_await(r))
        out = {'kind': 'return', 'value': abstract(r, attrs=spec.get('attrs'))}
    except Exception as e:     # noqa
        out = {'kind': 'raise', 'value': abstract(e, attrs=spec.get('attrs'))}
    out['args_after'] = [abstract(a, attrs=spec.get('attrs')) for a in args[(1 if spec.get('self_class') else 0):]]
    out['strings'] = STRINGS
    print(json.dumps(out))


async def _await(r):
    return await r


if __name__ == '__main__':
    main()
